"""C13 — distributed tree: one parent, bounded live children, truthful advertised place.

L1  theories/C13/Props.v over the tree machine of C13/Model.v; decision functions and constants
    regenerated from distributed.py / constants.py by translate/tr_dist.py (gen/DistGen.v).
L2  correspondence: event histories (<= 10 events after a login, 3-4 remote peers) are run on the
    REAL Network + DistributedNetwork + PeerConnection code over fake endpoints (checks/c13_rig.py)
    and on the model (`first_diff`, vm_compute); compared after every event: parent, children,
    distributed_peers (with level/root), potential_parents, accept/max, live connections, the
    messages written to the server and to every connection in that step, connections closed.
    Interleaving: Hold / Release events block and release drain() of the server connection, so
    that _set_parent / _unset_parent stay suspended at their server send while other events land.
L3  monitor = the property text on the implementation trace (tree invariants, admission, what the
    server and every child were last told vs. the position derived from the current parent).
"""
from __future__ import annotations

from vlib.common import Run, Finding, BrokenTie, coq_eval_many, parse_eval, parse_coq_list, listlit, optlit, blit, shrink_list

NAMES = ['me', 'alice', 'bob', 'carol', 'dave', 'root1', 'root2', 'erin']
NID = {n: i for i, n in enumerate(NAMES)}
PEER_NAMES = ['alice', 'bob', 'carol', 'dave']
ROOTS = ['root1', 'root2', 'me', 'alice', 'bob']

F10_KEY = 'F10-child-announcing-level-and-root-becomes-parent-while-child'
F11_KEY = 'F11-parent-update-not-forwarded-to-server'
F27_KEY = 'F27-tree-change-while-logged-out-never-advertised-to-children'
F28_KEY = 'F28-slow-new-child-gets-stale-root-after-parent-update'


# ------------------------------------------------------------------------------------------
# running events on the implementation
# ------------------------------------------------------------------------------------------

def apply_event(rig, ev):
    from aioslsk.protocol import messages as M
    from aioslsk.protocol.primitives import PotentialParent, UserStats
    k = ev[0]
    if k == 'SI':
        rig.session_init()
    elif k == 'SD':
        rig.session_destroyed()
    elif k == 'SC':
        rig.server_closed()
    elif k == 'PP':
        rig.server_msg(M.PotentialParents.Response([PotentialParent(n, f'10.9.0.{NID[n]}', 2234) for n in ev[1]]))
    elif k == 'PI':
        rig.peer_init(ev[1], ev[2], bool(ev[3]), hold=(len(ev) > 4 and ev[4] == 'hold'))
    elif k == 'ADV':         # virtual time passes (harness-only)
        rig.advance(ev[1])
    elif k == 'FL':          # the server floods search requests of some other user; they are forwarded to the children (harness-only)
        from aioslsk.protocol import messages as M2
        for j in range(ev[1]):
            rig.loop.create_task(rig.network.on_message_received(
                M2.ServerSearchRequest.Response(distributed_code=3, unknown=0, username='erin', ticket=1000 + j, query='x'), rig.network.server_connection))
        rig.settle(max_rounds=4000)
    elif k == 'CH':          # the peer on this connection stops reading (harness-only)
        rig.child_hold(ev[1])
    elif k == 'SET':         # settings sub-objects replaced as a whole (harness-only)
        rig.replace_settings_objects()
    elif k == 'KH':          # closing this connection will take time (harness-only)
        rig.slow_close(ev[1], True)
    elif k == 'KR':          # ... and now completes
        rig.finish_close(ev[1])
    elif k == 'PF':          # the outgoing connection attempts to this proposed parent fail (harness-only: no model event)
        rig.fail_connects(f'10.9.0.{NID[ev[1]]}')
    elif k == 'CR':          # the slow peer on this connection reads again (harness-only: no model event)
        rig.child_release(ev[1])
    elif k == 'BL':
        rig.peer_msg(ev[1], M.DistributedBranchLevel.Request(ev[2]))
    elif k == 'BR':
        rig.peer_msg(ev[1], M.DistributedBranchRoot.Request(ev[2]))
    elif k == 'CC':
        rig.peer_eof(ev[1])
    elif k == 'MS':
        rig.server_msg(M.ParentMinSpeed.Response(ev[1]))
    elif k == 'SR':
        rig.server_msg(M.ParentSpeedRatio.Response(ev[1]))
    elif k == 'OS':
        rig.server_msg(M.GetUserStats.Response('me', UserStats(ev[1], 1, 1, 1)))
    elif k == 'RD':
        rig.server_msg(M.ResetDistributed.Response())
    elif k == 'H':
        rig.hold()
    elif k == 'R':
        rig.release()
    else:
        raise ValueError(ev)


def observe(rig, prev_closed):
    st = rig.state()
    closed = rig.closed_ids()
    o = {
        'parent': st['parent'], 'children': st['children'],
        'peers': _peers_in_order(rig),
        'cands': st['cands'], 'accept': st['accept'], 'max': st['max'], 'live': st['live'],
        'session': st['session'],
        'srv': rig.server_new(),
        'conn': {c: m for c, m in ((c, rig.conn_new(c)) for c in sorted(rig.eps)) if m},
        'closed': [c for c in closed if c not in prev_closed],
        'held': rig.held, 'blocked': rig.blocked, 'cheld': rig.held_children(),
        'kheld': rig.closing_pending(),
    }
    return o, closed


def _peers_in_order(rig):
    return [[rig.cid(p.connection), p.username, p.branch_level, p.branch_root] for p in rig.dist.distributed_peers]


def run_impl(events, noisy=False):
    from checks.c13_rig import Rig
    rig = Rig(noisy=noisy)
    try:
        obs = []
        closed = []
        for ev in events:
            apply_event(rig, ev)
            o, closed = observe(rig, closed)
            obs.append(o)
        return obs
    finally:
        rig.close()


# ------------------------------------------------------------------------------------------
# generation (adaptive: the next event is chosen knowing which readers are blocked)
# ------------------------------------------------------------------------------------------

def float_ok(speed, ratio):
    """the float expression of _calculate_max_children equals the exact quotient for these values"""
    if ratio <= 0:
        return True
    from aioslsk.distributed import DistributedNetwork
    return DistributedNetwork._calculate_max_children(None, speed, ratio) == (speed * 10) // (ratio * 1024)


SPEEDS = [0, 1, 1023, 1024, 1025, 2048, 5119, 5120, 5121, 10240, 51200, 1000000]
RATIOS = [0, 1, 5, 10, 50, 100]
MINS = [0, 1, 2, 5]


def gen_and_run(rng, n, style, noisy=False):
    """Returns (events, obs).  Events are valid for the rig: only live, non-blocked connections
    speak; no server message while an earlier server-message handler is blocked."""
    from checks.c13_rig import Rig
    rig = Rig(noisy=noisy)
    events, obs = [], []
    closed = []
    next_c = [1]
    busy = set()          # connections whose reader task is suspended in a held handler
    server_busy = [False]

    def do(ev, src=None):
        b0 = rig.blocked
        apply_event(rig, ev)
        o, cl = observe(rig, closed)
        closed[:] = cl
        events.append(ev)
        obs.append(o)
        if rig.blocked > b0:
            if src == 'server':
                server_busy[0] = True
            elif src is not None:
                busy.add(src)
        if ev[0] == 'R':
            busy.clear()
            server_busy[0] = False
    try:
        if style != 'nologin':
            do(['SI'])
        if style == 'slots':
            # one slot free; a slow peer takes it (its initial branch values are still being written) while another connects
            sp = rng.choice([5120, 10240])
            do(['OS', sp], src='server')
            for _ in range(sp // 5120 - 1):
                c = next_c[0]; next_c[0] += 1
                do(['PI', c, rng.choice(PEER_NAMES), False])
            c1 = next_c[0]; next_c[0] += 1
            do(['PI', c1, rng.choice(PEER_NAMES), False, 'hold'])
            for _ in range(rng.choice([1, 2])):
                c = next_c[0]; next_c[0] += 1
                do(['PI', c, rng.choice(PEER_NAMES), False])
            do(['CR', c1])
            n += len(events)
        if style == 'relogin':
            # a session starts while a parent (and children) already exist: the real position must be advertised again
            a = next_c[0]; next_c[0] += 1
            do(['PI', a, rng.choice(PEER_NAMES), True])
            do(['BL', a, rng.choice([1, 3, 7])], src=a)
            do(['BR', a, rng.choice(['root1', 'root2'])], src=a)
            for _ in range(rng.choice([0, 1, 2])):
                c = next_c[0]; next_c[0] += 1
                do(['PI', c, rng.choice(PEER_NAMES), False])
            do(['SD'])
            k = rng.random()
            if k < 0.3:
                do(['BL', a, rng.choice([2, 5])], src=a)       # the parent changes its level while we are logged out
            elif k < 0.5:
                do(['CC', a])
            do(['SI'])
            n += len(events)
        if style == 'ppfail':
            # the server proposes parents, the connection attempts to (some of) them fail, then they connect to us
            props = rng.sample(PEER_NAMES, rng.choice([1, 2]))
            do(['PP', props], src='server')
            for nm in props:
                if rng.random() < 0.7:
                    do(['PF', nm])
            for nm in props:
                c = next_c[0]; next_c[0] += 1
                do(['PI', c, nm, False])
            n += len(events)
        if style == 'reparent':
            # parent A with children, A is lost, B with the SAME level and root becomes the parent
            lvl, root = rng.choice([1, 3, 7]), rng.choice(['root1', 'root2'])
            a = next_c[0]; next_c[0] += 1
            do(['PI', a, rng.choice(PEER_NAMES), True])
            do(['BL', a, lvl], src=a)
            do(['BR', a, root], src=a)
            for _ in range(rng.choice([1, 2])):
                c = next_c[0]; next_c[0] += 1
                do(['PI', c, rng.choice(PEER_NAMES), False])
            do(['CC', a])
            b = next_c[0]; next_c[0] += 1
            do(['PI', b, rng.choice(PEER_NAMES), True])
            if rng.random() < 0.5:
                do(['BL', b, lvl], src=b); do(['BR', b, root], src=b)
            else:
                do(['BR', b, root], src=b); do(['BL', b, lvl], src=b)
            n += len(events)
        if style in ('tree', 'treehold'):
            # directed prefix: a parent, 1..3 children, sometimes a further candidate
            c = next_c[0]; next_c[0] += 1
            do(['PI', c, rng.choice(PEER_NAMES), True])
            if rng.random() < 0.3:
                do(['BL', c, 0], src=c)
            else:
                do(['BL', c, rng.choice([1, 3, 7])], src=c)
                do(['BR', c, rng.choice(['root1', 'root2', 'me'])], src=c)
            for _ in range(rng.choice([1, 1, 2, 3])):
                c = next_c[0]; next_c[0] += 1
                do(['PI', c, rng.choice(PEER_NAMES), False])
            n += len(events)
        while len(events) < n:
            st = rig.state()
            live = [c for c in st['live'] if c not in busy]
            nonchild = [c for c in live if c not in st['children']]
            r = rng.random()
            srv_ok = not server_busy[0]
            f10_state = st['parent'] is not None and st['parent'] in st['children']
            if rng.random() < 0.03 and not rig.held:
                do(['SET'])
            elif style in ('tree', 'treehold') and st['parent'] in live and rng.random() < 0.35:
                p = st['parent']
                k = rng.random()
                if k < 0.4:
                    do(['CC', p])
                elif k < 0.7:
                    do(['BL', p, rng.choice([0, 2, 5, 9])], src=p)
                else:
                    do(['BR', p, rng.choice(ROOTS)], src=p)
            elif r < 0.22 or not st['live']:
                name = rng.choice(PEER_NAMES)
                req = rng.random() < (0.55 if style != 'children' else 0.2)
                c = next_c[0]
                next_c[0] += 1
                do(['PI', c, name, req])
            elif r < 0.50 and live:
                pool = nonchild if (nonchild and rng.random() < (0.85 if style != 'f10' else 0.3)) else live
                c = rng.choice(pool)
                if rng.random() < 0.5:
                    do(['BL', c, rng.choice([0, 0, 1, 2, 3, 7, 4294967294 if rng.random() < 0.05 else 5])], src=c)
                else:
                    do(['BR', c, rng.choice(ROOTS)], src=c)
            elif r < 0.62 and live:
                pool = [c for c in live if c == st['parent']] if (st['parent'] in live and rng.random() < 0.5) else live
                do(['CC', rng.choice(pool)])
            elif r < 0.66 and rig.pending_connects and not rig.held:
                host = rng.choice(sorted(rig.pending_connects))
                do(['PF', NAMES[int(host.rsplit('.', 1)[1])]])
            elif r < 0.70 and srv_ok:
                do(['PP', [rng.choice(PEER_NAMES) for _ in range(rng.choice([1, 1, 2, 3, 21]))]], src='server')
            elif r < 0.80 and srv_ok:
                k = rng.random()
                if k < 0.3:
                    do(['MS', rng.choice(MINS)], src='server')
                elif k < 0.6:
                    do(['SR', rng.choice(RATIOS)], src='server')
                else:
                    sp = rng.choice(SPEEDS)
                    ratio = st['pratio'] if st['pratio'] is not None else 50
                    if float_ok(sp, ratio):
                        do(['OS', sp], src='server')
            elif r < 0.85 and srv_ok and not (rig.held and f10_state):
                do(['RD'], src='server')
            elif r < 0.93:
                if rig.held:
                    do(['R'])
                elif style in ('hold', 'mixed', 'treehold'):
                    do(['H'])
            elif r < 0.97 and style in ('session', 'nologin') and not rig.held:
                do(['SD'] if st['session'] else ['SI'])
            elif srv_ok and style == 'session':
                do(['SC'], src='server')
        if rig.held:
            do(['R'])
        return events, obs
    finally:
        rig.close()


# ------------------------------------------------------------------------------------------
# monitor: the property text on an implementation trace
# ------------------------------------------------------------------------------------------

def expected_position(o, ann=None):
    """position derived from the current parent: its level + 1 and its root, as the parent ANNOUNCED them (`ann`: connection ->
    [level, root] folded from the BranchLevel/BranchRoot messages it sent; level 0 means the peer is its own root).  Without
    `ann` the implementation's own peer table is used."""
    if o['parent'] is None:
        return (0, 'me')
    if ann is not None and o['parent'] in ann:
        l, r = ann[o['parent']]
        if r == 'me':
            return (0, 'me')
        return (None if l is None else l + 1, r)
    for c, n, l, r in o['peers']:
        if c == o['parent']:
            if r == 'me':
                return (0, 'me')
            return (None if l is None else l + 1, r)
    return ('parent-not-registered', None)


def monitor(events, obs):
    """Returns list of (key, what, detail).  Keys of recorded findings are attached only to
    violations of exactly that shape."""
    out = []

    def add(key, what, detail):
        if not any(k == key for k, _, _ in out):
            out.append((key, what, detail))
    told_srv = {'L': None, 'R': None, 'S': None}
    told = {}                 # conn -> [level, root]
    had_session = False
    sess = False              # a session exists, according to the EVENTS (not to the implementation's own flag)
    f11_pending = False
    dirty = set()             # children that missed an announcement because no session existed
    slow_dirty = set()        # children whose _add_child was still suspended in its first write when the position changed
    prev = {'parent': None, 'children': [], 'peers': [], 'cands': [], 'accept': True, 'max': 5, 'live': [], 'session': False}
    lost = {}                 # connection -> virtual seconds passed since the remote side closed it
    pmin = pratio = None
    from collections import deque
    from aioslsk.constants import POTENTIAL_PARENTS_CACHE_SIZE
    proposed = deque(maxlen=POTENTIAL_PARENTS_CACHE_SIZE)   # names the server proposed as potential parents (the monitor's own record)
    ann = {}                  # connection -> [level, root] as announced by the peer
    names = {}
    ppos = (0, 'me')
    for i, (ev, o) in enumerate(zip(events, obs)):
        proposed_before = list(proposed)
        if ev[0] == 'PP':
            proposed.extend(ev[1])
        elif ev[0] == 'PI':
            names[ev[1]] = ev[2]
            ann[ev[1]] = [None, None]
        elif ev[0] == 'BL' and ev[1] in prev['live']:
            ann.setdefault(ev[1], [None, None])[0] = ev[2]
            if ev[2] == 0:
                ann[ev[1]][1] = names.get(ev[1])      # level 0: the peer is the root of its branch
        elif ev[0] == 'BR' and ev[1] in prev['live']:
            ann.setdefault(ev[1], [None, None])[1] = ev[2]
        # --- child limit as specified (C13_child_limit_spec): threshold and quotient
        if ev[0] == 'MS':
            pmin = ev[1]
        elif ev[0] == 'SR':
            pratio = ev[1]
        elif ev[0] == 'SC':
            pmin = pratio = None
        elif ev[0] == 'OS' and prev['session']:
            mn = 1 if pmin is None else pmin
            rt = 50 if pratio is None else pratio
            if rt > 0 and float_ok(ev[1], rt):
                want_acc = ev[1] >= mn * 1024
                want_max = (ev[1] * 10) // (rt * 1024) if want_acc else 0
                if (o['accept'], o['max']) != (want_acc, want_max) or ['A', want_acc] not in o['srv']:
                    add('child-limit-differs-from-speed-formula', 'accept/max children after own stats differ from the speed threshold / ratio quotient',
                        {'step': i, 'speed': ev[1], 'min_speed': mn, 'ratio': rt, 'got': [o['accept'], o['max'], o['srv']], 'want': [want_acc, want_max]})
        # --- what was told in this step
        srv_told_now = False
        for m in o['srv']:
            if m[0] in 'LRS':
                told_srv[m[0]] = m[1]
                srv_told_now = True
        for c, msgs in o['conn'].items():
            for m in msgs:
                if m[0] == 'L':
                    told.setdefault(c, [None, None])[0] = m[1]
                    if m[1] == 0:
                        told[c][1] = 'me'
                    dirty.discard(c)
                elif m[0] == 'R':
                    told.setdefault(c, [None, None])[1] = m[1]
        if ev[0] == 'SI':
            had_session = True
            sess = True
        elif ev[0] == 'SD':
            sess = False
        # --- tree invariants
        ch = o['children']
        regs = [p[0] for p in o['peers']]
        if len(set(ch)) != len(ch):
            add('children-duplicate', 'a connection is twice in children', {'step': i, 'children': ch})
        if o['parent'] is not None and o['parent'] in ch:
            pv = prev
            was_child = o['parent'] in pv['children'] or (ev[0] in ('BL', 'BR') and ev[1] == o['parent'])
            add(F10_KEY if was_child else 'parent-among-children',
                'the parent connection is also in children', {'step': i, 'parent': o['parent'], 'children': ch})
        for c in ch:
            if c not in regs:
                add('child-not-registered', 'child without distributed peer entry', {'step': i, 'conn': c})
            if c not in o['live'] and not o['held']:
                add('child-not-live', 'a closed connection is still a child', {'step': i, 'conn': c})
        if o['parent'] is not None:
            if o['parent'] not in regs or o['parent'] not in o['live']:
                add('parent-not-live', 'the parent is not a live distributed connection', {'step': i, 'parent': o['parent']})
        # --- a connection the remote side closed is gone (not parent, not child) once the disconnect timeout has passed,
        #     however long the transport takes to confirm the close
        if ev[0] == 'CC':
            lost[ev[1]] = 0.0
        elif ev[0] == 'ADV':
            from aioslsk.constants import DISCONNECT_TIMEOUT
            for c in lost:
                lost[c] += ev[1]
                if lost[c] > DISCONNECT_TIMEOUT and (o['parent'] == c or c in o['children']):
                    add('lost-connection-still-parent-or-child', f'connection {c} was closed by the peer {lost[c]} s ago (disconnect timeout '
                        f'{DISCONNECT_TIMEOUT} s) but is still the parent / a child', {'step': i, 'conn': c, 'parent': o['parent'], 'children': o['children']})
        # --- docs/source/DESIGN.rst: branch values on a connection other than the parent connection lead to a disconnect,
        #     never to a change of parent while the parent is still connected
        if prev['parent'] is not None and o['parent'] is not None and o['parent'] != prev['parent'] \
                and not (ev[0] in ('CC', 'RD')):
            add('parent-replaced-while-connected', 'another connection became the parent although the parent was not lost',
                {'step': i, 'old': prev['parent'], 'new': o['parent'], 'event': ev})
        # --- docs/source/DESIGN.rst: choosing a parent disconnects every other distributed connection except the children
        if o['parent'] is not None and prev['parent'] is None and not o['held'] and not o.get('kheld'):
            extra = [c for c in o['live'] if c != o['parent'] and c not in ch]
            if extra:
                add('candidates-left-connected-after-parent-chosen',
                    'a parent was chosen but other distributed connections (not children) stay connected', {'step': i, 'left': extra})
        # --- admission
        for c in ch:
            if c not in prev['children']:
                nm = next((p[1] for p in o['peers'] if p[0] == c), None)
                if not prev['accept']:
                    add('child-admitted-while-not-accepting', 'child accepted while acceptance is off', {'step': i, 'conn': c})
                if not len(prev['children']) < prev['max']:
                    add('child-admitted-above-max', f"child accepted with {len(prev['children'])} children, max {prev['max']}", {'step': i, 'conn': c})
                if nm in proposed_before:
                    add('potential-parent-admitted-as-child', 'a peer proposed as potential parent was taken as child', {'step': i, 'conn': c, 'name': nm})
                if not (ev[0] == 'PI' and ev[1] == c and not ev[3]):
                    add('child-gained-without-incoming-connection', 'child added by an unexpected event', {'step': i, 'event': ev})
                if not o['session']:
                    dirty.add(c)
        if len(ch) > max(o['max'], 0) and len(ch) > len(prev['children']):
            add('children-exceed-max', f"{len(ch)} children with max {o['max']} after a child was added", {'step': i, 'children': ch, 'max': o['max']})
        # --- bookkeeping for the classification of stale announcements
        pos = expected_position(o, ann)
        if pos != ppos and not o['session']:
            dirty.update(ch)
        if pos != ppos:
            slow_dirty.update(c for c in o.get('cheld', []) if c in ch and c in prev['children'])
        if ev[0] in ('BL', 'BR') and prev['parent'] == ev[1] and o['parent'] == ev[1] and pos != ppos and not srv_told_now:
            f11_pending = True
        elif srv_told_now:
            f11_pending = False
        # --- truthfulness (at quiescent points: nothing suspended)
        if sess and had_session and not o['held'] and not o.get('kheld'):
            want = (pos[0], pos[1], o['parent'] is None)
            got = (told_srv['L'], told_srv['R'], told_srv['S'])
            if got != want:
                add(F11_KEY if f11_pending else 'server-told-stale-position',
                    'branch level/root/parent search last told to the server differ from the position derived from the parent',
                    {'step': i, 'told': list(got), 'position': list(want)})
            for c in ch:
                if c not in o['live'] or c in o.get('cheld', []):
                    continue       # closed, or its initial branch values are still being written (slow peer)
                g = tuple(told.get(c, [None, None]))
                if g != (pos[0], pos[1]):
                    # F28: only the ROOT is stale (it was read before the suspended level write and sent after it)
                    f28 = c in slow_dirty and g[0] == pos[0] and g[1] != pos[1]
                    add(F27_KEY if c in dirty else F28_KEY if f28 else 'child-told-stale-position',
                        'branch level/root last told to a child differ from the position derived from the parent',
                        {'step': i, 'conn': c, 'told': list(g), 'position': list(pos)})
        ppos = pos
        prev = o
    return out


# ------------------------------------------------------------------------------------------
# model side
# ------------------------------------------------------------------------------------------

def ev_coq(ev):
    k = ev[0]
    if k == 'SI':
        return 'SessionInit'
    if k == 'SD':
        return 'SessionDestroyed'
    if k == 'SC':
        return 'ServerClosed'
    if k == 'PP':
        return f'PotentialParents {listlit(str(NID[n]) + "%nat" for n in ev[1])}'
    if k == 'PI':
        return f'PeerInit {ev[1]}%nat {NID[ev[2]]}%nat {blit(bool(ev[3]))}'
    if k == 'BL':
        return f'BranchLevel {ev[1]}%nat {ev[2]}%Z'
    if k == 'BR':
        return f'BranchRoot {ev[1]}%nat {NID[ev[2]]}%nat'
    if k == 'CC':
        return f'ConnClosed {ev[1]}%nat'
    if k == 'MS':
        return f'ParentMinSpeed {ev[1]}%Z'
    if k == 'SR':
        return f'ParentSpeedRatio {ev[1]}%Z'
    if k == 'OS':
        return f'OwnStats {ev[1]}%Z'
    if k == 'RD':
        return 'ResetDistributed'
    if k in ('CR', 'PF', 'KH', 'KR', 'SET', 'ADV', 'FL', 'CH'):
        return 'PotentialParents []'      # no-op of the model: nothing may change when a slow peer resumes
    if k == 'H':
        return 'Hold'
    if k == 'R':
        return 'Release'
    raise ValueError(ev)


def name_id(n):
    if n not in NID:
        raise ValueError(f'unknown name {n!r}')
    return NID[n]


def smsg_coq(m):
    k, v = m
    if k == 'L':
        return f'SLevel {v}%Z'
    if k == 'R':
        return f'SRoot {name_id(v)}%nat'
    if k == 'S':
        return f'SSearch {blit(v)}'
    if k == 'A':
        return f'SAccept {blit(v)}'
    raise ValueError(m)


def cmsg_coq(m, qid=None):
    if m[0] == 'L':
        return f'CLevel {m[1]}%Z'
    if m[0] == 'R':
        return f'CRoot {name_id(m[1])}%nat'
    if m[0] == 'Q':
        return f'CSearch {m[1]}%Z {name_id(m[2])}%nat {m[3]}%Z {qid(m[4])}%nat'
    raise ValueError(m)


def obs_coq(o, qid=None):
    peers = listlit(f'({c}%nat, {name_id(n)}%nat, {optlit(None if l is None else str(l) + "%Z")}, '
                    f'{optlit(None if r is None else str(name_id(r)) + "%nat")})' for c, n, l, r in o['peers'])
    conn = listlit(f'({c}%nat, {listlit(cmsg_coq(m, qid) for m in msgs)})' for c, msgs in sorted(o['conn'].items()))
    nl = lambda xs: listlit(f'{x}%nat' for x in xs)
    return (f'mkObs {optlit(None if o["parent"] is None else str(o["parent"]) + "%nat")} {nl(o["children"])} {peers} '
            f'{nl(name_id(n) for n in o["cands"])} {blit(o["accept"])} {o["max"]}%Z {nl(o["live"])} '
            f'{listlit(smsg_coq(m) for m in o["srv"])} {conn} {nl(o["closed"])}')


def coq_cases(cases):
    lines = ['From Coq Require Import ZArith List Bool.', 'From SlskGen Require Import DistGen.',
             'From Slsk Require Import C13.Model.', 'Import ListNotations.',
             'Definition cases : list (nat * nat * list event * list obs) := [']
    rows = []
    for idx, (events, obs) in enumerate(cases):
        K = max([e[1] for e in events if e[0] == 'PI'] + [0]) + 1
        rows.append(f' ({idx}%nat, {K}%nat, {listlit(ev_coq(e) for e in events)},\n  {listlit(obs_coq(o) for o in obs)})')
    lines.append(';\n'.join(rows))
    lines.append('].')
    lines.append('Definition bad := flat_map (fun c => let \'(i, K, evs, os) := c in let d := first_diff K init evs os 0 in '
                 'if Nat.eqb d (length evs) then [] else [(i, d)]) cases.')
    lines.append('Eval vm_compute in bad.')
    return '\n'.join(lines) + '\n'


def parse_pairs(s):
    import re
    return [(int(a), int(b)) for a, b in re.findall(r'\((\d+)(?:%nat)?\s*,\s*(\d+)(?:%nat)?\)', s)]


# ------------------------------------------------------------------------------------------
# known-finding witnesses and the check
# ------------------------------------------------------------------------------------------

WITNESS = {
    F10_KEY: [['SI'], ['PI', 1, 'alice', False], ['BL', 1, 2], ['BR', 1, 'root1']],
    F11_KEY: [['SI'], ['PI', 1, 'alice', True], ['BL', 1, 3], ['BR', 1, 'root1'], ['BL', 1, 5]],
    F27_KEY: [['SI'], ['PI', 1, 'alice', True], ['BL', 1, 3], ['BR', 1, 'root1'], ['PI', 2, 'bob', False], ['SD'], ['CC', 1], ['SI']],
}


def gen_slowclose(rng):
    lvl, root = rng.choice([1, 3, 7]), rng.choice(['root1', 'root2'])
    evs = [['SI']]
    nk = rng.choice([0, 1, 2])
    evs += [['PI', 10 + k, rng.choice(PEER_NAMES), False] for k in range(nk)]
    evs += [['PI', 1, 'alice', True], ['PI', 2, 'bob', True], ['KH', 2]]
    evs += [['BL', 1, lvl], ['BR', 1, root]] if rng.random() < 0.5 else [['BR', 1, root], ['BL', 1, lvl]]
    # the parent's own reader is inside the suspended handler: only other sources can deliver events now
    for _ in range(rng.choice([1, 1, 2])):
        r = rng.random()
        if r < 0.5:
            evs.append(['RD'])
        elif r < 0.7:
            evs.append(['PI', 20 + len(evs), rng.choice(PEER_NAMES), False])
        elif r < 0.85:
            evs.append(['OS', rng.choice([0, 5120, 51200])])
        else:
            evs.append(['CC', 10] if nk else ['PP', ['carol']])
    evs.append(['KR', 2])
    return evs


def violations(events, noisy=False):
    try:
        return monitor(events, run_impl(events, noisy))
    except Exception as e:     # noqa
        return [('impl-exception', f'{type(e).__name__}: {e}', {})]


def shrink_events(events, key, noisy=False):
    def fails(evs):
        if not valid(evs):
            return False
        return any(k == key for k, _, _ in violations(evs, noisy))
    if not fails(events):
        return events
    return shrink_list(events, fails, max_steps=120)


def valid(events):
    """static validity of a history for the rig (fresh ids, speakers known and not yet closed)"""
    known, dead = set(), set()
    for e in events:
        if e[0] == 'PI':
            if e[1] in known:
                return False
            known.add(e[1])
        elif e[0] in ('BL', 'BR', 'CC', 'CR', 'KH', 'KR', 'CH'):
            if e[1] not in known or e[1] in dead:
                return False
            if e[0] == 'CC':
                dead.add(e[1])
    return True


def run(run: Run):
    run.rule = ('adaptive random histories on the real DistributedNetwork/Network/PeerConnection stack over fake endpoints: login, then '
                '<= 10 (quick) events (after an optional directed prefix building a parent with 1..3 children) among potential-parent lists, incoming/requested distributed connections of 4 peer names, branch '
                'level/root announcements (level 0, repeats, from candidates / children / the parent), EOF of parent/child/candidate, '
                'ParentMinSpeed/ParentSpeedRatio/own stats at the limit boundaries, ResetDistributed, session loss/re-login, and Hold/Release '
                'of the server write side (handlers suspended at the server send of _set_parent/_unset_parent); distinct = distinct event list; '
                'non-trivial = a parent was chosen or a child admitted/rejected')
    run.trusted += ['the float expression of _calculate_max_children equals the exact integer quotient of the generated model only away from '
                    'exact multiples (harness draws only values where both agree; disagreeing grid points are counted in notes)',
                    'asyncio FIFO wake-up of drain waiters (A1): handlers suspended at a server send resume in the order they were suspended',
                    'connection ids / user names of the model are small naturals (injective renaming of Python objects / strings)']
    run.assumptions += ['branch levels < 2^32 - 1', 'Settings.debug.search_for_parent is True (default)',
                        'a reader blocked in a suspended handler delivers no further events of that connection (harness never generates them)']
    proved = run.prove(['tr_dist'])

    # known findings first: stored witnesses under the monitor
    for key, wit, _fixed in run.known_witnesses():
        evs = wit['events'] if isinstance(wit, dict) else wit
        run.case({'corpus': key})
        for k, what, detail in violations(evs):
            run.add_finding(Finding(k, what, {'events': evs, 'detail': detail}, observed=detail.get('told'), expected=detail.get('position')))

    n_hist = 260 if run.tier == 'quick' else 2600
    if not proved:
        n_hist = int(n_hist * 2.5)      # broken tie (translator / fingerprint / proof): longer directed search for a failing input
    cases = []
    styles = ['mixed', 'tree', 'hold', 'treehold', 'children', 'reparent', 'tree', 'f10', 'slots', 'ppfail', 'relogin', 'session', 'plain', 'treehold', 'mixed', 'nologin']
    for i in range(n_hist):
        style = styles[i % len(styles)]
        n = run.rng.randrange(3, 12 if run.tier == 'quick' else 16)
        try:
            noisy = (i % 3 == 2)
            events, obs = gen_and_run(run.rng, n, style, noisy=noisy)
        except Exception as e:   # noqa
            run.add_broken('check-crashed:gen', f'{type(e).__name__}: {e}')
            continue
        nontriv = any(o['parent'] is not None or o['children'] or o['closed'] for o in obs)
        run.case(events, nontrivial=nontriv, kind=style)
        run.count('events', len(events))
        for e in events:
            run.count('ev_' + e[0])
        cases.append((events, obs))
        for k, what, detail in monitor(events, obs):
            small = shrink_events(events, k, noisy)
            run.add_finding(Finding(k, what, {'events': small, 'noisy_listeners': noisy, 'detail': detail}, observed=detail.get('told'), expected=detail.get('position')))

    # L3 only (monitor, no model): a slow new child while the parent announces a new LEVEL.  The model has no notion of a
    # half-written _add_child with level != 0, so these histories are not part of the correspondence.
    for lvl, new, nkids in ((3, 5, 0), (1, 0, 1), (7, 2, 2)):
        evs = [['SI'], ['PI', 1, 'alice', True], ['BL', 1, lvl], ['BR', 1, 'root1']]
        evs += [['PI', 10 + k, 'bob', False] for k in range(nkids)]
        evs += [['PI', 2, 'carol', False, 'hold'], ['BL', 1, new], ['CR', 2]]
        run.case({'l3': evs}, kind='l3-slow-child')
        for k, what, detail in violations(evs):
            run.add_finding(Finding(k, what, {'events': evs, 'detail': detail}, observed=detail.get('told'), expected=detail.get('position')))

    # L3 only: choosing a parent while closing another candidate takes time (_set_parent suspended in the disconnects);
    # meanwhile the server resets the tree / children connect / stats arrive.  Outside the model (its closes are atomic).
    for k in range(6 if run.tier == 'quick' else 40):
        evs = gen_slowclose(run.rng)
        run.case({'l3': evs}, kind='l3-slow-close')
        for key, what, detail in violations(evs):
            run.add_finding(Finding(key, what, {'events': shrink_events(evs, key), 'detail': detail}, observed=detail.get('told'), expected=detail.get('position')))

    # L3 only: a stalled peer (the transport never confirms the close) and a child that does not read while many requests are queued
    from aioslsk.constants import DISCONNECT_TIMEOUT
    stalled = [
        [['SI'], ['PI', 1, 'alice', True], ['BL', 1, 3], ['BR', 1, 'root1'], ['PI', 2, 'bob', False], ['KH', 1], ['CC', 1], ['ADV', DISCONNECT_TIMEOUT + 1]],
        [['SI'], ['PI', 1, 'alice', True], ['BL', 1, 0], ['PI', 2, 'bob', False], ['PI', 3, 'carol', False], ['KH', 2], ['CC', 2], ['ADV', DISCONNECT_TIMEOUT + 1],
         ['KH', 1], ['CC', 1], ['ADV', DISCONNECT_TIMEOUT + 1]],
        [['SI'], ['PI', 2, 'bob', False], ['PI', 3, 'carol', False], ['CH', 2], ['FL', 120], ['PI', 1, 'alice', True], ['BL', 1, 3], ['BR', 1, 'root1'], ['CR', 2]],
        [['SI'], ['PI', 1, 'alice', True], ['BL', 1, 3], ['BR', 1, 'root1'], ['PI', 2, 'bob', False], ['CH', 2], ['FL', 130], ['BL', 1, 6], ['CC', 1], ['CR', 2]],
    ]
    for evs in stalled:
        run.case({'l3': evs}, kind='l3-stalled-peer')
        for key, what, detail in violations(evs):
            run.add_finding(Finding(key, what, {'events': evs, 'detail': detail}, observed=detail.get('told'), expected=detail.get('position')))

    # float agreement of the child limit on a fixed grid (measured, never a verdict by itself)
    dis = sum(1 for r in range(1, 120) for s in range(0, 60000, 512) if not float_ok(s, r))
    run.notes.append(f'_calculate_max_children: float result differs from the exact quotient on {dis} of {119 * 118} grid points (exact multiples); excluded from generation')

    # L2
    shard = 90
    texts = [coq_cases(cases[i:i + shard]) for i in range(0, len(cases), shard)]
    try:
        outs = coq_eval_many('c13', texts)
        nbad = 0
        for k, out in enumerate(outs):
            vals = parse_eval(out)
            if not vals:
                raise BrokenTie('correspondence:C13', f'no output from shard {k}')
            for idx, step in parse_pairs(vals[0]):
                nbad += 1
                events, obs = cases[k * shard + idx]
                if nbad <= 2:
                    run.add_broken('correspondence:C13 model(step) vs DistributedNetwork',
                                   f'history {events} diverges at event #{step} {events[step]}: impl={ {a: obs[step][a] for a in ("parent", "children", "peers", "cands", "accept", "max", "live", "srv", "conn", "closed")} }')
        run.cov['traces_validated_against_impl'] = len(cases) - nbad
    except BrokenTie as e:
        run.add_broken(e.obligation, e.detail)


def replay(rep) -> int:
    w = rep['witness']
    events = w['events'] if isinstance(w, dict) else w
    obs = run_impl(events, noisy=bool(isinstance(w, dict) and w.get('noisy_listeners')))
    for e, o in zip(events, obs):
        print(e, '->', {k: o[k] for k in ('parent', 'children', 'peers', 'accept', 'max', 'srv', 'conn', 'closed')})
    v = monitor(events, obs)
    for k, what, detail in v:
        print('VIOLATED:', k, what, detail)
    return 1 if v else 0
