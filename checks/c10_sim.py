"""C10/C11 helper: one real aioslsk ``Network`` (no client) on vlib.fakes under vlib.vloop, driven by
*actions*; records per connection the ConnectionStateChangedEvent stream, registry membership,
MessageReceivedEvent deliveries and the bytes the connection wrote.

Actions (JSON lists) of a C10 scenario -- one connection under test:

  kind 'out'    ['create']                       real Network._make_direct_connection(ticket,user,typ,ip,port,obf) as a task
  kind 'resp'   ['create']                       real Network._handle_connect_to_peer(ConnectToPeer.Response) as a task
  kind 'server' ['create']                       real Network.connect_server() as a task (repeatable after CLOSED)
                ['conn_ok', mode]                connect succeeds; mode of the init-message drain: ok | fail | hang
                ['conn_fail'] ['conn_timeout'] ['cancel']      (cancel = cancel the attempt task where it is)
                ['send_timeout']                 the hanging drain of the init message times out (10 s)
                ['start_reader']                 server only: start_reader_task (client does it after login)
  kind 'in'     ['accept']                       a peer connects to the listening port (real ListeningConnection.accept task)
                ['init', r]                      r: peerinit_P | peerinit_F | peerinit_D | pierce_known | pierce_unknown | other |
                                                    eof | partial | err | timeout | undecodable
  all           ['disc', reason]                 connection.disconnect(reason) as a task
                ['close_done']                   the hanging wait_closed() gives up (DISCONNECT_TIMEOUT)
                ['feed', x]                      x: msg | eof | partial | err | timeout | undecodable  (to the reader loop)
                ['send', mode]                   connection.send_message(bytes) as a task; mode ok | fail | hang
"""
from __future__ import annotations

import asyncio
import shutil
import struct
import tempfile
from pathlib import Path

from vlib import vloop, fakes

STATE_NAMES = ['UNINITIALIZED', 'CONNECTING', 'CONNECTED', 'CLOSING', 'CLOSED']

_settings_tmp = None


def settings_tmp() -> Path:
    global _settings_tmp
    if _settings_tmp is None:
        _settings_tmp = Path(tempfile.mkdtemp(prefix='verif_c10_'))
    return _settings_tmp


def cleanup_tmp():
    global _settings_tmp
    if _settings_tmp is not None:
        shutil.rmtree(_settings_tmp, ignore_errors=True)
        _settings_tmp = None


class Rec:
    """What was observed for one connection object."""

    def __init__(self, conn, idx):
        self.conn = conn
        self.idx = idx
        self.reported = []     # state names
        self.reasons = []
        self.delivered = 0
        self.delivered_after_closed = 0
        self.delivered_while_closing = 0
        self.written_at_closed = None
        self.closing_times = []   # virtual time of each CLOSING not yet followed by its CLOSED
        self.ep = None


class Sim:
    def __init__(self, obfuscate_pref=False, connect_mode='fallback', wc_hang=False, start=1000.0):
        from vlib.world import make_settings
        from aioslsk.network.network import Network, PeerConnectMode
        from aioslsk.events import EventBus, ConnectionStateChangedEvent, MessageReceivedEvent
        self.loop = vloop.new_loop(start)
        self.net = fakes.FakeNet().install()
        self.settings = make_settings(tmp=settings_tmp(), obfuscate=obfuscate_pref)
        self.settings.network.peer.connect_mode = PeerConnectMode(connect_mode)
        self.bus = EventBus()
        self.network = Network(self.settings, self.bus)
        self.wc_hang = wc_hang
        self.recs: dict[int, Rec] = {}
        self.order: list[Rec] = []
        self._l1 = self._on_state
        self._l2 = self._on_msg
        # the recorders come first: they see every event at the moment it is emitted (a listener behind a suspending or re-entrant
        # listener sees it later, possibly after the events that listener caused)
        self.bus.register(ConnectionStateChangedEvent, self._l1, priority=0)
        self.bus.register(MessageReceivedEvent, self._l2, priority=0)
        self.extra_listeners = []
        self.connect_futs = []      # (host, port, future) of pending open_connection calls
        self.net.connect_handler = self._on_connect
        self.tasks = []
        self.closed = False

    # ---- other users of the event bus (helpers the life cycle runs through: EventBus.emit awaits coroutine listeners in priority
    # order and swallows their exceptions)
    def add_listeners(self, mode):
        """mode: 'suspend' (coroutine listeners that yield to the loop), 'raise' (listeners that raise), 'reentrant' (a listener that
        calls disconnect() on the connection from inside its CONNECTED / CLOSING notification)"""
        from aioslsk.events import ConnectionStateChangedEvent, MessageReceivedEvent, PeerInitializedEvent
        from aioslsk.network.connection import CloseReason, DataConnection

        if mode == 'suspend':
            async def l(ev):
                await asyncio.sleep(0)
                await asyncio.sleep(0)
        elif mode == 'raise':
            def l(ev):
                raise RuntimeError('listener failed')
        elif mode == 'reentrant':
            async def l(ev):
                if isinstance(ev, ConnectionStateChangedEvent) and isinstance(ev.connection, DataConnection) \
                        and ev.state.name in ('CONNECTED', 'CLOSING') and not getattr(ev.connection, '_verif_kicked', False):
                    ev.connection._verif_kicked = ev.state.name == 'CONNECTED'
                    await ev.connection.disconnect(CloseReason.REQUESTED)
        else:
            raise ValueError(mode)
        self.extra_listeners.append(l)      # the bus keeps weak references only
        for ty, prio in ((ConnectionStateChangedEvent, 50), (MessageReceivedEvent, 50), (PeerInitializedEvent, 50)):
            self.bus.register(ty, l, priority=prio)
        # and one behind the recorders
        self.bus.register(ConnectionStateChangedEvent, l, priority=150)

    # ---- observation
    def rec(self, conn) -> Rec:
        r = self.recs.get(id(conn))
        if r is None:
            r = Rec(conn, len(self.order))
            self.recs[id(conn)] = r
            self.order.append(r)
        return r

    def _on_state(self, ev):
        r = self.rec(ev.connection)
        r.reported.append(ev.state.name)
        r.reasons.append(ev.close_reason.name)
        if ev.state.name == 'CLOSING':
            r.closing_times.append(self.loop.time())
        elif ev.state.name == 'CLOSED' and r.closing_times:
            r.closing_times.pop(0)
        if ev.state.name == 'CLOSED' and r.written_at_closed is None:
            ep = getattr(self, 'ep', None)
            r.written_at_closed = len(ep.written) if ep is not None and getattr(ev.connection, '_writer', None) is ep.writer else 0

    def _on_msg(self, ev):
        r = self.rec(ev.connection)
        r.delivered += 1
        if 'CLOSED' in r.reported:
            r.delivered_after_closed += 1
        if ev.connection.state.name in ('CLOSING', 'CLOSED'):
            r.delivered_while_closing += 1

    # ---- broker
    def _on_connect(self, host, port):
        fut = self.loop.create_future()
        self.connect_futs.append((host, port, fut))
        return fut

    def endpoint(self, host='10.0.0.9', port=40000, label=''):
        ep = fakes.Endpoint(self.net, peername=(host, port), sockname=('10.0.0.1', 50000), label=label)
        ep.wait_closed_hang = self.wc_hang
        self.patch_wait_closed(ep)
        return ep

    wc_instant = False

    def patch_wait_closed(self, ep):
        """wc_instant: the transport is already closed when wait_closed() is awaited (its close waiter is done):
        wait_closed() returns without yielding to the loop"""
        if self.wc_instant:
            async def instant():
                return None
            ep.writer.wait_closed = instant

    def resolve_connect(self, what, idx=0):
        """what: Endpoint | Exception. Resolves the idx-th pending connect."""
        host, port, fut = self.connect_futs.pop(idx)
        if not fut.done():
            fut.set_result(what)
        return host, port

    # ---- driving
    def spawn(self, coro):
        t = self.loop.create_task(coro)
        self.tasks.append(t)
        return t

    def settle(self, rounds=25):
        self.loop.run_ready(rounds)

    def advance(self, dt):
        self.loop.run_for(dt)
        self.settle()

    def in_registry(self, conn) -> bool:
        return any(c is conn for c in self.network.peer_connections)

    def close(self):
        if self.closed:
            return
        self.closed = True
        for t in self.tasks:
            if not t.done():
                t.cancel()
        try:
            self.loop.run_ready(5)
        except Exception:
            pass
        for t in self.tasks:
            if t.done() and not t.cancelled():
                t.exception()
        self.net.uninstall()
        vloop.close_loop(self.loop)


def task_outcome(t) -> str:
    if t is None:
        return 'none'
    if not t.done():
        return 'pending'
    if t.cancelled():
        return 'cancelled'
    e = t.exception()
    if e is None:
        return 'ok'
    return type(e).__name__


def frame(msg_bytes: bytes, obfuscated: bool) -> bytes:
    from aioslsk.protocol import obfuscation
    return obfuscation.encode(msg_bytes) if obfuscated else msg_bytes


# ---------------------------------------------------------------------------------------
# one connection under test
# ---------------------------------------------------------------------------------------

class ConnSim(Sim):
    """Scenario runner for C10: one connection of `kind`, clear or obfuscated."""

    def __init__(self, kind, obf=False, typ='P', wc_hang=False, start=1000.0, wc_instant=False):
        self.wc_instant = wc_instant and not wc_hang
        super().__init__(wc_hang=wc_hang, start=start)
        self.kind, self.obf, self.typ = kind, obf, typ
        self.attempt = None          # task of the connecting coroutine / accept task
        self.conn = None
        self.ep = None
        self.sends = []              # (task, bytes_before, ep)
        self.snaps = []
        self.known_ticket = 777
        self.pierce_future = None
        self.hung_drain = False
        self.held_q = False
        self.ticks = 0
        if kind == 'in':
            self.loop.run_coro(self.network.connect_listening_ports())
        # a listening connection reports its own state changes: drop them
        self.recs.clear()
        self.order.clear()

    # the record of the connection under test
    def cur(self):
        if self.conn is None:
            if self.kind == 'server':
                self.conn = self.network.server_connection
            else:
                for r in self.order:
                    self.conn = r.conn
                    break
                if self.conn is None and self.network.peer_connections:
                    self.conn = self.network.peer_connections[0]
        return self.conn

    # -- implementation-side gates (select inputs only; outcomes are never told to the model)
    def _attempt_pending(self):
        return self.attempt is not None and not self.attempt.done()

    def _reader_alive(self):
        c = self.cur()
        t = getattr(c, '_reader_task', None) if c is not None else None
        return t is not None and not t.done()

    def _closing_now(self):
        """a disconnect() call is between its CLOSING and its CLOSED"""
        c = self.cur()
        w = getattr(c, '_writer', None) if c is not None else None
        return (c is not None and c.state.name == 'CLOSING') or (w is not None and w.is_closing())

    def _quiet_for_timeout(self):
        """no other timer than the one the action is about may fire"""
        return not self._closing_now() and not self.connect_futs and not self.hung_drain

    def act(self, a):
        """Executes one action; returns the model events it stands for ([] = not applicable, skipped)."""
        evs = self._act(a)
        self.settle()
        self.snaps.append(self.snapshot())
        return evs

    def _act(self, a):
        from aioslsk.network.connection import CloseReason
        from aioslsk.protocol.messages import (PeerInit, PeerPierceFirewall, ConnectToPeer, PeerSharesRequest,
                                               GetUserStatus, DistributedBranchLevel)
        from aioslsk.network.network import PeerFuture
        from functools import partial
        k = a[0]
        n = self.network
        if k == 'create':
            if self._attempt_pending() or (self.kind != 'server' and self.attempt is not None):
                return []
            if self.kind == 'server' and (n.server_connection.state.name not in ('UNINITIALIZED', 'CLOSED')):
                return []
            if self.kind == 'out':
                self.attempt = self.spawn(n._make_direct_connection(5, 'peer', self.typ, '10.0.0.9', 40000, self.obf))
            elif self.kind == 'resp':
                msg = ConnectToPeer.Response(username='peer', typ=self.typ, ip='10.0.0.9', port=0 if self.obf else 40000,
                                             ticket=9, privileged=False, obfuscated_port_amount=1 if self.obf else 0,
                                             obfuscated_port=40001 if self.obf else 0)
                self.attempt = self.spawn(n._handle_connect_to_peer(msg))
            elif self.kind == 'server':
                self.attempt = self.spawn(n.connect_server())
            else:
                return []
            return ['Create', 'ConnectStart']
        if k == 'conn_ok':
            mode = a[1]
            if not self.connect_futs:
                return []
            self.ep = self.endpoint()
            if mode == 'fail':
                self.ep.drain_error = ConnectionResetError('reset')
            elif mode == 'hang':
                self.ep.drain_hang = True
            self.resolve_connect(self.ep)
            self.settle(3)
            self.ep.drain_error = None
            self.ep.drain_hang = False
            if self.kind == 'server':
                return ['ConnectOk']
            if mode == 'hang':
                self.hung_drain = True
                return ['ConnectOk']
            return ['ConnectOk', 'SendInit SOk' if mode == 'ok' else 'SendInit SFail']
        if k == 'conn_fail':
            if not self.connect_futs:
                return []
            # how open_connection fails: an OSError (refused / unreachable / DNS) or, for unusual peer data, something else:
            # OverflowError (advertised port > 65535), UnicodeError (host name that cannot be IDNA-encoded), ValueError
            kind = a[1] if len(a) > 1 else 'refused'
            exc = {'refused': ConnectionRefusedError('refused'), 'oserror': OSError(113, 'No route to host'),
                   'overflow': OverflowError('bind(): port must be 0-65535.'), 'unicode': UnicodeError('label empty or too long'),
                   'value': ValueError('invalid address')}[kind]
            self.resolve_connect(exc)
            return ['ConnectFail' if isinstance(exc, OSError) else 'ConnectFailOther']
        if k == 'conn_timeout':
            if not self.connect_futs or self._closing_now() or self.hung_drain or self.ticks >= 4:
                return []
            self.ticks += 1
            self.connect_futs.clear()
            self.advance(30.0 if self.kind == 'server' else 10.0)
            return ['ConnectTimeout']
        if k == 'send_timeout':
            if not self.hung_drain or self._closing_now() or self.connect_futs or self.ticks >= 4:
                return []
            self.ticks += 1
            self.hung_drain = False
            self.advance(10.0)
            return ['SendInit STimeout']
        if k == 'cancel':
            if not self._attempt_pending() or self.kind == 'in':
                return []
            self.attempt.cancel()
            self.connect_futs.clear()
            self.hung_drain = False
            return ['Cancel']
        if k == 'start_reader':
            if self.kind != 'server':
                return []
            c = self.cur()
            if self._reader_alive() or c.state.name != 'CONNECTED':
                return []
            self.loop.call_soon(c.start_reader_task)
            return ['StartReader']
        if k == 'accept':
            if self.kind != 'in' or self.attempt is not None:
                return []
            port = 60001 if self.obf else 60000
            self.ep = self.net.incoming(port)
            self.ep.wait_closed_hang = self.wc_hang
            self.patch_wait_closed(self.ep)
            self.attempt = self.net.accept_tasks[-1]
            self.tasks.append(self.attempt)
            return ['Accept']
        if k == 'init':
            r = a[1]
            ep = self.ep
            if self.kind != 'in' or not self._attempt_pending() or ep.client_closed or ep.remote_closed:
                return []
            if r.startswith('peerinit_'):
                ep.feed(frame(PeerInit.Request('peer', r[-1], 3).serialize(), self.obf))
                return [f'InitRead (IPeerInit T{r[-1]})']
            if r == 'pierce_known':
                fut = PeerFuture(self.known_ticket, 'peer', self.typ)
                fut.add_done_callback(partial(n._remove_connection_future, self.known_ticket))
                n._expected_connection_futures[self.known_ticket] = fut
                self.pierce_future = fut
                ep.feed(frame(PeerPierceFirewall.Request(self.known_ticket).serialize(), self.obf))
                return ['InitRead IPierceKnown']
            if r == 'pierce_unknown':
                ep.feed(frame(PeerPierceFirewall.Request(4242).serialize(), self.obf))
                return ['InitRead IPierceUnknown']
            if r == 'other':
                # "unexpected init message": the last branch of on_peer_accepted.  The init parser knows only
                # PeerInit/PeerPierceFirewall, so the branch is reached with a decoded foreign message object.
                c = self.cur()
                orig = c.deserialize_message
                c.deserialize_message = lambda data: PeerSharesRequest.Request()
                ep.feed(frame(struct.pack('<IB', 1, 99), self.obf))
                self.settle(5)
                c.deserialize_message = orig
                return ['InitRead IOther']
            if r == 'undecodable':
                ep.feed(frame(struct.pack('<IBI', 5, 1, 1000), self.obf))
                return ['InitRead IUndecodable']
            if r == 'timeout':
                if not self._quiet_for_timeout():
                    return []
                self._advance_to_read_deadline()
                return ['InitRead ITimeout']
            self._feed_fault(r)
            return ['InitRead ' + {'eof': 'IEof', 'partial': 'IPartial', 'err': 'IReadErr', 'lost': 'IReadErr'}[r]]
        if k == 'disc':
            c = self.cur()
            if c is None:
                return []
            self.spawn(c.disconnect(CloseReason[a[1]]))
            rn = {'UNKNOWN': 'RUnknown', 'CONNECT_FAILED': 'RConnectFailed', 'REQUESTED': 'RRequested', 'READ_ERROR': 'RReadError',
                  'WRITE_ERROR': 'RWriteError', 'TIMEOUT': 'RTimeoutR', 'EOF': 'REof'}[a[1]]
            return [f'Disconnect {rn}']
        if k == 'close_done':
            if not self._closing_now() or not self.wc_hang or self.ticks >= 4:
                return []
            self.ticks += 1
            pend = list(self.rec(self.cur()).closing_times)
            self.advance(5.0)
            # timer inputs: every wait_closed() started at least DISCONNECT_TIMEOUT ago gives up
            return ['CloseDone'] * max(1, sum(1 for t in pend if t + 5.0 <= self.loop.time()))
        if k == 'feed':
            x = a[1]
            ep = self.ep
            if ep is None or not self._reader_alive() or ep.client_closed or ep.remote_closed:
                return []
            if x == 'msg':
                ep.feed(frame(self._msg_bytes(), self._cobf()))
                return ['ReaderGets XMsg']
            if x == 'undecodable':
                ep.feed(frame(struct.pack('<II', 4, 0x7fffff01), self._cobf()))
                return ['ReaderGets XUndecodable']
            if x == 'timeout':
                if not self._quiet_for_timeout():
                    return []
                self._advance_to_read_deadline()
                return ['ReaderGets XTimeout']
            self._feed_fault(x)
            return ['ReaderGets ' + {'eof': 'XEof', 'partial': 'XPartial', 'err': 'XErr', 'lost': 'XErr'}[x]]
        if k == 'tail_disc':
            # the last bytes of a frame arrive in the same loop iteration as a local disconnect(), in either order
            order = a[1]
            ep = self.ep
            if ep is None or not self._reader_alive() or ep.client_closed or ep.remote_closed or self._closing_now():
                return []
            c = self.cur()
            m = frame(self._msg_bytes(), self._cobf())
            ep.feed(m[:5])
            self.settle()
            if not self._reader_alive():
                return []
            if order == 'feed_first':
                ep.feed(m[5:])
                self.spawn(c.disconnect(CloseReason.REQUESTED))
                return ['ReaderGets XMsg', 'Disconnect RRequested']
            self.spawn(c.disconnect(CloseReason.REQUESTED))
            ep.feed(m[5:])
            return ['Disconnect RRequested', 'ReaderGets XMsg']
        if k == 'qsend':
            c = self.cur()
            mode = a[1]
            if c is None or mode not in ('ok', 'fail', 'held'):
                return []
            ep = self.ep
            if mode == 'held' and (ep is None or ep.client_closed or self.held_q or not self._quiet_for_timeout()):
                return []
            if ep is not None:
                ep.drain_error = ConnectionResetError('reset') if mode == 'fail' else None
                # held: the bytes are written, the drain of the queued task stays pending (slow peer) until the connection
                # is closed -- which has to happen before the 10 s write timeout (the scenario's job)
                ep.drain_hang = (mode == 'held')
                if mode == 'held':
                    self.held_q = True

            async def q():
                return c.queue_message(b'\x04\x00\x00\x00\x01\x00\x00\x00')
            qt = self.spawn(q())
            self.settle(4)
            if ep is not None:
                ep.drain_error = None
                ep.drain_hang = False
            return ['QSend ' + {'ok': 'SOk', 'fail': 'SFail', 'held': 'SOk'}[mode]]
        if k == 'send':
            c = self.cur()
            mode = a[1]
            if c is None:
                return []
            ep = self.ep
            if mode == 'hang' and (not self._quiet_for_timeout() or self.ticks >= 4):
                return []
            if ep is not None:
                ep.drain_error = ConnectionResetError('reset') if mode == 'fail' else None
                ep.drain_hang = (mode == 'hang')
            before = len(ep.written) if ep is not None else 0
            t = self.spawn(c.send_message(b'\x04\x00\x00\x00\x01\x00\x00\x00'))
            self.settle(2)
            self.sends.append((t, before, ep))
            if ep is not None:
                ep.drain_error = None
                ep.drain_hang = False
            if mode == 'hang':
                self.ticks += 1
                self.advance(10.0)
            return ['Send ' + {'ok': 'SOk', 'fail': 'SFail', 'hang': 'STimeout'}[mode]]
        raise ValueError(a)

    def _msg_bytes(self):
        from aioslsk.protocol.messages import PeerSharesRequest, GetUserStatus, DistributedBranchLevel
        if self.kind == 'server':
            return GetUserStatus.Response('u', 1, False).serialize()
        if self._ctype() == 'D':
            return DistributedBranchLevel.Request(1).serialize()
        return PeerSharesRequest.Request().serialize()

    def _advance_to_read_deadline(self):
        """let exactly the read timeout expire (every send shifts it by read_timeout), nothing later"""
        c = self.cur()
        to = getattr(c, '_read_timeout_object', None)
        dl = getattr(to, 'deadline', None)
        now = self.loop.time()
        self.advance(max(dl - now, 0.0) if dl is not None else (60.0 if self.kind != 'server' else 600.0))

    def _ctype(self):
        c = self.cur()
        return getattr(c, 'connection_type', 'P')

    def _cobf(self):
        c = self.cur()
        return bool(getattr(c, 'obfuscated', False))

    def _feed_fault(self, x):
        ep = self.ep
        if ep is None:
            return
        if x == 'eof':
            ep.feed_eof()
        elif x == 'partial':
            ep.feed(b'\x09\x00')
            ep.feed_eof()
        elif x == 'err':
            if not ep.client_closed:
                ep.set_exception(ConnectionResetError('reset by peer'))
        elif x == 'lost':
            # the transport is lost (RST / broken pipe): asyncio's connection_lost(exc) closes the transport -- the writer is
            # already closing when the client notices -- and wakes the reader with the exception
            if not ep.client_closed:
                ep.writer._closing = True
                ep.set_exception(ConnectionResetError('connection lost'))
        else:
            raise ValueError(x)

    def snapshot(self):
        c = self.cur()
        if c is None:
            return ['-', False, 0, 0]
        r = self.rec(c)
        return [c.state.name, self.in_registry(c), len(r.reported), r.delivered]

    def result(self):
        c = self.cur()
        r = self.rec(c) if c is not None else None
        sends = []
        for t, before, ep in self.sends:
            sends.append(task_outcome(t))
        out = {
            'reported': list(r.reported) if r else [],
            'reasons': list(r.reasons) if r else [],
            'snaps': self.snaps,
            'state': c.state.name if c is not None else '-',
            'in_registry': self.in_registry(c) if c is not None else False,
            'writer_open': bool(c is not None and getattr(c, '_writer', None) is not None and not c._writer.is_closing()),
            'reader_alive': bool(c is not None and getattr(c, '_reader_task', None) is not None and not c._reader_task.done()),
            'pcs': getattr(getattr(c, 'connection_state', None), 'name', '-'),
            'delivered': r.delivered if r else 0,
            'delivered_after_closed': r.delivered_after_closed if r else 0,
            'delivered_while_closing': r.delivered_while_closing if r else 0,
            'attempt': task_outcome(self.attempt),
            'sends': sends,
            'written': len(self.ep.written) if self.ep is not None else 0,
            'written_at_closed': r.written_at_closed if r else None,
            'close_pending': self._closing_now(),
            'in_open_connection': bool(self.connect_futs) and self._attempt_pending(),
            'nconns_seen': len(self.order),
            'registry_size': len(self.network.peer_connections),
            'unhandled': len(self.loop.unhandled),
        }
        return out


def run_twins(sc):
    """Two (or three) peer connections with the SAME identity (host, port, user, type, direction) registered at the same time; they are
    closed in the given order.  After every close: each connection object is in Network.peer_connections iff it is open.
    sc = {'how': 'out'|'in', 'typ', 'n', 'close_order': [indices], 'via': 'disc'|'eof'}"""
    from aioslsk.network.connection import CloseReason
    from aioslsk.protocol.messages import PeerInit
    sim = Sim()
    try:
        n = sim.network
        eps, conns = [], []
        if sc['how'] == 'out':
            for k in range(sc['n']):
                sim.spawn(n._make_direct_connection(10 + k, 'peer', sc['typ'], '10.0.0.9', 40000, False))
            sim.settle()
            for k in range(sc['n']):
                ep = sim.endpoint()
                eps.append(ep)
                sim.resolve_connect(ep)
            sim.settle()
        else:
            sim.loop.run_coro(n.connect_listening_ports())
            sim.recs.clear()
            sim.order.clear()
            for k in range(sc['n']):
                ep = sim.net.incoming(60000, peername=('10.0.0.7', 41000))
                sim.tasks.append(sim.net.accept_tasks[-1])
                eps.append(ep)
                ep.feed(PeerInit.Request('peer', sc['typ'], 3).serialize())
            sim.settle()
        # the connection objects in creation order (= registration order)
        for ep in eps:
            c = [r.conn for r in sim.order if getattr(r.conn, '_writer', None) is ep.writer]
            conns.append(c[0] if c else None)
        steps = []

        def snap():
            out = []
            for c in conns:
                if c is None:
                    out.append(None)
                    continue
                w = getattr(c, '_writer', None)
                out.append({'state': c.state.name, 'registered': sim.in_registry(c), 'open': w is not None and not w.is_closing()})
            return out
        steps.append(snap())
        for i in sc['close_order']:
            if conns[i] is None:
                continue
            if sc['via'] == 'eof':
                eps[i].feed_eof()
            else:
                sim.spawn(conns[i].disconnect(CloseReason.REQUESTED))
            sim.settle()
            steps.append(snap())
        return {'steps': steps, 'registry_size': len(n.peer_connections), 'reported': [list(sim.rec(c).reported) if c is not None else None for c in conns]}
    finally:
        sim.close()


class logging_enabled:
    """Run with the library's logging enabled down to DEBUG into a null handler (the checks normally run with logging disabled,
    so the formatting of log records -- log_utils.ConnectionLoggerAdapter -- would never execute)"""

    def __init__(self, on=True):
        self.on = on

    def __enter__(self):
        import logging
        if not self.on:
            return self
        self.lg = logging.getLogger('aioslsk')
        self.saved = (logging.root.manager.disable, self.lg.level, self.lg.propagate, list(self.lg.handlers))
        logging.disable(logging.NOTSET)

        class Fmt(logging.Handler):
            def emit(self, record):
                record.getMessage()        # format the record like a real handler does; errors propagate like with raiseExceptions
        self.h = Fmt()
        self.lg.handlers = [self.h]
        self.lg.setLevel(logging.DEBUG)
        self.lg.propagate = False
        return self

    def __exit__(self, *exc):
        import logging
        if self.on:
            logging.disable(self.saved[0])
            self.lg.setLevel(self.saved[1])
            self.lg.propagate = self.saved[2]
            self.lg.handlers = self.saved[3]
        return False


def run_scenario(sc):
    with logging_enabled(bool(sc.get('logging'))):
        return _run_scenario(sc)


def _run_scenario(sc):
    """sc = {'kind','obf','typ','wch','acts'} -> result dict (implementation side) incl. 'events': per action
    the model events it stands for."""
    sim = ConnSim(sc['kind'], obf=sc.get('obf', False), typ=sc.get('typ', 'P'), wc_hang=sc.get('wch', False), wc_instant=sc.get('wci', False))
    try:
        evs = []
        for n_act, a in enumerate(sc['acts']):
            if sc.get('listeners') and n_act == (1 if sc.get('listeners_late') else 0):
                sim.add_listeners(sc['listeners'])      # registered before the first action, or late (after it)
            evs.append(sim.act(a))
        r = sim.result()
        r['events'] = evs
        # grace period (monitor only, after the compared snapshot): every disconnect() in flight must be over after
        # DISCONNECT_TIMEOUT; a connection still CLOSING then never reaches CLOSED
        sim.advance(6.0)
        c = sim.cur()
        r['after_grace'] = {'state': c.state.name if c is not None else '-', 'in_registry': sim.in_registry(c) if c is not None else False,
                            'reported': list(sim.rec(c).reported) if c is not None else []}
        return r
    finally:
        sim.close()
