"""C20 — bandwidth limits: never exceeded, never stall.

L1  theories/C20/Props.v over gen/RateGen.v (regenerated from network/rate_limiter.py by tr_rate)
L2  correspondence: random poll / limit-change histories on the real limiter classes with a
    dyadic fake clock, compared op by op (grant, bucket) with the model's `mrun` (vm_compute)
L3  monitor = the property text: in every window without limit change, granted bytes
    <= L*T + L (in ticks arithmetic, exact); run on every trace of L2 and on real
    send_file/receive_file runs over fake transports under the virtual-time loop.
"""
from __future__ import annotations

import types

from vlib.common import Run, Finding, BrokenTie, coq_eval_many, parse_eval, parse_coq_list, zlit, listlit

TICK = 1 << 20

GAPS = [0, 0, 0, 1, 7, 500, 1048, 10484, 10485, 10486, 20000, 104857, 524288, 1048575, 1048576, 1048577,
        3 * 1048576 + 5, 60 * 1048576, 86400 * 1048576]
LIMITS = [1, 1, 2, 3, 5, 10, 50, 100, 1000, 9999, 10000]


class _Sleep:
    def __await__(self):
        yield 'sleep'


class Clock:
    def __init__(self, ticks=0):
        self.ticks = ticks

    def monotonic(self):
        return self.ticks / TICK


def install(clock):
    import aioslsk.network.rate_limiter as rl
    import time as _time
    fake_time = types.SimpleNamespace(monotonic=clock.monotonic, time=clock.monotonic)
    fake_asyncio = types.SimpleNamespace(sleep=lambda d: _Sleep())
    saved = (rl.time, rl.asyncio)
    rl.time, rl.asyncio = fake_time, fake_asyncio

    def undo():
        rl.time, rl.asyncio = saved
    return rl, undo


def poll(limiter):
    """One iteration of take_tokens on the real object: grant, or 0 when it went to sleep."""
    coro = limiter.take_tokens()
    try:
        r = coro.send(None)
        assert r == 'sleep', r
        coro.close()
        return 0
    except StopIteration as e:
        return e.value


_NET = {}


def _network():
    """A real Network object (never connected) whose limiter slots and set_*_speed_limit are used."""
    from aioslsk.network.network import Network
    from aioslsk.events import EventBus
    from vlib.world import make_settings
    import tempfile
    import shutil
    tmp = tempfile.mkdtemp(prefix='verif_c20_')
    try:
        return Network(make_settings(tmp=tmp), EventBus())
    finally:
        shutil.rmtree(tmp, ignore_errors=True)


def run_impl(ops, direction='upload', nconn=3):
    """ops: list of ('T', now_ticks) | ('L', kbps). 'L' goes through the real
    Network.set_<direction>_speed_limit; polls are made by real file PeerConnection objects
    (finalised by Network._finalize_peer_connection, round-robin; a new one joins after each
    limit change) through their own <direction>_rate_limiter attribute.
    Returns list of (grant, bucket, limit_bps, full_before, stale_before) per op."""
    from aioslsk.network.connection import PeerConnection, PeerConnectionType
    clock = Clock()
    rl, undo = install(clock)
    try:
        net = _network()
        attr = f'{direction}_rate_limiter'
        setter = getattr(net, f'set_{direction}_speed_limit')
        setter(0)
        conns = []

        def add_conn():
            c = PeerConnection('10.0.0.5', 1234, net, connection_type=PeerConnectionType.FILE)
            net.peer_connections.append(c)
            net._finalize_peer_connection(c)
            conns.append(c)
        for _ in range(nconn):
            add_conn()
        out = []
        k = 0
        replaced = []     # limiter objects replaced by a limit change (newest first), as in Model.nstep
        for op in ops:
            kind, v = op[0], op[1]
            if kind == 'S':
                # an in-flight waiter polls the replaced limiter object number v at time op[2]
                clock.ticks = op[2]
                if v < len(replaced):
                    old = replaced[v]
                    g = poll(old)
                    out.append((g, old.bucket, old.limit_bps, False, False))
                else:
                    out.append((0, 0, 0, False, False))
                continue
            if kind == 'T':
                clock.ticks = v
                k += 1
                cur = getattr(conns[k % len(conns)], attr)
                full = isinstance(cur, rl.LimitedRateLimiter) and cur.bucket == cur.limit_bps
                stale = full and cur.last_refill * TICK < v
                g = poll(cur)
                out.append((g, cur.bucket, cur.limit_bps, full, stale))
            else:
                old = getattr(net, f'_{direction}_rate_limiter')
                if isinstance(old, rl.LimitedRateLimiter):
                    replaced.insert(0, old)
                setter(v)
                if len(conns) < 4:
                    add_conn()
                cur = getattr(net, f'_{direction}_rate_limiter')
                out.append((0, cur.bucket, cur.limit_bps, False, False))
        return out
    finally:
        undo()


def gen_ops(rng, n):
    ops = []
    t = rng.choice([0, 0, 5, 1048576 * 1000])
    ops.append(('L', rng.choice(LIMITS)))
    style = rng.choice(['burst', 'mixed', 'steady', 'idle', 'lower'])
    if style == 'lower':
        # fill a large bucket, lower the limit, stay idle, then burst (finding F25's shape)
        hi = rng.choice([10, 100, 1000])
        lo = rng.choice([1, 2, 5])
        ops[0] = ('L', hi)
        t += rng.choice([1048576, 5 * 1048576])
        ops.append(('T', t))
        ops.append(('L', lo))
        t += rng.choice([0, 1, 10485, 1048576, 7 * 1048576])
        for _ in range(lo * 8 + rng.randrange(0, 6)):
            t += rng.choice([0, 0, 0, 1, 10485])
            ops.append(('T', t))
        return ops
    for _ in range(n):
        r = rng.random()
        if r < 0.07:
            ops.append(('L', rng.choice(LIMITS + [0, 0])))
        elif r < 0.14 and any(o[0] == 'L' for o in ops[1:]):
            t += rng.choice([0, 1, 10485, 10485, 1048576])
            ops.append(('S', rng.randrange(0, 3), t))
        else:
            if style == 'burst':
                gap = rng.choice([0, 0, 0, 0, 1, 10485, 3 * 1048576 + 5])
            elif style == 'steady':
                gap = rng.choice([10485, 10486, 10485, 20000])
            elif style == 'idle':
                gap = rng.choice([0, 0, 60 * 1048576, 1048576, 0])
            else:
                gap = rng.choice(GAPS) if rng.random() < 0.7 else rng.randrange(0, 3 * 1048576)
            t += gap
            ops.append(('T', t))
    return ops


def monitor(ops, obs):
    """Property text on one trace. Returns (worst_excess_ticks, window, explained_by_stale_full)
    for the worst window without a limit change; excess > 0 means the strict bound fails.
    Only windows that start and end at a grant can be worst, so only grant events are paired."""
    worst = None
    seg = []
    segs = []
    for op, o in zip(ops, obs):
        kind, v = op[0], (op[2] if op[0] == 'S' else op[1])
        if kind == 'S':
            # polls of a replaced limiter object are generated as an over-approximation of in-flight
            # waiters (compared with the model only); real in-flight waiters are measured in stack_run
            continue
        if kind == 'L':
            if seg:
                segs.append(seg)
            seg = []
        elif o[0] > 0 or o[4]:
            seg.append((v, o[0], o[2], o[4]))
    if seg:
        segs.append(seg)
    for seg in segs:
        Lbps = seg[0][2]
        if Lbps == 0:
            continue
        n = len(seg)
        pre = [0]
        stale_pre = [0]
        for t, g, _, st in seg:
            pre.append(pre[-1] + g)
            stale_pre.append(stale_pre[-1] + (1 if st else 0))
        for i in range(n):
            if i > 0 and seg[i - 1][0] == seg[i][0]:
                continue
            t0 = seg[i][0]
            for j in range(i, n):
                if j + 1 < n and seg[j + 1][0] == seg[j][0]:
                    continue
                T = seg[j][0] - t0
                granted = pre[j + 1] - pre[i]
                excess = granted * TICK - (Lbps * T + Lbps * TICK)
                if excess > 0 and (worst is None or excess > worst[0]):
                    stale = stale_pre[j + 1] - stale_pre[i] > 0
                    worst = (excess, {'limit_bps': Lbps, 't0': t0, 'T': T, 'granted': granted,
                                      'bound': (Lbps * T) // TICK + Lbps}, stale)
    return worst


def steady_ops(kbps, gap, seconds, t0=0):
    ops = [('L', kbps)]
    t = t0
    for _ in range(int(seconds * TICK // max(gap, 1))):
        t += gap
        ops.append(('T', t))
    return ops


def coq_cases(cases):
    lines = ['From Coq Require Import ZArith List Bool.', 'From SlskGen Require Import RateGen.',
             'From Slsk Require Import C20.Model.', 'Import ListNotations.', 'Open Scope Z_scope.',
             'Definition eqp (a b : Z * Z) := andb (Z.eqb (fst a) (fst b)) (Z.eqb (snd a) (snd b)).',
             'Fixpoint eql (a b : list (Z*Z)) := match a, b with [] , [] => true | x::a, y::b => andb (eqp x y) (eql a b) | _, _ => false end.',
             'Definition cases : list (nat * list nop * list (Z*Z)) := [']
    rows = []
    for idx, (ops, obs) in enumerate(cases):
        o = listlit((f'NTake {op[1]}' if op[0] == 'T' else (f'NSet {op[1]}' if op[0] == 'L' else f'NTakeStale {op[1]}%nat {op[2]}')) for op in ops)
        e = listlit(f'({g},{b})' for g, b, *_ in obs)
        rows.append(f' ({idx}%nat, {o}, {e})')
    lines.append(';\n'.join(rows))
    lines.append('].')
    lines.append('Definition bad := map (fun c => fst (fst c)) (filter (fun c => negb (eql (nobs (mkNet None []) (snd (fst c))) (snd c))) cases).')
    lines.append('Eval vm_compute in bad.')
    return '\n'.join(lines) + '\n'


def stack_run(rng, kbps, nconn, size, upload=True, changes=(), start=None):
    """Real PeerConnection.send_file / receive_file on connections of a real Network sharing its
    limiter slot, under virtual time; `changes` = [(delay_s, new_kbps)] applied through the real
    Network.set_*_speed_limit while transfers are running (waiters may be in flight).
    Returns (deliveries [(time_ticks, nbytes)], segments [(start_ticks, limit_bps)])."""
    import asyncio
    from vlib import vloop
    import aioslsk.network.rate_limiter as rl
    from aioslsk.network.connection import PeerConnection, PeerConnectionType
    loop = vloop.new_loop(start=float(rng.choice([0, 5, 1000]) if start is None else start))
    undo = vloop.patch_time(loop, [rl])
    deliveries = []
    segments = []
    try:
        net = _network()
        direction = 'upload' if upload else 'download'
        setter = getattr(net, f'set_{direction}_speed_limit')
        setter(kbps)
        segments.append((round(loop.time() * TICK), kbps * 1024))

        class FH:
            def __init__(self, n):
                self.left = n

            async def read(self, n):
                k = min(n, self.left)
                self.left -= k
                return b'x' * k

            async def write(self, data):
                pass

        conns = []
        from vlib import fakes
        from aioslsk.network.connection import ConnectionState
        fnet = fakes.FakeNet()
        for i in range(nconn):
            c = PeerConnection('10.0.0.5', 1000 + i, net, connection_type=PeerConnectionType.FILE)
            net.peer_connections.append(c)
            net._finalize_peer_connection(c)
            # the REAL send_data / receive_data run on a fake transport: what is counted is what the
            # connection actually writes to / reads from its stream
            ep = fakes.Endpoint(fnet, label=f'file{i}')
            c._reader, c._writer = ep.reader, ep.writer
            c.state = ConnectionState.CONNECTED
            if upload:
                def on_data(data, ep=ep):
                    deliveries.append((round(loop.time() * TICK), len(data)))
                ep.on_data = on_data
            else:
                ep.feed(b'y' * size)
                ep.feed_eof()
                orig_read = ep.reader.read

                async def read(n=-1, orig_read=orig_read):
                    data = await orig_read(n)
                    if data:
                        deliveries.append((round(loop.time() * TICK), len(data)))
                    await asyncio.sleep(0)
                    return data
                ep.reader.read = read
            conns.append(c)

        async def changer():
            for delay, k in changes:
                await asyncio.sleep(delay)
                setter(k)
                segments.append((round(loop.time() * TICK), k * 1024))

        async def main():
            ch = asyncio.ensure_future(changer())
            if upload:
                await asyncio.gather(*[c.send_file(FH(size)) for c in conns])
            else:
                await asyncio.gather(*[c.receive_file(FH(0), size) for c in conns])
            ch.cancel()
        loop.run_coro(main(), timeout_virtual=1e6)
        return deliveries, segments
    finally:
        undo()
        vloop.close_loop(loop)


def stack_monitor(deliv, segments):
    """Worst excess (ticks*bytes) over windows lying inside one limit segment (limit > 0)."""
    worst = 0
    bounds = segments + [(None, None)]
    for (start, Lbps), (end, _) in zip(bounds, bounds[1:]):
        if not Lbps:
            continue
        seg = [(t, n) for t, n in deliv if t >= start and (end is None or t < end)]
        pre = [0]
        for _, n in seg:
            pre.append(pre[-1] + n)
        m = len(seg)
        for i in range(m):
            for j in range(i, m):
                T = seg[j][0] - seg[i][0]
                excess = (pre[j + 1] - pre[i]) * TICK - (Lbps * T + Lbps * TICK)
                worst = max(worst, excess)
    return worst


def stack_monitor_across(deliv, segments, nconn, slack_grants=None):
    """Windows that span limit changes: bytes <= integral of the limit over the window + one second's burst
    of the largest limit in the window (+ one 128 B grant for F25 and one per connection that may have been
    suspended on a replaced limiter).  Windows touching an unlimited segment are skipped.
    Returns the worst excess in byte*ticks."""
    if len(segments) < 2:
        return (-1, -1, 0)
    bounds = [(st, L, (segments[i + 1][0] if i + 1 < len(segments) else None)) for i, (st, L) in enumerate(segments)]
    pre = [0]
    for _, n in deliv:
        pre.append(pre[-1] + n)

    def integral(t0, t1):
        tot, mx = 0, 0
        for st, L, en in bounds:
            lo = max(st, t0)
            hi = t1 if en is None else min(en, t1)
            if hi < lo:
                continue
            if L == 0:
                return None, None
            tot += L * (hi - lo)
            mx = max(mx, L)
        return tot, mx
    worst = None
    slack = (1 + nconn) if slack_grants is None else slack_grants
    m = len(deliv)
    for i in range(m):
        if i and deliv[i - 1][0] == deliv[i][0]:
            continue
        for j in range(i, m):
            if j + 1 < m and deliv[j + 1][0] == deliv[j][0]:
                continue
            tot, mx = integral(deliv[i][0], deliv[j][0])
            if tot is None or deliv[i][0] < segments[0][0]:
                continue
            excess = (pre[j + 1] - pre[i]) * TICK - (tot + mx * TICK + 128 * slack * TICK)
            k = sum(1 for st, _ in segments[1:] if deliv[i][0] <= st <= deliv[j][0])
            # slack allowed for the known finding F31: one grant per connection per change in the window
            over_known = excess - 128 * k * (nconn + 1) * TICK
            if worst is None:
                worst = [excess, over_known, k]
            else:
                if excess > worst[0]:
                    worst[0], worst[2] = excess, k
                worst[1] = max(worst[1], over_known)
    return tuple(worst) if worst is not None else (-1, -1, 0)


F25_KEY = 'F25-stale-timestamp-after-full-bucket'
F31_KEY = 'F31-suspended-waiters-drain-the-replaced-limiter'
F31_WHAT = ('a connection suspended inside take_tokens keeps polling the limiter object that a limit change replaced, while copy_tokens also gave '
            'its tokens to the new limiter: every limit change lets each suspended connection move one extra grant (128 B), so windows that '
            'span k changes exceed limit*T + burst by up to 128 B x connections x k')


def run(run: Run):
    run.rule = ('histories of polls (take_tokens iterations, any connection) and limit changes on the real '
                'RateLimiter classes with a dyadic fake clock; gaps from a boundary pool (0, 1 tick, just below/at/above '
                'INTERVAL, 1 s +-1 tick, minutes, a day) or uniform; distinct = distinct op list; non-trivial = at least one '
                'grant and one refusal or limit change')
    run.trusted += ['float arithmetic of refill equals the integer tick model only on dyadic clock readings (multiples of 2^-20 s below 2^32 s)',
                    'asyncio.sleep / fairness between waiters not modelled (bounded wait is per poll count)']
    run.assumptions += ['clock is monotone (time.monotonic)', 'limits are >= 1 KiB/s or 0 (unlimited)']
    proved = run.prove(['tr_rate'])

    # listed findings are replayed first, so that the KNOWN-FINDING line does not depend on the seed
    for key, wit, _fixed in run.known_witnesses():
        if 'stack' in wit:
            d = wit['stack']
            seq = [tuple(c) for c in d['changes']]
            deliv, segments = stack_run(run.rng, d['kbps'], d['connections'], d['size'], d['upload'], seq, start=d.get('start'))
            ex, over_known, k = stack_monitor_across(deliv, segments, d['connections'], 1)
            run.case({'corpus': key})
            if over_known > 0:
                run.add_finding(Finding('stack-burst-across-limit-changes', f'bytes moved across {k} limit change(s) exceed the integral of the limit plus one burst by {ex // TICK} B', d))
            elif ex > 0:
                run.add_finding(Finding(F31_KEY, F31_WHAT, dict(d, excess_bytes=ex // TICK, changes_in_window=k)))
            continue
        ops = [tuple(o) for o in wit['ops']]
        w = monitor(ops, run_impl(ops))
        run.case({'corpus': key})
        if w and w[2] and w[0] <= 128 * TICK:
            run.add_finding(Finding(F25_KEY, 'a poll that finds the bucket full leaves last_refill stale; the next refill credits '
                                    'the idle time again: window bound exceeded by <= 128 B', {'ops': ops, 'window': w[1]},
                                    observed=w[1]['granted'], expected=f"<= {w[1]['bound']}"))
        elif w:
            run.add_finding(Finding('window-bound-exceeded', f'granted {w[1]["granted"]} B in a window allowing {w[1]["bound"]} B',
                                    {'ops': ops, 'window': w[1]}))

    ncases = 600 if run.tier == 'quick' else 6000
    maxlen = 60 if run.tier == 'quick' else 120
    cases = []
    worst_new = None
    for i in range(ncases):
        ops = gen_ops(run.rng, run.rng.randrange(1, maxlen))
        try:
            direction = 'upload' if i % 2 else 'download'
            obs = run_impl(ops, direction, 1 + i % 4)
        except Exception as e:  # implementation crashed: a finding in itself
            run.add_finding(Finding('impl-exception', f'limiter raised {type(e).__name__}: {e}', ops[:50]))
            continue
        grants = sum(1 for o in obs if o[0] > 0)
        refus = sum(1 for o_, o in zip(ops, obs) if o_[0] == 'T' and o[0] == 0)
        run.case(ops, nontrivial=grants > 0 and (refus > 0 or any(o_[0] == 'L' for o_ in ops[1:])),
                 kind=f'len<{(len(ops)//20+1)*20}')
        run.count('polls', sum(1 for o_ in ops if o_[0] == 'T'))
        run.count('limit_changes', sum(1 for o_ in ops if o_[0] == 'L'))
        cases.append((ops, obs))
        # invariants of the property text on the implementation
        run.count('stale_polls', sum(1 for o_ in ops if o_[0] == 'S'))
        for op_, o in zip(ops, obs):
            k = op_[0]
            if o[2] and not (0 <= o[1] <= o[2]):
                run.add_finding(Finding('bucket-out-of-range', f'bucket {o[1]} outside [0, {o[2]}]', ops))
            if k == 'T' and o[2] == 0 and o[0] <= 0:
                run.add_finding(Finding('unlimited-throttled', 'unlimited limiter refused a poll', ops))
        w = monitor(ops, obs)
        if w:
            excess, window, stale = w
            if stale and excess <= 128 * TICK:
                run.add_finding(Finding(F25_KEY, 'a poll that finds the bucket full leaves last_refill stale; the next refill credits '
                                        'the idle time again: window bound exceeded by <= 128 B',
                                        {'ops': shrink_ops(ops, lambda o: _is_f25(o)), 'window': window}, observed=window['granted'],
                                        expected=f"<= {window['bound']}"))
            else:
                if worst_new is None or excess > worst_new[0]:
                    worst_new = (excess, ops, window)
    if worst_new:
        excess, ops, window = worst_new
        small = shrink_ops(ops, lambda o: _exceeds(o, 128 * TICK))
        run.add_finding(Finding('window-bound-exceeded', f'granted {window["granted"]} B in a window allowing {window["bound"]} B',
                                {'ops': small, 'window': window}, observed=window['granted'], expected=f'<= {window["bound"]}'))

    # long steady polling under low limits (accumulated rounding shows only over many refills)
    steady = [(1, 2621, 12), (1, 1000, 6), (2, 5000, 12), (1, 10485, 30), (5, 2621, 6), (3, 333, 3)]
    if run.tier == 'thorough' or not proved:
        steady += [(k, g, 20) for k in (1, 2, 3, 7, 10) for g in (500, 1311, 2621, 7000, 10485, 20000)]
    for kbps, gap, secs in steady:
        ops = steady_ops(kbps, gap, secs)
        obs = run_impl(ops, 'upload', 4)
        run.case({'steady': [kbps, gap, secs]}, kind='steady')
        w = monitor(ops, obs)
        if w and not (w[2] and w[0] <= 128 * TICK):
            run.add_finding(Finding('window-bound-exceeded-steady', f'{w[1]["granted"]} B granted in a window allowing {w[1]["bound"]} B '
                                    f'({kbps} KiB/s, polls every {gap} ticks of 2^-20 s)',
                                    {'kbps': kbps, 'gap_ticks': gap, 'seconds': secs, 'window': w[1]},
                                    observed=w[1]['granted'], expected=f'<= {w[1]["bound"]}'))

    # bounded wait on the implementation: 18 polls INTERVAL apart always yield a grant
    import aioslsk.network.rate_limiter as rl_mod
    iv = int(rl_mod.INTERVAL * TICK)
    for kbps in LIMITS:
        for b0 in (0, 1, 64, 127):
            clock = Clock(12345)
            rl, undo = install(clock)
            try:
                lim = rl.RateLimiter.create_limiter(kbps)
                lim.bucket = b0
                lim.last_refill = clock.monotonic()
                got = 0
                polls = 0
                while polls < 18 and not got:
                    got = poll(lim)
                    polls += 1
                    clock.ticks += iv
                run.case({'wait': [kbps, b0, polls]}, kind='bounded-wait')
                if not got:
                    run.add_finding(Finding('starvation', f'no grant within 18 polls at {kbps} KiB/s from bucket {b0}',
                                            {'kbps': kbps, 'bucket': b0, 'interval_ticks': iv}))
            finally:
                undo()

    # L2: model vs implementation
    shard = 300
    texts = [coq_cases(cases[i:i + shard]) for i in range(0, len(cases), shard)]
    if proved or True:
        try:
            outs = coq_eval_many('c20', texts)
            nbad = 0
            for k, out in enumerate(outs):
                vals = parse_eval(out)
                bad = parse_coq_list(vals[0]) if vals else None
                if bad is None:
                    raise BrokenTie('correspondence:C20', f'no output from shard {k}')
                for b in bad:
                    nbad += 1
                    ops, obs = cases[k * shard + int(b)]
                    if nbad <= 1:
                        run.add_broken('correspondence:C20 model(mrun) vs LimitedRateLimiter',
                                       f'first diverging history: {ops[:40]} impl={[(o[0], o[1]) for o in obs[:40]]}')
            run.cov['traces_validated_against_impl'] = len(cases) - nbad
        except BrokenTie as e:
            run.add_broken(e.obligation, e.detail)

    # full stack: send_file / receive_file through the limiter under virtual time
    nstack = 16 if run.tier == 'quick' else 100
    for i in range(nstack):
        kbps = run.rng.choice([1, 2, 5, 10, 100])
        nconn = run.rng.randrange(1, 5)
        size = run.rng.choice([0, 1, 127, 128, 129, 1000, 5000, 20000])
        upload = bool(i % 2)
        changes = []
        if i % 3 == 0:
            changes = [(run.rng.choice([0.0, 0.005, 0.3, 1.0, 2.5]), run.rng.choice([1, 2, 5, 50, 0]))
                       for _ in range(run.rng.randrange(1, 3))]
        desc = {'kbps': kbps, 'connections': nconn, 'size': size, 'upload': upload, 'changes': changes}
        try:
            deliv, segments = stack_run(run.rng, kbps, nconn, size, upload, changes)
        except Exception as e:
            run.add_finding(Finding('stack-stall', f'{"send_file" if upload else "receive_file"} did not finish: {type(e).__name__}: {e}', desc))
            continue
        run.case({'stack': desc}, nontrivial=size > 128, kind='stack')
        tot = sum(n for _, n in deliv)
        if tot != size * nconn:
            run.add_finding(Finding('stack-bytes', f'moved {tot} bytes, expected {size * nconn}', desc))
        ex = stack_monitor(deliv, segments)
        if ex > 128 * TICK and changes and ex <= 128 * (1 + nconn) * TICK:
            run.add_finding(Finding(F31_KEY, F31_WHAT, dict(desc, excess_bytes=ex // TICK)))
        elif ex > 128 * TICK:
            run.add_finding(Finding('stack-window-bound', f'file connections exceeded the window bound by {ex // TICK} B', desc))
        elif ex > 0:
            run.add_finding(Finding(F25_KEY, 'window bound exceeded by <= 128 B on file connections (stale timestamp after full bucket)', desc))
        # unlimited must not be throttled: no virtual time may pass
        if kbps == 0 and deliv and deliv[-1][0] != deliv[0][0]:
            run.add_finding(Finding('unlimited-throttled', 'virtual time passed during an unlimited transfer', desc))
    for upload in (True, False):
        for nconn in ((1, 4) if run.tier == 'quick' else (1, 2, 3, 4)):
            desc = {'kbps': 100, 'connections': nconn, 'size': 150000, 'upload': upload, 'changes': [(0.5, 1)]}
            try:
                deliv, segments = stack_run(run.rng, 100, nconn, 150000, upload, [(0.5, 1)])
            except Exception as e:
                run.add_finding(Finding('stack-stall', f'transfer did not finish after lowering the limit: {type(e).__name__}: {e}', desc))
                continue
            run.case({'stack': desc}, kind='stack-lowering')
            ex = stack_monitor(deliv, segments)
            if ex > 128 * TICK:
                run.add_finding(Finding('stack-window-bound', f'file connections exceeded the window bound by {ex // TICK} B after the limit was lowered', desc))
    # repeated limit changes while transfers saturate the limit: tokens and the refill clock must carry over
    for upload in (True, False):
        for nconn, seq in ((2, [(0.25, 10), (0.25, 10), (0.25, 10), (0.25, 10)]), (3, [(0.2, 5), (0.2, 20), (0.2, 5), (0.2, 20)]),
                           (1, [(0.0, 10), (0.0, 10), (0.5, 10)]), (4, [(0.05, 10)] * 12)):
            desc = {'kbps': 10, 'connections': nconn, 'size': 40000, 'upload': upload, 'changes': seq}
            try:
                deliv, segments = stack_run(run.rng, 10, nconn, 40000, upload, seq)
            except Exception as e:
                run.add_finding(Finding('stack-stall', f'transfer did not finish under repeated limit changes: {type(e).__name__}: {e}', desc))
                continue
            run.case({'stack': desc}, kind='stack-repeated-changes')
            ex, over_known, k = stack_monitor_across(deliv, segments, nconn, 1)
            if over_known > 0:
                run.add_finding(Finding('stack-burst-across-limit-changes', f'bytes moved across {k} limit change(s) exceed the integral of the limit plus one burst by {ex // TICK} B '
                                        f'(more than one 128 B grant per connection per change)', desc))
            elif ex > 0:
                run.add_finding(Finding(F31_KEY, F31_WHAT, dict(desc, excess_bytes=ex // TICK, changes_in_window=k)))
    # the upload as the TransferManager drives it (TransferManager._upload_file on a fake transport, harness of C04):
    # every file byte must go through the limiter, also the last partial chunk
    try:
        from checks.c04_harness import run_limited_upload
        for kbps, size in ((1, 6000), (10, 70000), (2, 128 * 37 + 5)):
            desc = {'kbps': kbps, 'size': size, 'path': 'TransferManager._upload_file'}
            writes = run_limited_upload(kbps, size, seed=run.seed)
            deliv = [(round(t * TICK), n) for t, n in writes]
            run.case({'stack': desc}, kind='stack-manager-upload')
            tot = sum(n for _, n in deliv)
            if tot < size:
                run.add_finding(Finding('stack-bytes', f'manager upload wrote {tot} of {size} bytes', desc))
            ex = stack_monitor(deliv, [(deliv[0][0] if deliv else 0, kbps * 1024)])
            if ex > 128 * TICK:
                run.add_finding(Finding('upload-path-bypasses-limiter', f'TransferManager upload exceeded the window bound by {ex // TICK} B', desc))
    except BrokenTie:
        raise
    except Exception as e:  # the harness could not run the upload at all
        run.add_broken('stack:manager-upload (checks/c04_harness.run_limited_upload)', f'{type(e).__name__}: {e}')
    for upload in (True, False):
        desc = {'kbps': 0, 'connections': 2, 'size': 50000, 'upload': upload}
        deliv, _ = stack_run(run.rng, 0, 2, 50000, upload)
        run.case({'stack': desc}, kind='stack-unlimited')
        if deliv and deliv[-1][0] != deliv[0][0]:
            run.add_finding(Finding('unlimited-throttled', 'virtual time passed during an unlimited transfer', desc))


def _exceeds(ops, slack):
    try:
        w = monitor(ops, run_impl(ops))
    except Exception:
        return False
    return bool(w) and w[0] > slack


def _is_f25(ops):
    try:
        w = monitor(ops, run_impl(ops))
    except Exception:
        return False
    return bool(w) and w[2]


def shrink_ops(ops, pred):
    from vlib.common import shrink_list
    if not pred(ops):
        return ops
    return shrink_list(ops, pred, max_steps=150)


def replay(rep) -> int:
    ops = [tuple(o) for o in rep['witness']['ops']]
    obs = run_impl(ops)
    w = monitor(ops, obs)
    print('ops:', ops)
    print('observations (grant, bucket, limit, full_before, stale_before):', obs)
    print('worst window:', w)
    return 1 if w else 0
