"""Regenerate pinned/vectors.json: the byte vectors asserted by the maintainers' test module
tests/unit/protocol/test_messages.py (run ONCE at the pinned commit; the result is committed).

  python -m checks.c01_vectors            (from /verif, against $VERIF_REPO or /repo)

Two extraction passes, merged:
  static   the constructor expression and the bytes.fromhex literal of each test function (ast)
  dynamic  the test module is run under pytest with MessageDataclass.serialize / .deserialize wrapped
           from outside; for every PASSED test the (message, bytes) pairs that went through the codec
           are what the test asserted on.  This also yields the vectors static extraction cannot see
           (module-level constants: the three zlib-compressed peer messages, the picture of
           PeerUserInfoReply).
"""
from __future__ import annotations

import ast
import json
import sys

from vlib import common


def static_vectors(lay, L):
    import aioslsk.protocol.messages as M
    import aioslsk.protocol.primitives as P
    byname = L.msg_by_name(lay)
    tree = ast.parse((common.REPO / 'tests' / 'unit' / 'protocol' / 'test_messages.py').read_text())
    ns = dict(vars(P))
    ns.update(vars(M))
    out = []
    for cls in tree.body:
        if not isinstance(cls, ast.ClassDef):
            continue
        for fn in cls.body:
            if not isinstance(fn, ast.FunctionDef) or not fn.name.startswith('test'):
                continue
            ctors, hexes, ser, des, raises = [], [], False, False, False
            for n in ast.walk(fn):
                if isinstance(n, ast.Call) and isinstance(n.func, ast.Attribute):
                    if n.func.attr in ('Request', 'Response') and isinstance(n.func.value, ast.Name):
                        ctors.append(n)
                    if n.func.attr == 'fromhex' and len(n.args) == 1 and isinstance(n.args[0], ast.Constant):
                        hexes.append(n.args[0].value)
                    ser |= n.func.attr == 'serialize'
                    des |= n.func.attr.startswith('deserialize')
                    raises |= n.func.attr == 'raises'
            hexes = list(dict.fromkeys(hexes))
            srcs = list(dict.fromkeys(ast.unparse(c) for c in ctors))
            if raises or len(srcs) != 1 or len(hexes) != 1 or ser == des:
                continue
            c = ctors[0]
            name = f'{c.func.value.id}.{c.func.attr}'
            if name not in byname:
                continue
            try:
                obj = eval(compile(ast.Expression(c), '<vec>', 'eval'), ns)
            except Exception:
                continue
            out.append({'test': f'{cls.name}.{fn.name}', 'class': name, 'dir': 'serialize' if ser else 'deserialize',
                        'vals': L.obj_vals(lay, byname[name], obj), 'hex': hexes[0].replace(' ', ''), 'source': 'static'})
    return out


def dynamic_vectors(lay, L):
    import pytest
    from aioslsk.protocol.primitives import MessageDataclass
    byname = L.msg_by_name(lay)
    records, state = [], {'test': None, 'passed': set()}
    orig_ser = MessageDataclass.serialize
    orig_des = MessageDataclass.__dict__['deserialize'].__func__

    def ser(self, compress=False):
        out = orig_ser(self, compress)
        records.append((state['test'], type(self).__qualname__, 'serialize', self, out))
        return out

    def des(cls, pos, message, decompress=False):
        obj = orig_des(cls, pos, message, decompress)
        if pos == 0:
            records.append((state['test'], cls.__qualname__, 'deserialize', obj, bytes(message)))
        return obj

    class Plugin:
        def pytest_runtest_setup(self, item):
            state['test'] = f'{item.cls.__name__}.{item.name}' if item.cls else item.name

        def pytest_runtest_logreport(self, report):
            if report.when == 'call' and report.passed:
                state['passed'].add(state['test'])

    MessageDataclass.serialize = ser
    MessageDataclass.deserialize = classmethod(des)
    try:
        rc = pytest.main(['-q', '-p', 'no:cacheprovider', '--no-header', str(common.REPO / 'tests' / 'unit' / 'protocol' / 'test_messages.py')],
                         plugins=[Plugin()])
    finally:
        MessageDataclass.serialize = orig_ser
        MessageDataclass.deserialize = classmethod(orig_des)
    out = []
    for test, name, d, obj, data in records:
        if test not in state['passed'] or name not in byname:
            continue
        try:
            vals = L.obj_vals(lay, byname[name], obj)
        except Exception:
            continue
        out.append({'test': test, 'class': name, 'dir': d, 'vals': vals, 'hex': data.hex(), 'source': 'dynamic'})
    return out, rc


def main():
    common.use_impl()
    from checks import c01_lib as L
    pin = L.load_pinned()
    lay = pin['layout']
    st = static_vectors(lay, L)
    dy, rc = dynamic_vectors(lay, L)
    seen = {(v['class'], v['dir'], v['hex']) for v in st}
    merged = list(st)
    for v in dy:
        k = (v['class'], v['dir'], v['hex'])
        if k not in seen:
            seen.add(k)
            merged.append(v)
    path = common.VERIF / 'pinned' / 'vectors.json'
    json.dump({'about': 'byte vectors asserted by the maintainers in tests/unit/protocol/test_messages.py at the pinned commit: static '
                        'extraction (constructor expression + bytes.fromhex literal) merged with dynamic extraction (test module run with '
                        'MessageDataclass.serialize/deserialize wrapped, passed tests only); regenerate with python -m checks.c01_vectors. '
                        'The independent anchor of pinned/layout.json.',
               'pinned_commit': pin['pinned_commit'], 'vectors': merged}, open(path, 'w'), indent=0)
    comp = sorted({v['class'] for v in merged if L.msg_by_name(lay)[v['class']]['compressed']})
    print(f'{len(st)} static + {len(merged) - len(st)} dynamic-only = {len(merged)} vectors (pytest rc={rc}); compressed classes covered: {comp}')


if __name__ == '__main__':
    sys.path.insert(0, str(common.VERIF))
    main()
