"""T3: network/rate_limiter.py -> gen/RateGen.v (record `lim`, refill/add_tokens/is_empty/
copy_tokens/take_step of LimitedRateLimiter, the UnlimitedRateLimiter grant, INTERVAL in ticks)."""
import ast
from pathlib import Path
from .pyexpr import (ClassCtx, MethodSig, Refuse, Tr, translate_method, find_class, find_func, int_const,
                     const_eval, HEADER, TICK_BITS, refuse)


def translate(src: Path) -> dict:
    path = src / 'aioslsk' / 'network' / 'rate_limiter.py'
    tree = ast.parse(path.read_text())
    base = find_class(tree, 'RateLimiter')
    lim = find_class(tree, 'LimitedRateLimiter')
    unl = find_class(tree, 'UnlimitedRateLimiter')

    # ---- fields from RateLimiter.__init__ : exactly three assignments self.f = <param or literal>
    init = find_func(base.body, '__init__')
    if [a.arg for a in init.args.args] != ['self', 'limit_bps']:
        raise Refuse('RateLimiter.__init__ signature')
    fields = []
    inits = {}
    for st in init.body:
        if isinstance(st, ast.Expr) and isinstance(st.value, ast.Constant):
            continue
        if isinstance(st, ast.AnnAssign):
            tgt, val = st.target, st.value
        elif isinstance(st, ast.Assign) and len(st.targets) == 1:
            tgt, val = st.targets[0], st.value
        else:
            refuse(st, 'RateLimiter.__init__ statement')
        if not (isinstance(tgt, ast.Attribute) and isinstance(tgt.value, ast.Name) and tgt.value.id == 'self'):
            refuse(st, 'RateLimiter.__init__ target')
        if isinstance(val, ast.Name) and val.id == 'limit_bps':
            inits[tgt.attr] = 'limit_bps'
            kind = 'int'
        elif isinstance(val, ast.Constant) and isinstance(val.value, (int, float)) and val.value == 0:
            inits[tgt.attr] = '0'
            kind = 'time' if isinstance(val.value, float) else 'int'
        else:
            refuse(st, 'RateLimiter.__init__ value')
        fields.append((tgt.attr, kind))
    if sorted(fields) != sorted([('limit_bps', 'int'), ('bucket', 'int'), ('last_refill', 'time')]):
        raise Refuse(f'RateLimiter fields changed: {fields}')

    consts = {'MIN_BUCKET_SIZE': int_const(lim.body, 'MIN_BUCKET_SIZE')}
    interval = const_eval_interval(tree)
    ctx = ClassCtx(record='lim', ctor='mkLim', fields=fields, consts=consts)

    # ---- LimitedRateLimiter.__init__: super().__init__(limit_bps=<expr over limit_kbps>)
    linit = find_func(lim.body, '__init__')
    if [a.arg for a in linit.args.args] != ['self', 'limit_kbps'] or len(linit.body) != 1:
        raise Refuse('LimitedRateLimiter.__init__ shape')
    call = linit.body[0].value if isinstance(linit.body[0], ast.Expr) else None
    if not (isinstance(call, ast.Call) and isinstance(call.func, ast.Attribute) and call.func.attr == '__init__'
            and isinstance(call.func.value, ast.Call) and isinstance(call.func.value.func, ast.Name)
            and call.func.value.func.id == 'super' and not call.args and len(call.keywords) == 1
            and call.keywords[0].arg == 'limit_bps'):
        raise Refuse('LimitedRateLimiter.__init__ body')
    sig0 = MethodSig('__init__', [('limit_kbps', 'int')], 'none')
    lb, k = Tr(ctx, sig0).expr(call.keywords[0].value)
    if k != 'int':
        raise Refuse('limit_bps kind')
    ctor_args = ' '.join({'limit_bps': f'(let limit_bps := {lb} in limit_bps)'}.get(inits[f], inits[f]) if inits[f] != 'limit_bps'
                         else f'{lb}' for f, _ in fields)

    # ---- methods, callee-first
    sigs = {
        'is_empty': MethodSig('is_empty', [], 'bool', coq_name='is_empty'),
        'add_tokens': MethodSig('add_tokens', [('token_amount', 'int')], 'none', coq_name='add_tokens'),
        'refill': MethodSig('refill', [], 'bool', coq_name='refill'),
        'copy_tokens': MethodSig('copy_tokens', [('other', 'obj')], 'none', coq_name='copy_tokens'),
        'take_step': MethodSig('take_step', [], 'int', coq_name='take_step'),
    }
    ctx.methods = sigs
    out = [HEADER.format(src='src/aioslsk/network/rate_limiter.py')]
    out.append(f'Definition TICK : Z := {2 ** TICK_BITS}.\n')
    out.append(f'Definition MIN_BUCKET_SIZE : Z := {consts["MIN_BUCKET_SIZE"]}.\n')
    out.append(f'Definition UNLIMITED_GRANT : Z := {int_const(unl.body, "MIN_BUCKET_SIZE")}.\n')
    out.append(f'(* INTERVAL = {interval!r} s, in ticks of 2^-{TICK_BITS} s, rounded down *)\n')
    out.append(f'Definition INTERVAL_TICKS : Z := {int(interval * 2 ** TICK_BITS)}.\n\n')
    out.append('Record lim : Type := mkLim { ' + '; '.join(f'{f} : Z' for f, _ in fields) + ' }.\n\n')
    out.append(f'Definition mk_limited (l_limit_kbps : Z) : lim := mkLim {ctor_args}.\n\n')
    for name in ('is_empty', 'add_tokens', 'refill', 'copy_tokens'):
        out.append(translate_method(ctx, find_func(lim.body, name), sigs[name]) + '\n')

    # ---- take_tokens: `while True: <body>; await asyncio.sleep(INTERVAL)`; one iteration becomes
    # take_step, returning the grant, or 0 when the iteration ends in the sleep.
    tt = find_func(lim.body, 'take_tokens')
    if not isinstance(tt, ast.AsyncFunctionDef):
        raise Refuse('take_tokens is not a coroutine')
    body = [s for s in tt.body if not (isinstance(s, ast.Expr) and isinstance(s.value, ast.Constant))]
    if len(body) != 1 or not isinstance(body[0], ast.While):
        raise Refuse('take_tokens shape')
    w = body[0]
    if not (isinstance(w.test, ast.Constant) and w.test.value is True) or w.orelse:
        raise Refuse('take_tokens loop')
    last = w.body[-1]
    ok = (isinstance(last, ast.Expr) and isinstance(last.value, ast.Await) and isinstance(last.value.value, ast.Call)
          and ast.unparse(last.value.value) == 'asyncio.sleep(INTERVAL)')
    if not ok:
        raise Refuse('take_tokens: loop must end with `await asyncio.sleep(INTERVAL)`')
    for s in ast.walk(ast.Module(body=w.body[:-1], type_ignores=[])):
        if isinstance(s, (ast.Await, ast.While, ast.For, ast.Break, ast.Continue)):
            raise Refuse('take_tokens: unexpected control flow in loop body')
    step = ast.FunctionDef(name='take_step', args=ast.arguments(posonlyargs=[], args=[ast.arg(arg='self')], kwonlyargs=[],
                                                                 kw_defaults=[], defaults=[]),
                           body=w.body[:-1] + [ast.Return(value=ast.Constant(value=0))], decorator_list=[])
    ast.fix_missing_locations(step)
    out.append('(* one iteration of the `while True` loop of take_tokens; 0 = "sleep INTERVAL and retry" *)\n')
    out.append(translate_method(ctx, step, sigs['take_step']) + '\n')

    # ---- unlimited limiter: every method must be the trivial one
    expect = {'is_empty': 'return False', 'refill': 'return False', 'take_tokens': 'return self.MIN_BUCKET_SIZE',
              'add_tokens': 'pass', 'copy_tokens': 'pass'}
    for name, src_txt in expect.items():
        fn = find_func(unl.body, name)
        b = [s for s in fn.body if not (isinstance(s, ast.Expr) and isinstance(s.value, ast.Constant))]
        if len(b) != 1 or ast.unparse(b[0]) != src_txt:
            raise Refuse(f'UnlimitedRateLimiter.{name} changed: {ast.unparse(fn)[:200]}')
    out.append('(* UnlimitedRateLimiter: is_empty/refill = False, take_tokens returns UNLIMITED_GRANT without awaiting,\n'
               '   add_tokens/copy_tokens do nothing (shape-checked by the translator) *)\n')
    out.append('Definition unlimited_take : Z := UNLIMITED_GRANT.\n')

    # ---- create_limiter
    cl = find_func(base.body, 'create_limiter')
    b = [s for s in cl.body if not (isinstance(s, ast.Expr) and isinstance(s.value, ast.Constant))]
    if len(b) != 1 or ast.unparse(b[0]).replace('\n', ' ').split() != \
            'if limit_kbps == 0: return UnlimitedRateLimiter() else: return LimitedRateLimiter(limit_kbps)'.split():
        raise Refuse('create_limiter changed')
    out.append('Definition create_limiter (limit_kbps : Z) : option lim :=\n'
               ' if Z.eqb limit_kbps 0 then None else Some (mk_limited limit_kbps).\n')
    out.append(network_and_connection_shapes(src))
    return {'RateGen.v': ''.join(out)}


SET_LIMIT_SHAPE = '''new_limiter = RateLimiter.create_limiter(limit_kbps)
if self._{d}_rate_limiter is not None:
    new_limiter.copy_tokens(self._{d}_rate_limiter)
self._{d}_rate_limiter = new_limiter
for conn in self.peer_connections:
    conn.{d}_rate_limiter = self._{d}_rate_limiter'''


def _body_src(fn):
    b = [s for s in fn.body if not (isinstance(s, ast.Expr) and isinstance(s.value, ast.Constant) and isinstance(s.value.value, str))]
    return '\n'.join(ast.unparse(s) for s in b)


def network_and_connection_shapes(src: Path) -> str:
    """The part of the model that lives outside rate_limiter.py, shape-checked (fail closed):
    * Network.set_upload_speed_limit / set_download_speed_limit = Model.set_limit (create, copy_tokens
      from the old limiter, replace the slot, hand the new object to every peer connection);
    * Network.__init__ creates both limiters with create_limiter(<setting>);
    * Network._finalize_peer_connection gives file connections the two current limiters;
    * PeerConnection.send_file / receive_file take tokens from the connection's CURRENT limiter
      attribute once per chunk, inside the loop (so a replaced limiter is picked up at the next chunk)."""
    net = ast.parse((src / 'aioslsk' / 'network' / 'network.py').read_text())
    conn = ast.parse((src / 'aioslsk' / 'network' / 'connection.py').read_text())
    ncls = find_class(net, 'Network')
    for d in ('upload', 'download'):
        fn = find_func(ncls.body, f'set_{d}_speed_limit')
        got = _body_src(fn)
        want = SET_LIMIT_SHAPE.format(d=d)
        if ast.dump(ast.parse(got)) != ast.dump(ast.parse(want)):
            raise Refuse(f'Network.set_{d}_speed_limit changed:\n{got}')
    init_src = ast.unparse(find_func(ncls.body, '__init__'))
    for d in ('upload', 'download'):
        if f'self._{d}_rate_limiter: RateLimiter = RateLimiter.create_limiter(self._settings.network.limits.{d}_speed_kbps)' not in init_src:
            raise Refuse(f'Network.__init__: {d} limiter creation changed')
    fin = ast.unparse(find_func(ncls.body, '_finalize_peer_connection'))
    for d in ('upload', 'download'):
        if f'connection.{d}_rate_limiter = self._{d}_rate_limiter' not in fin:
            raise Refuse(f'_finalize_peer_connection: {d} limiter not handed to file connections')
    pcls = find_class(conn, 'PeerConnection')
    for name, d, var in (('send_file', 'upload', 'bytes_to_write'), ('receive_file', 'download', 'bytes_to_read')):
        fn = find_func(pcls.body, name)
        loops = [n for n in ast.walk(fn) if isinstance(n, ast.While)]
        if len(loops) != 1:
            raise Refuse(f'{name}: expected exactly one loop')
        first = loops[0].body[0]
        if ast.unparse(first) != f'{var} = await self.{d}_rate_limiter.take_tokens()':
            raise Refuse(f'{name}: the loop must start by taking tokens from self.{d}_rate_limiter: {ast.unparse(first)}')
        takes = [n for n in ast.walk(fn) if isinstance(n, ast.Attribute) and n.attr in ('take_tokens', f'{d}_rate_limiter')]
        if len(takes) != 2:
            raise Refuse(f'{name}: limiter referenced outside the per-chunk take')
        uses = [n for n in ast.walk(loops[0]) if isinstance(n, ast.Name) and n.id == var and isinstance(n.ctx, ast.Load)]
        if len(uses) != 1:
            raise Refuse(f'{name}: granted size must be used exactly once (as the chunk size)')
    # the chunk helpers: exactly the granted number of bytes is requested from the stream / the chunk read from
    # the file is what is sent
    rd = find_func(pcls.body, 'receive_data')
    if 'return await self._read(self._reader.read(n_bytes), timeout=self.transfer_read_timeout)' not in ast.unparse(rd):
        raise Refuse('receive_data no longer reads at most n_bytes from the stream')
    sd = find_func(pcls.body, 'send_data')
    if _body_src(sd) != 'await self._send(data, timeout=TRANSFER_TIMEOUT)':
        raise Refuse(f'send_data changed: {_body_src(sd)}')
    for name, call in (('send_file', 'await self.send_data(data)'), ('receive_file', 'data = await self.receive_data(bytes_to_read)')):
        if call not in ast.unparse(find_func(pcls.body, name)):
            raise Refuse(f'{name}: chunk no longer moved by `{call}`')
    if 'data = await file_handle.read(bytes_to_write)' not in ast.unparse(find_func(pcls.body, 'send_file')):
        raise Refuse('send_file: chunk size is no longer the granted token count')
    # file bytes may only be moved through send_file / receive_file (which take tokens per chunk): no other module
    # may call the chunk helpers or write to / read from a file connection's stream directly
    pkg = src / 'aioslsk'
    for py in sorted(pkg.rglob('*.py')):
        rel = py.relative_to(pkg).as_posix()
        tree = ast.parse(py.read_text())
        for n in ast.walk(tree):
            if isinstance(n, ast.Attribute) and n.attr in ('send_data', 'receive_data') and rel != 'network/connection.py':
                raise Refuse(f'{rel}:{n.lineno}: {n.attr} used outside network/connection.py (file bytes bypass the limiter)')
    tm = ast.parse((pkg / 'transfer' / 'manager.py').read_text())
    calls = [ast.unparse(n.func) for n in ast.walk(tm) if isinstance(n, ast.Call) and isinstance(n.func, ast.Attribute)
             and n.func.attr in ('send_file', 'receive_file', 'send_data', 'receive_data', '_send', 'write')
             and ast.unparse(n.func) != 'self.cache.write']
    if sorted(calls) != ['connection.receive_file', 'connection.send_file']:
        raise Refuse(f'transfer/manager.py moves file bytes by other means than one send_file and one receive_file call: {calls}')
    return ('\n(* shape-checked by the translator (fail closed): Network.set_*_speed_limit = create_limiter + copy_tokens(old) + replace slot +\n'
            '   hand to every peer connection; send_file/receive_file take tokens from the current limiter attribute once per chunk *)\n'
            'Definition SET_LIMIT_COPIES_TOKENS : bool := true.\nDefinition TAKE_PER_CHUNK_FROM_CURRENT_LIMITER : bool := true.\n')


def const_eval_interval(tree):
    for n in tree.body:
        if isinstance(n, ast.Assign) and len(n.targets) == 1 and isinstance(n.targets[0], ast.Name) and n.targets[0].id == 'INTERVAL':
            v = const_eval(n.value)
            if not (0 < v < 3600):
                raise Refuse('INTERVAL out of range')
            return v
    raise Refuse('INTERVAL not found')


if __name__ == '__main__':
    import sys
    print(translate(Path(sys.argv[1] if len(sys.argv) > 1 else '/repo/src'))['RateGen.v'])
