"""Fail-closed translation of straight-line integer Python (ast) into Gallina text over Z.

Accepted subset (anything else raises ``Refuse``):

  statements   x = e | self.f = e | x += e | self.f += e | self.f -= e | if/elif/else |
               return e | return | self.m(args) as a statement (m translated, returns None) |
               pass | docstrings
  expressions  int literals, True/False, names, self.f, self.CONST / Class.CONST,
               + - * // % >> << | & ^, unary -, not, and/or, comparisons (single operator),
               min/max (two arguments), int(e), e1 if c else e2, calls of other translated
               methods of the same object, ``time.monotonic()`` (becomes the parameter ``now``)

Typing.  Every expression has a *kind*: ``int``, ``bool`` or ``time``.  Time values are
integer ticks of 2^-20 s (``TICKS``).  ``time - time = time``; ``int * time`` is a tick-scaled
quantity of kind ``scaled``; ``int(scaled)`` is ``Z.quot e 2^20`` (``int()`` truncates towards
zero and so does ``Z.quot``).  Mixed kinds are refused.

A method ``m(self, a, b)`` of a class whose mutable fields are ``F`` becomes

  Definition m (self : R) (a b : Z) [now : Z] : R * T

where ``R`` is a record with the fields ``F`` (declared by the caller) and T is ``Z``, ``bool``
or ``unit``.  The clock parameter is present iff the method (transitively) reads the clock.
"""
from __future__ import annotations

import ast
from dataclasses import dataclass, field
from typing import Optional


class Refuse(Exception):
    pass


def refuse(node, why):
    line = getattr(node, 'lineno', '?')
    raise Refuse(f'line {line}: {why}: {ast.dump(node)[:200] if isinstance(node, ast.AST) else node}')


TICK_BITS = 20

BINOPS = {
    ast.Add: 'Z.add', ast.Sub: 'Z.sub', ast.Mult: 'Z.mul', ast.FloorDiv: 'Z.div', ast.Mod: 'Z.modulo',
    ast.RShift: 'Z.shiftr', ast.LShift: 'Z.shiftl', ast.BitOr: 'Z.lor', ast.BitAnd: 'Z.land', ast.BitXor: 'Z.lxor',
}
CMPOPS = {
    ast.Lt: 'Z.ltb {a} {b}', ast.LtE: 'Z.leb {a} {b}', ast.Gt: 'Z.ltb {b} {a}', ast.GtE: 'Z.leb {b} {a}',
    ast.Eq: 'Z.eqb {a} {b}', ast.NotEq: 'negb (Z.eqb {a} {b})',
}


@dataclass
class MethodSig:
    name: str
    params: list           # [(name, kind)]
    ret: str               # 'int' | 'bool' | 'none' | 'time'
    uses_clock: bool = False
    coq_name: str = ''


@dataclass
class ClassCtx:
    record: str                          # Coq record type name
    ctor: str                            # record constructor
    fields: list                         # [(python field, kind)] in constructor order
    consts: dict = field(default_factory=dict)   # NAME -> int (class or module constants)
    methods: dict = field(default_factory=dict)  # name -> MethodSig
    prefix: str = ''

    def fkind(self, f):
        for n, k in self.fields:
            if n == f:
                return k
        return None


def ln(name: str) -> str:
    return 'l_' + name


def zl(n: int) -> str:
    return f'({n})' if n < 0 else str(n)


class Tr:
    """Translates one function body."""

    def __init__(self, ctx: ClassCtx, sig: MethodSig, self_name: Optional[str] = 'self'):
        self.ctx = ctx
        self.sig = sig
        self.self_name = self_name
        self.locals = {n: k for n, k in sig.params}
        self.counter = 0

    # ---------------- expressions: returns (coq_text, kind)
    def expr(self, e) -> tuple[str, str]:
        if isinstance(e, ast.Constant):
            if isinstance(e.value, bool):
                return ('true' if e.value else 'false', 'bool')
            if isinstance(e.value, int):
                return (zl(e.value), 'int')
            refuse(e, 'literal')
        if isinstance(e, ast.Name):
            if e.id in self.locals:
                return (ln(e.id), self.locals[e.id])
            if e.id in self.ctx.consts:
                return (zl(self.ctx.consts[e.id]), 'int')
            refuse(e, 'unknown name')
        if isinstance(e, ast.Attribute):
            if isinstance(e.value, ast.Name) and e.value.id == self.self_name:
                k = self.ctx.fkind(e.attr)
                if k:
                    return (f'({self.ctx.prefix}{e.attr} self)', k)
                if e.attr in self.ctx.consts:
                    return (zl(self.ctx.consts[e.attr]), 'int')
            if isinstance(e.value, ast.Name) and e.value.id in self.locals and self.locals[e.value.id] == 'obj':
                k = self.ctx.fkind(e.attr)
                if k:
                    return (f'({self.ctx.prefix}{e.attr} {ln(e.value.id)})', k)
            refuse(e, 'attribute')
        if isinstance(e, ast.BinOp):
            a, ka = self.expr(e.left)
            b, kb = self.expr(e.right)
            op = BINOPS.get(type(e.op))
            if op is None:
                refuse(e, 'operator')
            if isinstance(e.op, (ast.Add, ast.Sub)):
                if ka == kb and ka in ('int', 'time'):
                    kind = 'time' if (ka == 'time' and isinstance(e.op, ast.Add)) else ka
                    if ka == 'time' and isinstance(e.op, ast.Add):
                        refuse(e, 'time + time')
                    return (f'({op} {a} {b})', kind)
                refuse(e, f'kinds {ka} {kb}')
            if isinstance(e.op, ast.Mult):
                if ka == 'int' and kb == 'int':
                    return (f'({op} {a} {b})', 'int')
                if {ka, kb} == {'int', 'time'}:
                    return (f'({op} {a} {b})', 'scaled')
                refuse(e, f'kinds {ka} {kb}')
            if ka == 'int' and kb == 'int':
                return (f'({op} {a} {b})', 'int')
            refuse(e, f'kinds {ka} {kb}')
        if isinstance(e, ast.UnaryOp):
            if isinstance(e.op, ast.USub):
                a, k = self.expr(e.operand)
                if k != 'int':
                    refuse(e, 'neg kind')
                return (f'(Z.opp {a})', 'int')
            if isinstance(e.op, ast.Not):
                a, k = self.expr(e.operand)
                if k != 'bool':
                    refuse(e, 'not on non-bool')
                return (f'(negb {a})', 'bool')
            refuse(e, 'unary')
        if isinstance(e, ast.BoolOp):
            parts = [self.expr(v) for v in e.values]
            if any(k != 'bool' for _, k in parts):
                refuse(e, 'boolop on non-bool')
            op = 'andb' if isinstance(e.op, ast.And) else 'orb'
            t = parts[-1][0]
            for p, _ in reversed(parts[:-1]):
                t = f'({op} {p} {t})'
            return (t, 'bool')
        if isinstance(e, ast.Compare):
            if len(e.ops) != 1:
                refuse(e, 'chained comparison')
            a, ka = self.expr(e.left)
            b, kb = self.expr(e.comparators[0])
            if ka != kb or ka not in ('int', 'time'):
                if ka == kb == 'bool' and isinstance(e.ops[0], (ast.Eq, ast.NotEq)):
                    t = f'(Bool.eqb {a} {b})'
                    return (t if isinstance(e.ops[0], ast.Eq) else f'(negb {t})', 'bool')
                refuse(e, f'compare kinds {ka} {kb}')
            pat = CMPOPS.get(type(e.ops[0]))
            if pat is None:
                refuse(e, 'comparison operator')
            return ('(' + pat.format(a=a, b=b) + ')', 'bool')
        if isinstance(e, ast.IfExp):
            c, kc = self.expr(e.test)
            a, ka = self.expr(e.body)
            b, kb = self.expr(e.orelse)
            if kc != 'bool' or ka != kb:
                refuse(e, 'ifexp kinds')
            return (f'(if {c} then {a} else {b})', ka)
        if isinstance(e, ast.Call):
            f = e.func
            if e.keywords:
                refuse(e, 'keyword arguments')
            if isinstance(f, ast.Name) and f.id in ('min', 'max') and len(e.args) == 2:
                a, ka = self.expr(e.args[0])
                b, kb = self.expr(e.args[1])
                if ka != kb or ka not in ('int', 'time'):
                    refuse(e, 'min/max kinds')
                return (f'(Z.{f.id} {a} {b})', ka)
            if isinstance(f, ast.Name) and f.id == 'int' and len(e.args) == 1:
                a, ka = self.expr(e.args[0])
                if ka == 'scaled':
                    return (f'(Z.quot {a} {2 ** TICK_BITS})', 'int')
                if ka == 'int':
                    return (a, 'int')
                refuse(e, f'int() of {ka}')
            if (isinstance(f, ast.Attribute) and isinstance(f.value, ast.Name) and f.value.id == 'time'
                    and f.attr == 'monotonic' and not e.args):
                self.sig.uses_clock = True
                return ('now', 'time')
            if (isinstance(f, ast.Attribute) and isinstance(f.value, ast.Name) and f.value.id == self.self_name
                    and f.attr in self.ctx.methods):
                refuse(e, 'method call in expression position (only as statement / assignment RHS)')
            refuse(e, 'call')
        refuse(e, 'expression')

    # ---------------- method calls
    def call(self, e: ast.Call):
        """self.m(args) -> (coq application text, callee sig)"""
        f = e.func
        if not (isinstance(f, ast.Attribute) and isinstance(f.value, ast.Name) and f.value.id == self.self_name
                and f.attr in self.ctx.methods) or e.keywords:
            refuse(e, 'call')
        callee = self.ctx.methods[f.attr]
        if len(e.args) != len(callee.params):
            refuse(e, 'arity')
        args = []
        for a, (pn, pk) in zip(e.args, callee.params):
            t, k = self.expr(a)
            if k != pk:
                refuse(a, f'argument kind {k} for {pk}')
            args.append(t)
        if callee.uses_clock:
            self.sig.uses_clock = True
            args.append('now')
        return f'({callee.coq_name} self {" ".join(args)})'.replace(' )', ')'), callee

    # ---------------- blocks: returns coq text of type (R * T)
    def ret_default(self):
        return {'none': 'tt'}.get(self.sig.ret)

    def always_returns(self, stmts) -> bool:
        for s in stmts:
            if isinstance(s, ast.Return):
                return True
            if isinstance(s, ast.If) and s.orelse and self.always_returns(s.body) and self.always_returns(s.orelse):
                return True
        return False

    def block(self, stmts: list) -> str:
        if not stmts:
            d = self.ret_default()
            if d is None:
                raise Refuse(f'{self.sig.name}: control reaches end of a function that must return a value')
            return f'(self, {d})'
        s, rest = stmts[0], stmts[1:]
        if isinstance(s, ast.Expr) and isinstance(s.value, ast.Constant) and isinstance(s.value.value, str):
            return self.block(rest)
        if isinstance(s, ast.Pass):
            return self.block(rest)
        if isinstance(s, ast.Return):
            if s.value is None:
                if self.sig.ret != 'none':
                    refuse(s, 'bare return')
                return '(self, tt)'
            if isinstance(s.value, ast.Call) and self._is_self_call(s.value):
                t, callee = self.call(s.value)
                if callee.ret != self.sig.ret:
                    refuse(s, 'return kind')
                return t
            t, k = self.expr(s.value)
            if k != self.sig.ret:
                refuse(s, f'return kind {k} expected {self.sig.ret}')
            return f'(self, {t})'
        if isinstance(s, ast.Assign):
            if len(s.targets) != 1:
                refuse(s, 'multiple targets')
            return self.assign(s.targets[0], s.value, rest, s)
        if isinstance(s, ast.AnnAssign) and s.value is not None:
            return self.assign(s.target, s.value, rest, s)
        if isinstance(s, ast.AugAssign):
            op = type(s.op)
            if op not in BINOPS:
                refuse(s, 'augassign op')
            val = ast.BinOp(left=self._load(s.target), op=s.op, right=s.value)
            ast.copy_location(val, s)
            return self.assign(s.target, val, rest, s)
        if isinstance(s, ast.Expr) and isinstance(s.value, ast.Call):
            t, callee = self.call(s.value)
            return f'(let self := fst {t} in\n {self.block(rest)})'
        if isinstance(s, ast.If):
            c, kc = self.expr(s.test)
            if kc != 'bool':
                refuse(s.test, 'condition is not a bool')
            a = self.block_in_scope(list(s.body) + ([] if self.always_returns(s.body) else rest))
            b = self.block_in_scope(list(s.orelse) + ([] if (s.orelse and self.always_returns(s.orelse)) else rest))
            return f'(if {c}\n then {a}\n else {b})'
        refuse(s, 'statement')

    def block_in_scope(self, stmts):
        saved = dict(self.locals)
        try:
            return self.block(stmts)
        finally:
            self.locals = saved

    def _is_self_call(self, e):
        f = e.func
        return (isinstance(f, ast.Attribute) and isinstance(f.value, ast.Name) and f.value.id == self.self_name
                and f.attr in self.ctx.methods)

    def _load(self, target):
        if isinstance(target, ast.Name):
            return ast.Name(id=target.id, ctx=ast.Load())
        if isinstance(target, ast.Attribute):
            return ast.Attribute(value=target.value, attr=target.attr, ctx=ast.Load())
        refuse(target, 'augassign target')

    def assign(self, target, value, rest, node):
        if isinstance(value, ast.Call) and self._is_self_call(value):
            t, callee = self.call(value)
            if callee.ret == 'none' or not isinstance(target, ast.Name):
                refuse(node, 'assignment from procedure')
            self.counter += 1
            tmp = f'r{self.counter}'
            self.locals[target.id] = callee.ret
            return f'(let {tmp} := {t} in let self := fst {tmp} in let {ln(target.id)} := snd {tmp} in\n {self.block(rest)})'
        t, k = self.expr(value)
        if isinstance(target, ast.Name):
            if target.id in self.locals and self.locals[target.id] != k:
                refuse(node, 'local changes kind')
            self.locals[target.id] = k
            return f'(let {ln(target.id)} := {t} in\n {self.block(rest)})'
        if isinstance(target, ast.Attribute) and isinstance(target.value, ast.Name) and target.value.id == self.self_name:
            fk = self.ctx.fkind(target.attr)
            if fk is None:
                refuse(node, 'assignment to unknown field')
            if fk != k:
                refuse(node, f'field {target.attr} of kind {fk} assigned a {k}')
            upd = ' '.join(('v__' if n == target.attr else f'({self.ctx.prefix}{n} self)') for n, _ in self.ctx.fields)
            return f'(let v__ := {t} in let self := {self.ctx.ctor} {upd} in\n {self.block(rest)})'
        refuse(node, 'assignment target')


KIND_TY = {'int': 'Z', 'time': 'Z', 'bool': 'bool', 'none': 'unit', 'obj': None}


def translate_method(ctx: ClassCtx, fn: ast.FunctionDef, sig: MethodSig) -> str:
    args = [a.arg for a in fn.args.args]
    if fn.args.vararg or fn.args.kwarg or fn.args.kwonlyargs or fn.decorator_list:
        raise Refuse(f'{fn.name}: unsupported signature')
    if args[0] != 'self' or args[1:] != [n for n, _ in sig.params]:
        raise Refuse(f'{fn.name}: parameters {args} do not match the expected {sig.params}')
    tr = Tr(ctx, sig)
    body = tr.block(list(fn.body))
    params = ''.join(f' ({ln(n)} : {KIND_TY[k] or ctx.record})' for n, k in sig.params)
    clock = ' (now : Z)' if sig.uses_clock else ''
    return (f'Definition {sig.coq_name} (self : {ctx.record}){params}{clock} : {ctx.record} * {KIND_TY[sig.ret]} :=\n'
            f' {body}.\n')


def find_class(tree: ast.Module, name: str) -> ast.ClassDef:
    for n in tree.body:
        if isinstance(n, ast.ClassDef) and n.name == name:
            return n
    raise Refuse(f'class {name} not found')


def find_func(body, name: str):
    for n in body:
        if isinstance(n, (ast.FunctionDef, ast.AsyncFunctionDef)) and n.name == name:
            return n
    raise Refuse(f'function {name} not found')


def int_const(body, name: str) -> int:
    """NAME = <int literal or simple int arithmetic> at module/class level."""
    for n in body:
        tgt = None
        if isinstance(n, ast.Assign) and len(n.targets) == 1 and isinstance(n.targets[0], ast.Name):
            tgt, val = n.targets[0].id, n.value
        elif isinstance(n, ast.AnnAssign) and isinstance(n.target, ast.Name) and n.value is not None:
            tgt, val = n.target.id, n.value
        if tgt == name:
            return const_eval(val)
    raise Refuse(f'constant {name} not found')


def const_eval(e):
    if isinstance(e, ast.Constant) and isinstance(e.value, (int, float)) and not isinstance(e.value, bool):
        return e.value
    if isinstance(e, ast.BinOp) and isinstance(e.op, (ast.Add, ast.Sub, ast.Mult)):
        a, b = const_eval(e.left), const_eval(e.right)
        return {ast.Add: a + b, ast.Sub: a - b, ast.Mult: a * b}[type(e.op)]
    refuse(e, 'constant expression')


HEADER = '(* GENERATED by /verif/translate from {src} -- do not edit; regenerated on every run *)\nFrom Coq Require Import ZArith Bool List.\nOpen Scope Z_scope.\n\n'
