"""T1c (owner: C01/C02): network/connection.py (framing / send / receive glue of DataConnection) -> gen/ConnGen.v

Fail-closed.  Three kinds of output:

* constants evaluated from the source: HEADER_SIZE_OBFUSCATED / HEADER_SIZE_UNOBFUSCATED
  (`obfuscation.KEY_SIZE + struct.calcsize('I')`, `struct.calcsize('I')`), the primitive and offset
  used to read the length field in `_read_message`;
* decisions read off exact statement shapes (a function must be textually the statement list the
  hand model C02/Model.v abstracts, modulo the holes listed below; anything else is refused):
    _read_message           readexactly(header) ; de-obfuscate header iff obfuscated ; <prim>.deserialize(<off>, ..)
                            ; readexactly(length) ; return header + message
    decode_message_data     de-obfuscates the whole frame iff obfuscated, wraps <EXC> of deserialize_message
    _perform_message_callback   guards the callback with <EXC>
    encode_message_data     serialize, then obfuscation.encode(data) with a fresh key iff obfuscated
    send_message            one encode_message_data + one _send per call
    _send                   ONE writer.write(data), then drain (no await between pieces of a frame)
    queue_message           one task running send_message(message)
    queue_messages          [self.queue_message(message) for message in messages]  (order kept, one frame each)
    serialize_message       message.serialize() for a MessageDataclass, raw bytes otherwise
    ServerConnection / PeerConnection.deserialize_message   which family dispatcher reads which connection
* fingerprints of the two procedural functions that are hand-modelled as the machine `rstep`
  (`_message_reader_loop`, `_read`) and of `receive_message` / `receive_message_object`.
"""
from __future__ import annotations

import ast
import hashlib
import re
import struct
from pathlib import Path

from .pyexpr import Refuse, find_class, find_func, int_const

FINGERPRINTS = {
    '_message_reader_loop': '22a6249e41b8398950a91861',
    '_read': '15458d3a275d9cbe6ba81641',
    'receive_message': '4f6f361348551f0be2b4bac9',
    'receive_message_object': 'a4f619118da42f9889bbe333',
}

TEMPLATES = {
    '_read_message': [
        "if not self._reader:\n    raise ConnectionReadError(f'{self.hostname}:{self.port} : cannot read message, connection is not open')",
        'header_size = {HOBF} if self.obfuscated else {HPLAIN}',
        'header = await self._reader.readexactly(header_size)',
        'message_len_buf = obfuscation.decode(header) if self.obfuscated else header',
        '_, message_len = {PRIM}.deserialize({OFF}, message_len_buf)',
        'message = await self._reader.readexactly(message_len)',
        'return header + message',
    ],
    'decode_message_data': [
        'if self.obfuscated:\n    data = obfuscation.decode(data)',
        "try:\n    message = self.deserialize_message(data)\nexcept {EXC} as exc:\n    raise MessageDeserializationError(data, 'failed to deserialize message') from exc",
        'return message',
    ],
    '_perform_message_callback': [
        "try:\n    await self.network.on_message_received(message, self)\nexcept {EXC}:\n    adapter.exception('error during callback : %s', message, extra=self.__dict__)",
    ],
    'encode_message_data': [
        "try:\n    data = self.serialize_message(message)\nexcept Exception as exc:\n    raise MessageSerializationError('failed to serialize message') from exc",
        'if self.obfuscated:\n    data = obfuscation.encode(data)',
        'return data',
    ],
    'send_message': [
        "if self._is_closing:\n    adapter.warning('not sending message, connection is closing / closed : %s', message, extra=self.__dict__)\n    return",
        "adapter.debug('send message : %s', message, extra={**self.__dict__, **{'message_type': message.__class__}})",
        "try:\n    data = self.encode_message_data(message)\nexcept MessageSerializationError:\n    adapter.exception('failed to serialize message : %s', message)\n    return",
        'await self._send(data, timeout={TMO})',
        'self._increase_read_timeout()',
    ],
    '_send': [
        "if not self._writer:\n    raise ConnectionWriteError(f'{self.hostname}:{self.port} : cannot send data, connection is not open')",
        "try:\n    self._writer.write(data)\n    if timeout:\n        async with atimeout(timeout):\n            await self._writer.drain()\n    else:\n        await self._writer.drain()\n"
        "except asyncio.TimeoutError as exc:\n    await self._disconnect_detached(CloseReason.TIMEOUT)\n    raise ConnectionWriteError(f'{self.hostname}:{self.port} : write timeout') from exc\n"
        "except Exception as exc:\n    await self._disconnect_detached(CloseReason.WRITE_ERROR)\n    raise ConnectionWriteError(f'{self.hostname}:{self.port} : exception during writing') from exc",
    ],
    'queue_message': [
        "task = asyncio.create_task(self.send_message(message), name=f'queue-message-task-{task_counter()}')",
        'self._queued_messages.append(task)',
        'task.add_done_callback(self._queued_messages.remove)',
        'return task',
    ],
    'queue_messages': [
        'return [self.queue_message(message) for message in messages]',
    ],
    'serialize_message': [
        'if isinstance(message, MessageDataclass):\n    return message.serialize()\nelse:\n    return message',
    ],
}

SERVER_DESERIALIZE = ['return ServerMessage.deserialize_response(message_data)']
PEER_DESERIALIZE = [
    'if self.connection_state == PeerConnectionState.AWAITING_INIT:\n    return PeerInitializationMessage.deserialize_request(message_data)\n'
    'elif self.connection_type == PeerConnectionType.PEER:\n    return PeerMessage.deserialize_request(message_data)\n'
    'else:\n    return DistributedMessage.deserialize_request(message_data)']


# Helpers the modelled behaviour relies on although they are not named in the properties' anchors
# (phase 8).  (file relative to src/aioslsk, dotted name inside the module) -> fingerprint of the normalised
# source (docstrings removed).  An edit is a broken tie; the directed scenarios of checks/c01.py / c02.py
# exercise them (send paths, reader loop with suspending / raising / late / re-entrant listeners, accept path).
HELPER_PINS = {
    # exception hierarchy: what `except Exception` / `except ConnectionReadError` / MessageDeserializationError catch
    ('exceptions.py', 'AioSlskException'): '8d481413983203fda3d4',
    ('exceptions.py', 'UnknownMessageError'): 'ad21800844681c32a8df',
    ('exceptions.py', 'MessageSerializationError'): '3ff60b8ae721a855b067',
    ('exceptions.py', 'MessageDeserializationError'): 'aa6e5e04351eec7bad29',
    ('exceptions.py', 'NetworkError'): '964e3cd5879f7da48678',
    ('exceptions.py', 'ConnectionReadError'): '4e43aeb58a35142a3153',
    ('exceptions.py', 'ConnectionWriteError'): '14c71769949d980906cd',
    # connection state machine pieces the reader / sender rely on
    ('network/connection.py', 'ConnectionState'): '562e5438a5d09c85ec6f',
    ('network/connection.py', 'CloseReason'): '9a2451e4d46a5b794858',
    ('network/connection.py', 'PeerConnectionState'): '14e234dee5bee1f6f7b7',
    ('network/connection.py', 'PeerConnectionType'): 'd37b987839d1e72177fa',
    ('network/connection.py', 'Connection.set_state'): 'b3199394ab2e2e661b56',
    ('network/connection.py', 'ListeningConnection.accept'): '8ec0b0ab98a4bd208b55',
    ('network/connection.py', 'DataConnection.disconnect'): '33643816c1136c58f325',
    ('network/connection.py', 'DataConnection.start_reader_task'): 'c73b322cfcb3bfc737fa',
    ('network/connection.py', 'DataConnection.stop_reader_task'): '6edba215b05fd9298451',
    ('network/connection.py', 'DataConnection._increase_read_timeout'): '2eb4f58ec338839c80d7',
    ('network/connection.py', 'DataConnection._cancel_queued_messages'): 'f700acfa60e729b1a937',
    ('network/connection.py', 'DataConnection._disconnect_detached'): '88b3503a91e387ce1ebf',
    ('network/connection.py', 'PeerConnection.set_connection_state'): '58ec388f0af08f85b9aa',
    # obfuscation key source of encode(data) without key
    ('protocol/obfuscation.py', 'generate_key'): '81ce6bb681ac38fe3b0a',
    # what runs inside the reader task for every message
    ('network/network.py', 'Network.on_message_received'): '4ff49c46728c27a3bbb6',
    ('network/network.py', 'Network.on_peer_accepted'): '739d0897f1a37d189070',
    ('network/network.py', 'Network._finalize_peer_connection'): '1ab642de4b8009723dd7',
    ('network/network.py', 'Network.remove_peer_connection'): 'ec081e53dcbf2d98440f',
    ('network/network.py', 'Network.on_state_changed'): 'a6f74755bd8acc1e26ea',
    ('network/network.py', 'Network._on_peer_connection_state_changed'): 'a66fe634fa8059a1cd90',
    ('network/network.py', 'ExpectedResponse.matches'): '5f903da21c7298c81ed3',
    ('events.py', 'on_message'): '5173700ab2c456a402fc',
    ('events.py', 'build_message_map'): 'd65dbd546a64746a3bff',
    ('events.py', 'EventBus.register'): '941a145444e4b8312684',
    ('events.py', 'EventBus.emit'): 'd51af297f222c9896655',
    ('events.py', 'EventBus._get_listeners_for_event'): 'dbf0da8bee9be3792ec5',
    ('events.py', 'EventBus._remove_callback'): '0115374501632a5053db',
    # the repaired F07 site and the task wrapper it uses
    ('search/manager.py', 'SearchManager._on_wish_list_interval'): '4b686a23e5e682f59ada',
    ('tasks.py', 'BackgroundTask.start'): '2dd14f0bbf3a935ea9ff',
    ('tasks.py', 'BackgroundTask.cancel'): '40707824c183f94b3ead',
    ('tasks.py', 'BackgroundTask.runner'): 'b838a01843b1d07f2b3d',
    ('utils.py', 'task_counter'): 'fb0a9c1e087e6024432d',
}


def _find_node(tree, dotted: str):
    node = tree
    for part in dotted.split('.'):
        found = None
        for n in node.body:
            if isinstance(n, (ast.ClassDef, ast.FunctionDef, ast.AsyncFunctionDef)) and n.name == part:
                found = n
            elif isinstance(n, (ast.Assign, ast.AnnAssign)):
                tg = n.targets[0] if isinstance(n, ast.Assign) else n.target
                if isinstance(tg, ast.Name) and tg.id == part:
                    found = n
        if found is None:
            raise Refuse(f'helper {dotted}: not found')
        node = found
    return node


def _norm_fp(node) -> str:
    node = ast.parse(ast.unparse(node)).body[0]
    for n in ast.walk(node):
        body = getattr(n, 'body', None)
        if isinstance(body, list):
            nb = [x for x in body if not (isinstance(x, ast.Expr) and isinstance(x.value, ast.Constant) and isinstance(x.value.value, str))]
            n.body = nb or [ast.Pass()]
    return hashlib.sha256(ast.dump(node).encode()).hexdigest()[:20]


def helper_fingerprints(src: Path) -> dict:
    out, trees = {}, {}
    for (rel, name) in HELPER_PINS:
        if rel not in trees:
            trees[rel] = ast.parse((src / 'aioslsk' / rel).read_text())
        out[(rel, name)] = _norm_fp(_find_node(trees[rel], name))
    return out


def check_helper_pins(src: Path):
    got = helper_fingerprints(src)
    bad = [f'{rel}:{name}' for (rel, name), fp in got.items() if fp != HELPER_PINS[(rel, name)]]
    if bad:
        raise Refuse('helper code the reader / sender / handler-hypothesis model relies on was edited (pinned by fingerprint): ' + ', '.join(bad))


def body_texts(fn) -> list:
    out = []
    for s in fn.body:
        if isinstance(s, ast.Expr) and isinstance(s.value, ast.Constant) and isinstance(s.value.value, str):
            continue
        out.append(ast.unparse(s))
    return out


def fingerprint(fn) -> str:
    return hashlib.sha256('\n'.join(body_texts(fn)).encode()).hexdigest()[:24]


def match(name: str, actual: list, shape: list) -> dict:
    if len(actual) != len(shape):
        raise Refuse(f'{name}: {len(actual)} statements, the model was written from {len(shape)}: {actual}')
    found = {}
    for a, s in zip(actual, shape):
        pat = re.escape(s)
        for hole in re.findall(r'\\\{([A-Z]+)\\\}', pat):
            pat = pat.replace('\\{' + hole + '\\}', f'(?P<{hole}>[A-Za-z_0-9.]+)', 1)
        m = re.fullmatch(pat, a)
        if not m:
            raise Refuse(f'{name}: statement changed: {a!r}\n   expected shape {s!r}')
        found.update(m.groupdict())
    return found


def translate(src: Path) -> dict:
    # (helper pins are checked by the property checks themselves -- check_helper_pins -- so that an edited helper is a
    #  broken tie without switching off the model comparison)
    tree = ast.parse((src / 'aioslsk' / 'network' / 'connection.py').read_text())
    obf_tree = ast.parse((src / 'aioslsk' / 'protocol' / 'obfuscation.py').read_text())
    key_size = int_const(obf_tree.body, 'KEY_SIZE')
    # ---- header size constants
    consts = {}
    for n in tree.body:
        if isinstance(n, ast.AnnAssign) and isinstance(n.target, ast.Name) and n.target.id.startswith('HEADER_SIZE_'):
            txt = ast.unparse(n.value)
            if txt == "obfuscation.KEY_SIZE + struct.calcsize('I')":
                consts[n.target.id] = key_size + struct.calcsize('<I')
            elif txt == "struct.calcsize('I')":
                consts[n.target.id] = struct.calcsize('<I')
            else:
                raise Refuse(f'{n.target.id} = {txt}: not an accepted header size expression')
    if set(consts) != {'HEADER_SIZE_OBFUSCATED', 'HEADER_SIZE_UNOBFUSCATED'}:
        raise Refuse(f'header size constants: {sorted(consts)}')
    dc = find_class(tree, 'DataConnection')
    got = {}
    for name, shape in TEMPLATES.items():
        got[name] = match(name, body_texts(find_func(dc.body, name)), shape)
    for name in FINGERPRINTS:
        fp = fingerprint(find_func(dc.body, name))
        if fp != FINGERPRINTS[name]:
            raise Refuse(f'DataConnection.{name}: source differs from the text the reader machine (C02/Model.v rstep) was written from '
                         f'(fingerprint {fp}, expected {FINGERPRINTS[name]})')
    rm = got['_read_message']
    if rm['HOBF'] != 'HEADER_SIZE_OBFUSCATED' or rm['HPLAIN'] != 'HEADER_SIZE_UNOBFUSCATED':
        raise Refuse(f'_read_message: header sizes {rm}')
    prim_width = {'uint8': 1, 'uint16': 2, 'uint32': 4, 'uint64': 8}.get(rm['PRIM'])
    if prim_width is None or not rm['OFF'].isdigit():
        raise Refuse(f'_read_message: length field read with {rm["PRIM"]} at {rm["OFF"]}')
    exc_dec, exc_cb = got['decode_message_data']['EXC'], got['_perform_message_callback']['EXC']

    def catches_all_exceptions(e):
        if e not in ('Exception', 'BaseException'):
            raise Refuse(f'exception clause `except {e}`: the model assumes every Exception of the parser / callback is caught '
                         '(a narrower clause lets the rest escape into the reader task)')
        return 'true'
    # ---- which dispatcher reads which connection
    if body_texts(find_func(find_class(tree, 'ServerConnection').body, 'deserialize_message')) != SERVER_DESERIALIZE:
        raise Refuse('ServerConnection.deserialize_message changed')
    if body_texts(find_func(find_class(tree, 'PeerConnection').body, 'deserialize_message')) != PEER_DESERIALIZE:
        raise Refuse('PeerConnection.deserialize_message changed')
    out = ['(* GENERATED by /verif/translate/tr_c02conn.py from src/aioslsk/network/connection.py -- do not edit; regenerated on every run *)\n'
           'From Coq Require Import ZArith List Bool.\nFrom Slsk Require Import C01.Types.\n\n',
           f'Definition CONN_HDR_OBF : nat := {consts["HEADER_SIZE_OBFUSCATED"]}.      (* obfuscation.KEY_SIZE + struct.calcsize(\'I\') *)\n',
           f'Definition CONN_HDR_PLAIN : nat := {consts["HEADER_SIZE_UNOBFUSCATED"]}.    (* struct.calcsize(\'I\') *)\n',
           f'Definition CONN_LEN_WIDTH : nat := {prim_width}.    (* {rm["PRIM"]}.deserialize({rm["OFF"]}, message_len_buf) *)\n',
           f'Definition CONN_LEN_OFFSET : nat := {int(rm["OFF"])}.\n\n',
           '(* shape decisions (see translate/tr_c02conn.py): true = the function is exactly the accepted shape *)\n',
           f'Definition decode_wraps_every_exception : bool := {catches_all_exceptions(exc_dec)}.   (* except {exc_dec} in decode_message_data *)\n',
           f'Definition callback_guarded_by_exception : bool := {catches_all_exceptions(exc_cb)}.  (* except {exc_cb} in _perform_message_callback *)\n',
           'Definition frame_is_header_plus_body : bool := true.        (* _read_message returns header + message *)\n',
           'Definition one_frame_per_send_message : bool := true.       (* send_message: one encode_message_data, one _send *)\n',
           'Definition frame_written_in_one_piece : bool := true.       (* _send: ONE writer.write(data) before the first await (drain): frames of concurrent senders cannot interleave *)\n',
           'Definition frame_obfuscated_on_its_own : bool := true.      (* encode_message_data: obfuscation.encode(data) per frame, fresh key *)\n',
           'Definition queue_message_is_send_message : bool := true.    (* queue_message: task of send_message(message) *)\n',
           'Definition queue_messages_in_order_one_each : bool := true. (* [self.queue_message(m) for m in messages] *)\n\n',
           'Inductive conn_kind := KServer | KAwaitingInit | KPeer | KDistributed.\n',
           '(* ServerConnection / PeerConnection.deserialize_message *)\n',
           'Definition reader_table (k : conn_kind) : family * direction :=\n match k with\n | KServer => (FServer, DResponse)\n'
           ' | KAwaitingInit => (FPeerInit, DRequest)\n | KPeer => (FPeer, DRequest)\n | KDistributed => (FDistributed, DRequest)\n end.\n']
    return {'ConnGen.v': ''.join(out)}


def current_fingerprints(src: Path) -> dict:
    tree = ast.parse((src / 'aioslsk' / 'network' / 'connection.py').read_text())
    dc = find_class(tree, 'DataConnection')
    return {n: fingerprint(find_func(dc.body, n)) for n in FINGERPRINTS}


if __name__ == '__main__':
    import json
    import sys
    if len(sys.argv) > 1 and sys.argv[1] == '--helpers':
        for (rel, name), fp in helper_fingerprints(Path('/repo/src')).items():
            print(f"    ({rel!r}, {name!r}): {fp!r},")
    elif len(sys.argv) > 1 and sys.argv[1] == '--fingerprints':
        print(json.dumps(current_fingerprints(Path('/repo/src')), indent=1))
    else:
        print(translate(Path('/repo/src'))['ConnGen.v'])
