"""T2: transfer/state.py -> gen/TransGen.v  (fail-closed).

Emits
  * ``st``        the members of ``TransferState.State`` (with ``st_value``), in source order
  * ``op``        the eight public transition methods of the base class
  * ``effect``    the effect atoms a transition method may consist of
  * ``trans : st -> direction -> op -> option (list effect)``
                  ``None``  = the method is the base-class refusal (log + ``return False``)
                  ``Some l`` = the per-state method: atoms in source order, then ``return True``
  * ``redispatch_after_lock : bool``   dispatch discipline of ``_with_state_lock``:
                  false = the bound method of the state object on which the call was made runs after
                  the lock is obtained (today); true = the method is looked up on the transfer's
                  current state after the lock is obtained (accepted repaired shape)
  * ``lock_wraps_all_public : bool``   ``_wrap_lock`` wraps every public method, and both constructors
                  (``__init__`` and ``__setstate__``) call it

Anything outside the accepted syntax raises ``Refuse`` (reported as a broken tie, never guessed).
The bodies of helper functions that are *not* atoms themselves (``_remove_local_file``,
``_cancel_transfer_tasks``, ``Transfer.*`` methods) are shape-pinned here resp. hand-modelled in
C03/Model.v and tied by the correspondence check.
"""
from __future__ import annotations

import ast
from pathlib import Path


class Refuse(Exception):
    pass


def refuse(node, why):
    line = getattr(node, 'lineno', '?')
    txt = ast.unparse(node)[:160] if isinstance(node, ast.AST) else str(node)
    raise Refuse(f'state.py line {line}: {why}: {txt}')


OPS = [  # method name, Coq constructor, parameter list after self: (name, default literal)
    ('fail', 'OFail', [('reason', None)]),
    ('abort', 'OAbort', [('reason', None)]),
    ('queue', 'OQueue', [('remotely', False)]),
    ('initialize', 'OInitialize', []),
    ('complete', 'OComplete', []),
    ('incomplete', 'OIncomplete', []),
    ('start_transferring', 'OStart', []),
    ('pause', 'OPause', []),
]
OPNAMES = {o[0]: o for o in OPS}

SIMPLE_CALLS = {   # self.transfer.<m>()  -> atom
    'reset_time_vars': 'ResetTimeVars',
    'reset_progress_vars': 'ResetProgressVars',
    'reset_local_vars': 'ResetLocalVars',
    'set_start_time': 'SetStartTime',
    'set_complete_time': 'SetCompleteTime',
    'reset_queue_vars': 'ResetQueueVars',
}

EFFECTS = ['SetFailReason', 'ClearFailReason', 'SetAbortReason', 'ClearAbortReason', 'SetRemotelyQueued',
           'CancelTasks', 'RemoveLocalFile', 'ResetTimeVars', 'ResetProgressVars', 'ResetLocalVars',
           'SetStartTime', 'SetCompleteTime', 'ResetQueueVars']

# ---- pinned shapes (normalised through ast.unparse, docstrings and comments dropped) -------------

WRAPPER_CAPTURED = '''
async def wrapper(obj: 'TransferState', *args, **kwargs):
    async with obj.transfer._state_lock:
        result = await func(*args, **kwargs)
    return result
'''
WRAPPER_REDISPATCH = '''
async def wrapper(obj: 'TransferState', *args, **kwargs):
    async with obj.transfer._state_lock:
        state = obj.transfer.state
        method = getattr(type(state), func.__name__)
        result = await method(state, *args, **kwargs)
    return result
'''
REMOVE_LOCAL_FILE = '''
async def _remove_local_file(transfer: 'Transfer'):
    if not transfer.is_download():
        return
    if transfer.local_path:
        logger.info('removing file from filesystem : %s', transfer.local_path)
        try:
            if await asyncos.path.exists(transfer.local_path):
                await asyncos.remove(transfer.local_path)
        except OSError:
            logger.warning('failed to remove file during abort : %s', transfer.local_path)
        transfer.local_path = None
'''
BASE_HELPERS = {
    '__init__': '''
def __init__(self, transfer: 'Transfer'):
    self.transfer: 'Transfer' = transfer
    self._wrap_lock()
''',
    'init_from_state': '''
@classmethod
def init_from_state(cls, state: State, transfer: 'Transfer'):
    for subcls in cls.__subclasses__():
        if subcls.VALUE == state:
            return subcls(transfer)
    raise Exception(f'no state class for state : {state}')
''',
    '__setstate__': '''
def __setstate__(self, state):
    self.__dict__.update(state)
    self._wrap_lock()
''',
    '_wrap_lock': '''
def _wrap_lock(self):
    for (name, method) in inspect.getmembers(self, predicate=inspect.ismethod):
        if not name.startswith('_'):
            setattr(self, name, MethodType(_with_state_lock(method), self))
''',
    '_cancel_transfer_tasks': '''
async def _cancel_transfer_tasks(self):
    await asyncio.gather(*self.transfer.cancel_tasks(), return_exceptions=True)
''',
    '__repr__': None,   # free
}


def strip_doc(body):
    return [s for s in body if not (isinstance(s, ast.Expr) and isinstance(s.value, ast.Constant)
                                    and isinstance(s.value.value, str))]


def norm(node) -> str:
    """unparse without docstrings"""
    node = ast.parse(ast.unparse(node))

    class D(ast.NodeTransformer):
        def generic_visit(self, n):
            super().generic_visit(n)
            if hasattr(n, 'body') and isinstance(n.body, list):
                b = strip_doc(n.body)
                n.body = b or [ast.Pass()]
            return n
    return ast.unparse(D().visit(node)).strip()


def norm_text(txt: str) -> str:
    return norm(ast.parse(txt.strip()))


def is_self_transfer(e) -> bool:
    return (isinstance(e, ast.Attribute) and e.attr == 'transfer' and isinstance(e.value, ast.Name)
            and e.value.id == 'self')


def call_on_transfer(e):
    """self.transfer.<m>()  -> m, else None"""
    if (isinstance(e, ast.Call) and not e.args and not e.keywords and isinstance(e.func, ast.Attribute)
            and is_self_transfer(e.func.value)):
        return e.func.attr
    return None


class StateTr:
    def __init__(self, tree):
        self.tree = tree
        self.members = []        # [(NAME, value)]
        self.class_value = {}    # class name -> state NAME
        self.stop_inline = None

    # -- statements of a transition method -> list of atoms (strings of Coq), per direction
    def atoms(self, stmts, params, direction):
        out = []
        for s in stmts:
            out.extend(self.atom(s, params, direction))
        return out

    def atom(self, s, params, direction):
        # self.transfer.<field> = <param | None>
        if isinstance(s, ast.Assign):
            if len(s.targets) != 1:
                refuse(s, 'multiple assignment')
            t = s.targets[0]
            if not (isinstance(t, ast.Attribute) and is_self_transfer(t.value)):
                refuse(s, 'assignment target is not self.transfer.<field>')
            v = s.value
            if t.attr == 'fail_reason':
                if isinstance(v, ast.Name) and v.id == 'reason' and 'reason' in params:
                    return ['SetFailReason']
                if isinstance(v, ast.Constant) and v.value is None:
                    return ['ClearFailReason']
            elif t.attr == 'abort_reason':
                if isinstance(v, ast.Name) and v.id == 'reason' and 'reason' in params:
                    return ['SetAbortReason']
                if isinstance(v, ast.Constant) and v.value is None:
                    return ['ClearAbortReason']
            elif t.attr == 'remotely_queued':
                if isinstance(v, ast.Name) and v.id == 'remotely' and 'remotely' in params:
                    return ['SetRemotelyQueued']
            refuse(s, 'unrecognised field assignment')
        if isinstance(s, ast.Expr):
            e = s.value
            if isinstance(e, ast.Await):
                c = e.value
                if not isinstance(c, ast.Call):
                    refuse(s, 'await of a non-call')
                src = ast.unparse(c)
                if src == 'self._cancel_transfer_tasks()':
                    return ['CancelTasks']
                if src == 'self._stop_transfer()':
                    if self.stop_inline is None:
                        refuse(s, '_stop_transfer not translated')
                    return list(self.stop_inline)
                if src == '_remove_local_file(self.transfer)':
                    return ['RemoveLocalFile']
                # await self.transfer.transition(XState(self.transfer))
                if (isinstance(c.func, ast.Attribute) and c.func.attr == 'transition' and is_self_transfer(c.func.value)
                        and len(c.args) == 1 and not c.keywords):
                    a = c.args[0]
                    if (isinstance(a, ast.Call) and isinstance(a.func, ast.Name) and len(a.args) == 1 and not a.keywords
                            and is_self_transfer(a.args[0])):
                        cls = a.func.id
                        if cls not in self.class_value:
                            refuse(s, f'transition to unknown state class {cls}')
                        return [f'Transition {self.class_value[cls]}']
                refuse(s, 'unrecognised awaited call')
            m = call_on_transfer(e)
            if m in SIMPLE_CALLS:
                return [SIMPLE_CALLS[m]]
            refuse(s, 'unrecognised expression statement')
        if isinstance(s, ast.If):
            m = call_on_transfer(s.test)
            if m not in ('is_upload', 'is_download'):
                refuse(s, 'condition is not self.transfer.is_upload()/is_download()')
            taken = (m == 'is_upload') == (direction == 'Upload')
            branch = s.body if taken else s.orelse
            return self.atoms(strip_doc(branch), params, direction)
        if isinstance(s, ast.Pass):
            return []
        refuse(s, 'statement outside the accepted subset')

    def method(self, fn, direction):
        """transition method of a state subclass -> list of atoms"""
        name, _, plist = OPNAMES[fn.name]
        self.check_sig(fn, plist)
        body = strip_doc(fn.body)
        if not body or not (isinstance(body[-1], ast.Return) and isinstance(body[-1].value, ast.Constant)
                            and body[-1].value.value is True):
            refuse(fn, 'transition method must end with `return True`')
        for n in ast.walk(ast.Module(body=body[:-1], type_ignores=[])):
            if isinstance(n, (ast.Return, ast.While, ast.For, ast.Try, ast.With, ast.AsyncWith, ast.AsyncFor, ast.Raise,
                              ast.Yield, ast.Lambda)):
                refuse(n, 'control flow outside the accepted subset')
        return self.atoms(body[:-1], [p for p, _ in plist], direction)

    def check_sig(self, fn, plist):
        if not isinstance(fn, ast.AsyncFunctionDef):
            refuse(fn, 'transition method is not a coroutine function')
        if fn.decorator_list:
            refuse(fn, 'decorated transition method')
        a = fn.args
        if a.vararg or a.kwarg or a.kwonlyargs or a.posonlyargs:
            refuse(fn, 'unexpected parameters')
        names = [x.arg for x in a.args]
        if names != ['self'] + [p for p, _ in plist]:
            refuse(fn, f'parameters {names}')
        defaults = [d.value if isinstance(d, ast.Constant) else '?' for d in a.defaults]
        if defaults != [d for _, d in plist]:
            refuse(fn, f'defaults {defaults}')

    def base_refusal(self, fn):
        name, _, plist = OPNAMES[fn.name]
        self.check_sig(fn, plist)
        body = strip_doc(fn.body)
        if len(body) < 2:
            refuse(fn, 'base method shape')
        *pre, logc, ret = body
        for s in pre:   # local assignment without effects, used for the log text only
            ok = (isinstance(s, ast.Assign) and len(s.targets) == 1 and isinstance(s.targets[0], ast.Name))
            if ok:
                for n in ast.walk(s.value):
                    if isinstance(n, ast.Call) and ast.unparse(n) not in ('self.transfer.is_upload()', 'self.transfer.is_download()'):
                        ok = False
                    if isinstance(n, (ast.Await, ast.NamedExpr)):
                        ok = False
            if not ok:
                refuse(s, 'base method: statement with possible effect')
        if not (isinstance(logc, ast.Expr) and isinstance(logc.value, ast.Call) and isinstance(logc.value.func, ast.Attribute)
                and isinstance(logc.value.func.value, ast.Name) and logc.value.func.value.id == 'logger'):
            refuse(logc, 'base method: expected a logger call')
        for n in ast.walk(logc.value):
            if isinstance(n, ast.Call) and n is not logc.value:
                refuse(logc, 'base method: call inside the log statement')
        if not (isinstance(ret, ast.Return) and isinstance(ret.value, ast.Constant) and ret.value.value is False):
            refuse(ret, 'base method must `return False`')


def translate(src: Path) -> dict:
    path = src / 'aioslsk' / 'transfer' / 'state.py'
    tree = ast.parse(path.read_text())
    tr = StateTr(tree)

    base = None
    subclasses = []
    wrapper_fn = None
    for n in tree.body:
        if isinstance(n, (ast.Import, ast.ImportFrom)):
            continue
        if isinstance(n, ast.Expr) and isinstance(n.value, ast.Constant):
            continue
        if isinstance(n, ast.If) and ast.unparse(n.test) == 'TYPE_CHECKING':
            continue
        if isinstance(n, ast.Assign) and ast.unparse(n) == 'logger = logging.getLogger(__name__)':
            continue
        if isinstance(n, ast.FunctionDef) and n.name == '_with_state_lock':
            wrapper_fn = n
            continue
        if isinstance(n, ast.AsyncFunctionDef) and n.name == '_remove_local_file':
            if norm(n) != norm_text(REMOVE_LOCAL_FILE):
                refuse(n, '_remove_local_file changed (hand model of RemoveLocalFile no longer applies)')
            continue
        if isinstance(n, ast.ClassDef) and n.name == 'TransferStateListener':
            continue
        if isinstance(n, ast.ClassDef) and n.name == 'TransferState':
            base = n
            continue
        if isinstance(n, ast.ClassDef):
            subclasses.append(n)
            continue
        refuse(n, 'unexpected module-level statement')
    if base is None or wrapper_fn is None:
        raise Refuse('TransferState / _with_state_lock not found')

    # ---- _with_state_lock ------------------------------------------------------------------
    wb = strip_doc(wrapper_fn.body)
    if not (len(wb) == 2 and isinstance(wb[0], ast.AsyncFunctionDef) and wb[0].name == 'wrapper'
            and ast.unparse(wb[1]) == 'return wrapper' and [a.arg for a in wrapper_fn.args.args] == ['func']
            and not wrapper_fn.decorator_list):
        refuse(wrapper_fn, '_with_state_lock shape')
    wtxt = norm(wb[0])
    if wtxt == norm_text(WRAPPER_CAPTURED):
        redispatch = False
    elif wtxt == norm_text(WRAPPER_REDISPATCH):
        redispatch = True
    else:
        refuse(wb[0], '_with_state_lock.wrapper is neither of the two accepted shapes')

    # ---- base class ------------------------------------------------------------------------
    aliases = {}
    value_default = None
    base_ops = set()
    for n in strip_doc(base.body):
        if isinstance(n, ast.ClassDef) and n.name == 'State':
            if [ast.unparse(b) for b in n.bases] != ['Enum']:
                refuse(n, 'State bases')
            for m in strip_doc(n.body):
                if not (isinstance(m, ast.Assign) and len(m.targets) == 1 and isinstance(m.targets[0], ast.Name)):
                    refuse(m, 'State member')
                try:
                    val = ast.literal_eval(m.value)
                except Exception:
                    refuse(m, 'State member value')
                if not isinstance(val, int) or isinstance(val, bool):
                    refuse(m, 'State member value is not an int')
                tr.members.append((m.targets[0].id, val))
            continue
        if isinstance(n, ast.Assign) and len(n.targets) == 1 and isinstance(n.targets[0], ast.Name):
            tgt = n.targets[0].id
            v = ast.unparse(n.value)
            if tgt == 'VALUE':
                value_default = v
            elif v == f'State.{tgt}':
                aliases[tgt] = tgt
            else:
                refuse(n, 'base class assignment')
            continue
        if isinstance(n, (ast.FunctionDef, ast.AsyncFunctionDef)):
            if n.name in OPNAMES:
                base_ops.add(n.name)
                continue   # checked below once the class table is known
            if n.name == '_stop_transfer':
                continue
            if n.name in BASE_HELPERS:
                pin = BASE_HELPERS[n.name]
                if pin is not None and norm(n) != norm_text(pin):
                    refuse(n, f'TransferState.{n.name} changed')
                continue
            refuse(n, 'unexpected method in TransferState')
        refuse(n, 'unexpected statement in TransferState')
    names = [m for m, _ in tr.members]
    if len(set(names)) != len(names) or len(set(v for _, v in tr.members)) != len(names) or not names:
        raise Refuse('State members not unique')
    if sorted(aliases) != sorted(names):
        raise Refuse(f'State aliases {sorted(aliases)} differ from members {sorted(names)}')
    if value_default != 'UNSET' or 'UNSET' not in names:
        raise Refuse('TransferState.VALUE default')
    if base_ops != set(OPNAMES):
        raise Refuse(f'base class transition methods {sorted(base_ops)}')
    for need in ('__init__', '__setstate__', '_wrap_lock', '_cancel_transfer_tasks', 'init_from_state'):
        if not any(isinstance(n, (ast.FunctionDef, ast.AsyncFunctionDef)) and n.name == need for n in base.body):
            raise Refuse(f'TransferState.{need} missing')

    # ---- subclass table --------------------------------------------------------------------
    for c in subclasses:
        if [ast.unparse(b) for b in c.bases] != ['TransferState'] or c.decorator_list or c.keywords:
            refuse(c, 'state class bases')
        val = None
        for n in strip_doc(c.body):
            if isinstance(n, ast.Assign) and ast.unparse(n.targets[0]) == 'VALUE' and len(n.targets) == 1:
                v = ast.unparse(n.value)
                if not v.startswith('TransferState.') or v.split('.', 1)[1] not in names:
                    refuse(n, 'VALUE of state class')
                val = v.split('.', 1)[1]
        if val is None:
            refuse(c, 'state class without VALUE')
        if val in tr.class_value.values():
            refuse(c, f'two state classes for {val}')
        tr.class_value[c.name] = val

    # base refusals and _stop_transfer (inlined into atoms)
    for n in strip_doc(base.body):
        if isinstance(n, (ast.FunctionDef, ast.AsyncFunctionDef)) and n.name in OPNAMES:
            tr.base_refusal(n)
        if isinstance(n, (ast.FunctionDef, ast.AsyncFunctionDef)) and n.name == '_stop_transfer':
            if not isinstance(n, ast.AsyncFunctionDef) or [a.arg for a in n.args.args] != ['self']:
                refuse(n, '_stop_transfer signature')
            tr.stop_inline = []
            tr.stop_inline = tr.atoms(strip_doc(n.body), [], 'Upload')
            if tr.stop_inline != tr.atoms(strip_doc(n.body), [], 'Download'):
                refuse(n, '_stop_transfer depends on the direction')

    # ---- per-state methods -----------------------------------------------------------------
    table = {}   # (STATE, dir, op ctor) -> list of atoms
    for c in subclasses:
        st = tr.class_value[c.name]
        for n in strip_doc(c.body):
            if isinstance(n, ast.Assign):
                continue
            if isinstance(n, (ast.FunctionDef, ast.AsyncFunctionDef)):
                if n.name not in OPNAMES:
                    refuse(n, f'unexpected method {c.name}.{n.name}')
                for d in ('Upload', 'Download'):
                    key = (st, d, OPNAMES[n.name][1])
                    if key in table:
                        refuse(n, 'method defined twice')
                    table[key] = tr.method(n, d)
                continue
            refuse(n, f'unexpected statement in {c.name}')

    # ---- output ------------------------------------------------------------------------------
    out = ['(* GENERATED by /verif/translate/tr_state.py from src/aioslsk/transfer/state.py -- do not edit *)\n',
           'From Coq Require Import ZArith List Bool.\nImport ListNotations.\n\n']
    out.append('Inductive st : Type := ' + ' | '.join(names) + '.\n')
    out.append('Definition all_st : list st := [' + '; '.join(names) + '].\n')
    out.append('Definition st_value (s : st) : Z := match s with ' +
               ' '.join(f'| {n} => ({v})%Z' for n, v in tr.members) + ' end.\n')
    out.append('(* states for which a TransferState subclass exists (init_from_state raises for the others) *)\n')
    out.append('Definition has_class (s : st) : bool := match s with ' +
               ' '.join(f'| {n} => {"true" if n in tr.class_value.values() else "false"}' for n in names) + ' end.\n\n')
    out.append('Inductive direction : Type := Upload | Download.\n')
    out.append('Inductive op : Type := ' + ' | '.join(o[1] for o in OPS) + '.\n')
    out.append('Definition all_op : list op := [' + '; '.join(o[1] for o in OPS) + '].\n\n')
    out.append('(* SetFailReason/SetAbortReason take the `reason` argument of the call, SetRemotelyQueued its\n'
               '   `remotely` argument; Clear* assign None.  _stop_transfer is inlined: '
               f'[{"; ".join(tr.stop_inline or [])}] *)\n')
    out.append('Inductive effect : Type := ' + ' | '.join(EFFECTS) + ' | Transition (s : st).\n\n')
    out.append('Definition trans (s : st) (d : direction) (o : op) : option (list effect) :=\n  match s, d, o with\n')
    for (s, d, o), atoms in sorted(table.items(), key=lambda kv: (names.index(kv[0][0]), kv[0][2], kv[0][1])):
        out.append(f'  | {s}, {d}, {o} => Some [{"; ".join(atoms)}]\n')
    out.append('  | _, _, _ => None\n  end.\n\n')
    out.append(f'Definition redispatch_after_lock : bool := {"true" if redispatch else "false"}.\n')
    out.append('Definition lock_wraps_all_public : bool := true.\n')
    return {'TransGen.v': ''.join(out)}


if __name__ == '__main__':
    import sys
    print(translate(Path(sys.argv[1] if len(sys.argv) > 1 else '/repo/src'))['TransGen.v'])
