"""T3: decision structure of the user tracking worker (user/manager.py) -> gen/TrackGen.v (used by coq/theories/C15).

Translated (fail-closed):
* ``TrackedUser.add_flag`` / ``remove_flag``                      -> ``apply_add`` / ``apply_rem`` (flag arithmetic)
* ``is_retry = request.retry`` (or the older ``request.flag == TrackingFlag(0)``) -> ``is_retry_req flag marked``;
  ``TrackingRequest.retry: bool = False`` and the unmarked construction in ``track_user`` / ``untrack_user`` are checked
* the if / elif structure of ``UserTrackingManager._tracking_task`` after the dequeue: which of
  {cancel retry (awaited or not), RemoveUser, set UNTRACKED, exit (dropping the registry entry or not), AddUser attempt}
  happens, in source order, as a function of (previous flags, new flags, is_retry, queue empty) -> ``worker_decide``
* the shape of the attempt branch (retry_timeout truthy -> RETRY_PENDING with that timeout, else TRACKED) is checked

* ``TransferManager.manage_user_tracking`` (per user: which track / untrack calls one management cycle makes), that
  ``_management_job`` runs it unconditionally and that a new session requests a cycle                    -> ``cycle_calls``

Shape-pinned (``FP_*``, pinned values are theorems in C15/Props.v): ``track_user``, ``untrack_user``,
``_get_tracked_user_object``, ``_on_tracking_task_done``, ``_on_state_changed``, ``stop``, ``_request_untracking``,
``_set_tracking_state`` of UserTrackingManager and ``utils.cancel_task``.
"""
from __future__ import annotations

import ast
import hashlib
from pathlib import Path

from .pyexpr import Refuse, find_class, find_func

TESTS = {
    'tracked_user.flags == TrackingFlag(0)': 'Nat.eqb new 0',
    'tracked_user.flags != TrackingFlag(0)': 'negb (Nat.eqb new 0)',
    'previous_flags != TrackingFlag(0)': 'negb (Nat.eqb prev 0)',
    'previous_flags == TrackingFlag(0)': 'Nat.eqb prev 0',
    'is_retry': 'retry',
    'tracked_user.queue.empty()': 'qempty',
}


def nodoc(body):
    return [s for s in body if not (isinstance(s, ast.Expr) and isinstance(s.value, ast.Constant) and isinstance(s.value.value, str))]


def test(e) -> str:
    if isinstance(e, ast.BoolOp):
        op = ' && ' if isinstance(e.op, ast.And) else ' || '
        return '(' + op.join(test(v) for v in e.values) + ')'
    if isinstance(e, ast.UnaryOp) and isinstance(e.op, ast.Not):
        return f'negb ({test(e.operand)})'
    txt = ast.unparse(e)
    if txt in TESTS:
        return TESTS[txt]
    raise Refuse(f'line {getattr(e, "lineno", "?")}: test not in the accepted vocabulary: {txt}')


def norm(s) -> str:
    return ' '.join(ast.unparse(s).split())


ATTEMPT_SHAPE = ("(retry_timeout, retry_reason, response) = await self._request_tracking(tracked_user)",)


def actions(stmts) -> str:
    """Gallina term (list wact) for a statement list of the worker's decision part."""
    if not stmts:
        return '[]'
    s, rest = stmts[0], stmts[1:]
    txt = norm(s)
    R = None if (txt.startswith('retry_timeout, retry_reason, response = ') or txt.startswith('if self._tracked_users.get(')) else actions(rest)
    if txt == 'if tracked_user.retry_task: tracked_user.retry_task.cancel()':
        return f'(WCancelRetry :: {R})'
    if txt == 'await cancel_task(tracked_user.retry_task)':
        return f'(WCancelRetryAwait :: {R})'
    if txt == 'await self._request_untracking(tracked_user)':
        return f'(WRemoveUser :: {R})'
    if txt == 'await self._set_tracking_state(tracked_user, TrackingState.UNTRACKED)':
        return f'(WSetUntracked :: {R})'
    if txt == 'request.handled.set()':
        return R
    if isinstance(s, ast.Return) and s.value is None:
        if rest:
            raise Refuse(f'line {s.lineno}: statements after return')
        return '[WExit]'
    if txt == 'if self._tracked_users.get(tracked_user.user.name) is tracked_user: del self._tracked_users[tracked_user.user.name]':
        if not (len(rest) == 1 and isinstance(rest[0], ast.Return)):
            raise Refuse(f'line {s.lineno}: the registry entry is dropped somewhere else than right before the return')
        return '[WExitDrop]'
    if txt.startswith('retry_timeout, retry_reason, response = await self._request_tracking(tracked_user)'):
        # the attempt: the following statement must be the RETRY_PENDING / TRACKED decision
        if not (len(rest) == 1 and isinstance(rest[0], ast.If) and norm(rest[0].test) == 'retry_timeout'):
            raise Refuse(f'line {s.lineno}: attempt branch changed')
        yes = [norm(x) for x in rest[0].body if not norm(x).startswith('logger.debug(')]
        no = [norm(x) for x in rest[0].orelse]
        if yes != ['await self._set_tracking_state(tracked_user, TrackingState.RETRY_PENDING, message=response, retry_timeout=retry_timeout)'] or \
                no != ['await self._set_tracking_state(tracked_user, TrackingState.TRACKED, message=response)']:
            raise Refuse(f'line {s.lineno}: state decision after the attempt changed')
        return '[WAttempt]'
    if isinstance(s, ast.If):
        return f'((if {test(s.test)} then {actions(s.body)} else {actions(s.orelse)}) ++ {R})'
    raise Refuse(f'line {s.lineno}: statement not accepted in _tracking_task: {txt[:100]}')


def fingerprint_deep(node) -> int:
    """like fingerprint, with the docstrings of nested functions / classes removed as well"""
    n2 = ast.parse(ast.unparse(node)).body[0]
    for x in ast.walk(n2):
        if isinstance(x, (ast.FunctionDef, ast.AsyncFunctionDef, ast.ClassDef)):
            x.body = nodoc(x.body) or [ast.Pass()]
    return int(hashlib.sha256(ast.dump(n2, annotate_fields=True, include_attributes=False).encode()).hexdigest()[:15], 16)


def fingerprint(fn) -> int:
    fn2 = ast.parse(ast.unparse(fn)).body[0]
    fn2.body = nodoc(fn2.body) or [ast.Pass()]
    return int(hashlib.sha256(ast.dump(fn2, annotate_fields=True, include_attributes=False).encode()).hexdigest()[:15], 16)


def translate(src: Path) -> dict:
    base = src / 'aioslsk'
    um = ast.parse((base / 'user' / 'manager.py').read_text())
    tu = find_class(um, 'TrackedUser')
    utm = find_class(um, 'UserTrackingManager')

    def one_stmt(fn):
        b = nodoc(fn.body)
        if len(b) != 1:
            raise Refuse(f'{fn.name}: expected a single statement')
        return norm(b[0])
    ops = {'self.flags |= flag': 'Nat.lor fl f', 'self.flags &= ~flag': 'Nat.ldiff fl f', 'self.flags ^= flag': 'Nat.lxor fl f',
           'self.flags &= flag': 'Nat.land fl f', 'self.flags = flag': 'f'}
    add, rem = one_stmt(find_func(tu.body, 'add_flag')), one_stmt(find_func(tu.body, 'remove_flag'))
    if add not in ops or rem not in ops:
        raise Refuse(f'add_flag / remove_flag outside the accepted flag arithmetic: {add!r} / {rem!r}')

    tt = find_func(utm.body, '_tracking_task')
    b = nodoc(tt.body)
    if not (len(b) == 1 and isinstance(b[0], ast.While) and norm(b[0].test) == 'True' and not b[0].orelse):
        raise Refuse('_tracking_task: not a single `while True` loop')
    w = nodoc(b[0].body)
    head = [norm(x) for x in w[:4]]
    if head[:3] != ['request = await tracked_user.queue.get()', 'previous_flags = tracked_user.flags', 'request.operation(request.flag)']:
        raise Refuse('_tracking_task: dequeue prologue changed: ' + ' ; '.join(head[:3]))
    if not head[3].startswith('is_retry = '):
        raise Refuse('_tracking_task: is_retry assignment changed')
    retry_expr = norm(w[3].value)
    retry_tab = {'request.flag == TrackingFlag(0)': 'Nat.eqb flag 0', 'request.retry': 'marked'}
    # TrackingRequest: the retry mark exists, is a bool and defaults to False (requests made by callers are unmarked)
    trq = find_class(um, 'TrackingRequest')
    fields = {}
    for st_ in nodoc(trq.body):
        if isinstance(st_, ast.AnnAssign) and isinstance(st_.target, ast.Name):
            fields[st_.target.id] = (ast.unparse(st_.annotation), None if st_.value is None else ast.unparse(st_.value))
        else:
            raise Refuse('TrackingRequest: unexpected statement ' + norm(st_)[:80])
    if retry_expr == 'request.retry' and fields.get('retry') != ('bool', 'False'):
        raise Refuse(f'TrackingRequest.retry is not `bool = False`: {fields.get("retry")}')
    if list(fields)[:2] != ['operation', 'flag']:
        raise Refuse(f'TrackingRequest fields changed: {list(fields)}')
    for fn_name, op in (('track_user', 'add_flag'), ('untrack_user', 'remove_flag')):
        made = [norm(x) for x in ast.walk(find_func(utm.body, fn_name)) if isinstance(x, ast.Call) and norm(x.func) == 'TrackingRequest']
        if made != [f'TrackingRequest(tracked_user.{op}, flag)']:
            raise Refuse(f'{fn_name}: request construction changed: {made}')
    if retry_expr not in retry_tab:
        raise Refuse(f'_tracking_task: is_retry = {retry_expr}')
    decide = actions(w[4:])

    # ---- TransferManager.manage_user_tracking (the source of the TRANSFER reason) for one user
    tm_tree = ast.parse((base / 'transfer' / 'manager.py').read_text())
    tmc = find_class(tm_tree, 'TransferManager')
    mut = nodoc(find_func(tmc.body, 'manage_user_tracking').body)
    want_sets = ['unfinished_users = set((transfer.username for transfer in self.get_unfinished_transfers()))',
                 'finished_users = set((transfer.username for transfer in self.get_finished_transfers()))']
    if len(mut) != 4 or [norm(x) for x in mut[:2]] != want_sets:
        raise Refuse('manage_user_tracking: statement structure changed: ' + ' ; '.join(norm(x)[:70] for x in mut))
    member = {'unfinished_users': 'unf', 'finished_users - unfinished_users': '(fin && negb unf)', 'finished_users': 'fin',
              'unfinished_users - finished_users': '(unf && negb fin)'}
    mm = ast.parse((base / 'user' / 'model.py').read_text())
    names = [x.targets[0].id for x in nodoc(find_class(mm, 'TrackingFlag').body) if isinstance(x, ast.Assign)]
    calls = []
    for loop in mut[2:]:
        if not (isinstance(loop, ast.For) and norm(loop.target) == 'username' and not loop.orelse and len(loop.body) == 1):
            raise Refuse('manage_user_tracking: loop shape changed')
        it = norm(loop.iter)
        if it not in member:
            raise Refuse(f'manage_user_tracking: iterates over {it}')
        b0 = norm(loop.body[0])
        ok = False
        for op, tag in (('track_user', 'true'), ('untrack_user', 'false')):
            for i, nm in enumerate(names):
                if b0 == f'await self._user_manager.{op}(username, TrackingFlag.{nm})':
                    calls.append(f'(if {member[it]} then [({tag}, {1 << i})] else [])')
                    ok = True
        if not ok:
            raise Refuse(f'manage_user_tracking: loop body changed: {b0}')
    mj = [norm(x) for x in ast.walk(find_func(tmc.body, '_management_job')) if isinstance(x, ast.Await)]
    if 'await self.manage_user_tracking()' not in mj:
        raise Refuse('_management_job no longer runs manage_user_tracking')
    mjf = find_func(tmc.body, '_management_job')
    if not any(norm(x) == 'await self.manage_user_tracking()' for x in nodoc(mjf.body)):
        raise Refuse('_management_job: manage_user_tracking is not an unconditional top-level statement')
    si = [norm(x) for x in nodoc(find_func(tmc.body, '_on_session_initialized').body)]
    if si != ['self.request_management_cycle(_RequestFlag.TRANSFER_CHANGE)']:
        raise Refuse('_on_session_initialized of the transfer manager changed: ' + ' ; '.join(si))

    ut = ast.parse((base / 'utils.py').read_text())
    out = ['(* GENERATED by /verif/translate/tr_tracking.py from src/aioslsk/user/manager.py -- do not edit *)\n',
           'From Coq Require Import ZArith List Bool Arith.\nImport ListNotations.\n\n',
           '(* TrackedUser.add_flag / remove_flag *)\n',
           f'Definition apply_add (fl f : nat) : nat := {ops[add]}.\nDefinition apply_rem (fl f : nat) : nat := {ops[rem]}.\n\n',
           '(* is_retry = ... *)\n', f'Definition is_retry_req (flag : nat) (marked : bool) : bool := {retry_tab[retry_expr]}.\n\n',
           '(* what the worker does with a dequeued request, in source order *)\n',
           'Inductive wact := WCancelRetry | WCancelRetryAwait | WRemoveUser | WSetUntracked | WExitDrop | WExit | WAttempt.\n',
           f'Definition worker_decide (prev new : nat) (retry qempty : bool) : list wact :=\n  {decide}.\n\n',
           '(* TransferManager.manage_user_tracking seen from one user: the calls (true = track_user, false = untrack_user; flag) of one\n'
           '   management cycle when the user has an unfinished transfer (unf) / a finalized one (fin); the cycle runs in every\n'
           '   _management_job and is requested when a session is initialized (both checked by the translator) *)\n',
           'Definition cycle_calls (unf fin : bool) : list (bool * nat) :=\n  ' + ' ++ '.join(calls) + '.\n\n',
           '(* fingerprints of the functions the model abstracts by hand *)\n']
    for name in ('track_user', 'untrack_user', '_get_tracked_user_object', '_on_tracking_task_done', '_on_state_changed', 'stop',
                 '_request_untracking', '_set_tracking_state'):
        out.append(f'Definition FP_{name.strip("_")} : N := {fingerprint(find_func(utm.body, name))}%N.\n')
    out.append(f'Definition FP_cancel_task : N := {fingerprint(find_func(ut.body, "cancel_task"))}%N.\n')
    # ---- helpers the tracking code relies on (phase 8)
    ev = ast.parse((base / 'events.py').read_text())
    bus = find_class(ev, 'EventBus')
    tk = ast.parse((base / 'tasks.py').read_text())
    nw = ast.parse((base / 'network' / 'network.py').read_text())
    msgs = ast.parse((base / 'protocol' / 'messages.py').read_text())
    tmod = ast.parse((base / 'transfer' / 'model.py').read_text())
    ucls = find_class(um, 'UserManager')
    # TrackingState values the harness / model codes (0 untracked, 1 tracked, 2 retry_pending)
    ts = find_class(mm, 'TrackingState')
    tsv = [(x.targets[0].id, x.value.value) for x in nodoc(ts.body) if isinstance(x, ast.Assign) and isinstance(x.value, ast.Constant)]
    if tsv != [('UNTRACKED', 'untracked'), ('TRACKED', 'tracked'), ('RETRY_PENDING', 'retry_pending')]:
        raise Refuse(f'TrackingState members changed: {tsv}')
    # Transfer.is_finalized: the finalized states (ground truth of "unfinished transfer" in the glue scenarios)
    fin = find_func(find_class(tmod, 'Transfer').body, 'is_finalized')
    fin_states = sorted(x.attr for x in ast.walk(fin) if isinstance(x, ast.Attribute) and isinstance(x.value, ast.Name) and x.value.id == 'TransferState')
    if fin_states != ['ABORTED', 'COMPLETE', 'FAILED']:
        raise Refuse(f'Transfer.is_finalized: finalized states changed: {fin_states}')
    out.append('\n(* helpers (phase 8): TrackingState members and the finalized transfer states are checked by the translator; pinned: *)\n')
    helpers = [('EventBus_emit', find_func(bus.body, 'emit')), ('EventBus_register', find_func(bus.body, 'register')),
               ('EventBus_get_listeners_for_event', find_func(bus.body, '_get_listeners_for_event')),
               ('BackgroundTask', find_class(tk, 'BackgroundTask')),
               ('Network_send_server_messages', find_func(find_class(nw, 'Network').body, 'send_server_messages')),
               ('UserManager_track_user', find_func(ucls.body, 'track_user')), ('UserManager_untrack_user', find_func(ucls.body, 'untrack_user')),
               ('UserManager_get_user_object', find_func(ucls.body, 'get_user_object')),
               ('UserManager_get_tracking_flags', find_func(ucls.body, 'get_tracking_flags')),
               ('UserManager_get_tracking_state', find_func(ucls.body, 'get_tracking_state')),
               ('UTM_init', find_func(utm.body, '__init__')), ('UTM_register_listeners', find_func(utm.body, 'register_listeners')),
               ('UTM_get_tracking_flags', find_func(utm.body, 'get_tracking_flags')), ('UTM_get_tracking_state', find_func(utm.body, 'get_tracking_state')),
               ('UTM_request_tracking', find_func(utm.body, '_request_tracking')),
               ('TrackedUser', tu), ('AddUser', find_class(msgs, 'AddUser')), ('RemoveUser', find_class(msgs, 'RemoveUser')),
               ('TM_get_unfinished_transfers', find_func(tmc.body, 'get_unfinished_transfers')),
               ('TM_get_finished_transfers', find_func(tmc.body, 'get_finished_transfers')),
               ('TM_request_management_cycle', find_func(tmc.body, 'request_management_cycle')),
               ('Transfer_is_finalized', fin)]
    for nm, node in helpers:
        out.append(f'Definition FPH_{nm} : N := {fingerprint_deep(node)}%N.\n')
    return {'TrackGen.v': ''.join(out)}


if __name__ == '__main__':
    import sys
    print(translate(Path(sys.argv[1] if len(sys.argv) > 1 else '/repo/src'))['TrackGen.v'])
