"""T3 for C04: the straight-line decisions of a file transfer -> gen/C04Gen.v.

Read with `ast` (no import of the code), fail-closed: every function must have exactly the statement
shape listed here; the operator / constant that matters is copied into the generated text, so a
change of it changes the statements proved in theories/C04.

  network/connection.py  PeerConnection.receive_file   loop test  `while bytes_received < filesize`      -> recv_more
  transfer/model.py      Transfer.is_transfered        `self.filesize == self.bytes_transfered`          -> is_transfered_b
                         Transfer._transfer_progress_callback  `self.bytes_transfered += len(data)`        -> progress_add
  transfer/manager.py    _calculate_offset             size of the local file (getsize), 0 on error       -> (shape only)
                         _initialize_download          offset = that; counter := offset; uint64 on wire   -> offset_width
                         _download_file                open mode 'ab'; receive filesize - bytes_transfered -> download_append, recv_size
                         _upload_file                  open 'rb'; seek(bytes_transfered); send_file       -> upload_seek
  (phase 4)
  network/connection.py  receive_transfer_ticket/_offset   readexactly(calcsize('I'/'Q')) + uint32/uint64  -> ticket_width, offset_read_width, offset_read_exact
                         receive_until_eof                 read(-1) without timeout                          -> eof_wait_bounded
  transfer/manager.py    _initialize_download              no size -> refused before any state change; offset send failure -> which state;
                                                           order file connection -> offset -> data            -> dl_nosize_state, dl_offset_fail_state
                         _download_file                    handler table: ConnectionReadError -> which state; else: disconnect, is_transfered ? a : b
                                                                                                              -> dl_read_error_state, dl_done_state, dl_done_closes
                         _initialize_upload                order ticket -> offset -> data; offset read failure -> which state
                                                                                                              -> ticket_send_width, ul_offset_fail_state
                         _upload_file                      handler table: (OSError[, ValueError]) / ConnectionWriteError (+PeerUploadFailed) / else: wait EOF, is_transfered ? a : b
                                                                                                              -> ul_seek_error_handled, ul_file_error_state, ul_write_error_state,
                                                                                                                 ul_write_error_msg, ul_waits_eof, ul_done_state
  Fingerprinted (normalised source must equal translate/pins_c04.json; any edit is a broken tie):
  see PINNED below.  `python -m translate.tr_c04 --repin [src]` rewrites the pins from the given tree.
"""
import json
import ast
from pathlib import Path


class Refuse(Exception):
    pass


def _cls(tree, name):
    for n in tree.body:
        if isinstance(n, ast.ClassDef) and n.name == name:
            return n
    raise Refuse(f'class {name} not found')


def _fn(body, name):
    for n in body:
        if isinstance(n, (ast.FunctionDef, ast.AsyncFunctionDef)) and n.name == name:
            return n
    raise Refuse(f'function {name} not found')


def _body(fn):
    """statements without the docstring"""
    b = list(fn.body)
    if b and isinstance(b[0], ast.Expr) and isinstance(b[0].value, ast.Constant) and isinstance(b[0].value.value, str):
        b = b[1:]
    return b


def _u(node):
    return ast.unparse(node)


def _expect(stmts, expected, where):
    got = [_u(s) for s in stmts]
    if got != expected:
        raise Refuse(f'{where}: statements changed:\n got      {got}\n expected {expected}')


CMP = {ast.Lt: 'Z.ltb', ast.LtE: 'Z.leb', ast.Gt: 'Z.gtb', ast.GtE: 'Z.geb', ast.Eq: 'Z.eqb'}


def _cmp(node, left, right, where):
    if not (isinstance(node, ast.Compare) and len(node.ops) == 1 and _u(node.left) == left and _u(node.comparators[0]) == right):
        raise Refuse(f'{where}: comparison shape changed: {_u(node)}')
    op = type(node.ops[0])
    if op not in CMP:
        raise Refuse(f'{where}: operator {op.__name__}')
    return CMP[op]


PINS = Path(__file__).with_name('pins_c04.json')
PINNED = {
    'connection:DataConnection': ['_read', '_send', 'receive_until_eof', 'disconnect'],
    'connection:PeerConnection': ['receive_data', 'send_data', 'send_file', 'receive_file', 'receive_transfer_ticket', 'receive_transfer_offset'],
    'manager:TransferManager': ['_initialize_download', '_initialize_upload', '_download_file', '_upload_file', '_on_peer_initialized',
                                '_calculate_offset', '_on_peer_transfer_request', '_on_peer_upload_failed',
                                '_get_queued_transfers', '_queue_remotely'],
    'model:Transfer': ['is_transfered', '_transfer_progress_callback'],
}
FILES = {'naming': 'naming.py', 'connection': 'network/connection.py', 'manager': 'transfer/manager.py', 'model': 'transfer/model.py',
         'state': 'transfer/state.py', 'primitives': 'protocol/primitives.py', 'messages': 'protocol/messages.py',
         'rate_limiter': 'network/rate_limiter.py', 'network': 'network/network.py', 'events': 'events.py', 'utils': 'utils.py',
         'shares': 'shares/manager.py', 'exceptions': 'exceptions.py', 'constants': 'constants.py'}

# (phase 8) HELPERS the modelled behaviour relies on, pinned the same way.  'mod:Class' -> methods, 'mod:Class' -> None = the
# whole class, 'mod:' -> module level functions.
HELPERS = {
    'connection:PeerConnection': ['__init__', 'set_connection_state'],
    'connection:DataConnection': ['send_message', 'encode_message_data', 'serialize_message', 'receive_message', '_read_message',
                                  '_message_reader_loop', '_perform_message_callback'],
    'connection:ListeningConnection': ['accept'],
    'manager:TransferManager': ['download', 'add', 'find_transfer', '_add_upload', '_on_message_received', '_on_peer_transfer_queue',
                                'request_management_cycle', '_reset_remotely_queued_flags'],
    'model:Transfer': ['transition', 'is_processing', 'is_upload', 'is_download', 'reset_queue_vars', 'set_start_time', 'set_complete_time',
                       '_transfer_task_complete'],
    'model:TransferDirection': None, 'model:FailReason': None,
    'state:': ['_with_state_lock'],
    'state:TransferState': None, 'state:QueuedState': None, 'state:InitializingState': None, 'state:DownloadingState': None,
    'state:UploadingState': None, 'state:CompleteState': None, 'state:IncompleteState': None, 'state:FailedState': None,
    'primitives:uint32': None, 'primitives:uint64': None,
    'messages:PeerTransferRequest': None, 'messages:PeerTransferReply': None, 'messages:PeerUploadFailed': None,
    'messages:PeerTransferQueue': None, 'messages:PeerTransferQueueFailed': None, 'messages:PeerInit': None,
    'rate_limiter:UnlimitedRateLimiter': None, 'rate_limiter:LimitedRateLimiter': ['take_tokens'],
    'network:Network': ['_finalize_peer_connection', 'on_peer_accepted', 'send_peer_messages', 'get_peer_connection', 'create_peer_response_future',
                        '_make_direct_connection', 'on_message_received', 'set_upload_speed_limit', 'set_download_speed_limit'],
    'events:EventBus': ['register', 'emit'], 'events:': ['on_message', 'build_message_map'],
    'utils:': ['ticket_generator'],
    'shares:SharesManager': ['get_filesize', 'create_directory', 'get_download_directory', 'calculate_download_path'],
    'naming:': ['chain_strategies'], 'naming:NamingStrategy': None, 'naming:DefaultNamingStrategy': None, 'naming:KeepDirectoryStrategy': None,
    'naming:DuplicateNamingStrategy': None, 'naming:NumberDuplicateStrategy': None,
    'exceptions:AioSlskException': None, 'exceptions:NetworkError': None, 'exceptions:PeerConnectionError': None,
    'exceptions:ConnectionReadError': None, 'exceptions:ConnectionWriteError': None, 'exceptions:ConnectionFailedError': None,
}


def _norm(fn):
    f = ast.parse(ast.unparse(fn)).body[0]
    b = f.body
    if b and isinstance(b[0], ast.Expr) and isinstance(b[0].value, ast.Constant) and isinstance(b[0].value.value, str):
        f.body = b[1:] or [ast.Pass()]
    return ast.unparse(f)


def _norm_class(c):
    """a class without docstrings (its own, its methods', attribute doc strings)"""
    c = ast.parse(ast.unparse(c)).body[0]
    for n in ast.walk(c):
        b = getattr(n, 'body', None)
        if isinstance(b, list):
            nb = [x for x in b if not (isinstance(x, ast.Expr) and isinstance(x.value, ast.Constant) and isinstance(x.value.value, str))]
            n.body = nb or [ast.Pass()]
    return ast.unparse(c)


def fingerprints(src: Path) -> dict:
    trees = {k: ast.parse((src / 'aioslsk' / v).read_text()) for k, v in FILES.items()}
    out = {}
    for key, names in PINNED.items():
        mod, cls = key.split(':')
        c = _cls(trees[mod], cls)
        for n in names:
            out[f'{cls}.{n}'] = _norm(_fn(c.body, n))
    for key, names in HELPERS.items():
        mod, cls = key.split(':')
        if not cls:
            for n in names:
                out[f'helper:{mod}.{n}'] = _norm(_fn(trees[mod].body, n))
        elif names is None:
            out[f'helper:{mod}.{cls}'] = _norm_class(_cls(trees[mod], cls))
        else:
            c = _cls(trees[mod], cls)
            for n in names:
                out[f'helper:{mod}.{cls}.{n}'] = _norm(_fn(c.body, n))
    return out


def _const(tree, name):
    for n in tree.body:
        tgt = n.targets[0] if isinstance(n, ast.Assign) and len(n.targets) == 1 else (n.target if isinstance(n, ast.AnnAssign) else None)
        if tgt is not None and _u(tgt) == name and isinstance(n.value, ast.Constant) and isinstance(n.value.value, (int, float)):
            return n.value.value
    raise Refuse(f'constant {name} not found / not a literal')


def _class_const(c, name):
    for n in c.body:
        tgt = n.targets[0] if isinstance(n, ast.Assign) and len(n.targets) == 1 else (n.target if isinstance(n, ast.AnnAssign) else None)
        if tgt is not None and _u(tgt) == name:
            return n.value
    raise Refuse(f'{c.name}.{name} not found')


def translate_helpers(src: Path, offset_width: int, ticket_width: int) -> list:
    """Constants of helper modules that the model / the harness use (phase 8)."""
    T = {k: ast.parse((src / 'aioslsk' / v).read_text()) for k, v in FILES.items()}
    out = ['(* ---- phase 8: constants of helper modules ---- *)']
    fmt = {'<I': 4, '<Q': 8}
    for cls, want in (('uint32', ticket_width), ('uint64', offset_width)):
        v = _u(_class_const(_cls(T['primitives'], cls), 'STRUCT'))
        f = v[len("struct.Struct('"):-2] if v.startswith("struct.Struct('") else None
        if f not in fmt:
            raise Refuse(f'primitives.{cls}.STRUCT changed: {v} (little-endian unsigned expected)')
        if fmt[f] != want:
            raise Refuse(f'primitives.{cls} is {fmt[f]} bytes wide but the transfer code uses it for a {want} byte field')
        out.append(f"Definition {cls}_little_endian_width : nat := {fmt[f]}%nat.   (* struct format '{f}' *)")
    gu = _class_const(_cls(T['rate_limiter'], 'UnlimitedRateLimiter'), 'MIN_BUCKET_SIZE')
    gl = _class_const(_cls(T['rate_limiter'], 'LimitedRateLimiter'), 'MIN_BUCKET_SIZE')
    if not (isinstance(gu, ast.Constant) and isinstance(gl, ast.Constant)):
        raise Refuse('rate limiter grant sizes are not literals')
    out += [f'Definition grant_unlimited : Z := {gu.value}.', f'Definition grant_limited : Z := {gl.value}.']
    tt = _const(T['constants'], 'TRANSFER_TIMEOUT')
    if not (60 < tt <= 400):
        raise Refuse(f'constants.TRANSFER_TIMEOUT = {tt}: the harness delivers segments up to 60 s apart and waits 400 s for the read timeout')
    out.append(f'Definition transfer_read_timeout_s : Z := {int(tt)}.')
    td = _cls(T['model'], 'TransferDirection')
    dv = {_u(n.targets[0]): _u(n.value) for n in td.body if isinstance(n, ast.Assign)}
    if dv != {'UPLOAD': '0', 'DOWNLOAD': '1'}:
        raise Refuse(f'TransferDirection values changed: {dv}')
    out.append('Definition direction_download : Z := 1.')
    fr = _cls(T['model'], 'FailReason')
    fv = {_u(n.targets[0]): n.value.value for n in fr.body if isinstance(n, ast.Assign) and isinstance(n.value, ast.Constant)}
    if fv.get('CANCELLED') != 'Cancelled' or fv.get('FILE_READ_ERROR') != 'File read error.':
        raise Refuse(f'FailReason strings changed: {fv}')
    # exception hierarchy: the handler tables of _download_file/_upload_file rely on it
    ex = {n.name: [_u(b) for b in n.bases] for n in T['exceptions'].body if isinstance(n, ast.ClassDef)}
    def anc(name, seen=()):
        r = []
        for b in ex.get(name, []):
            r.append(b)
            if b in ex and b not in seen:
                r += anc(b, seen + (name,))
        return r
    for e in ('ConnectionReadError', 'ConnectionWriteError', 'PeerConnectionError'):
        a = anc(e)
        if 'AioSlskException' not in a or any(x in a for x in ('OSError', 'ValueError', 'IOError')) or 'asyncio.CancelledError' in a:
            raise Refuse(f'exceptions.{e}: ancestors {a} (must be an AioSlskException and not an OSError/ValueError)')
    if 'ConnectionWriteError' in anc('PeerConnectionError') or 'PeerConnectionError' in anc('ConnectionWriteError'):
        raise Refuse('ConnectionWriteError / PeerConnectionError became related')
    out += ['Definition network_errors_are_not_os_errors : bool := true.', '']
    return out


def check_pins(src: Path):
    want = json.loads(PINS.read_text())
    got = fingerprints(src)
    for k in sorted(set(want) | set(got)):
        if want.get(k) != got.get(k):
            import difflib
            d = list(difflib.unified_diff((want.get(k) or '').splitlines(), (got.get(k) or '').splitlines(), lineterm='', n=0))
            raise Refuse(f'fingerprint:{k} changed (pinned in translate/pins_c04.json): ' + ' | '.join(d[2:8]))


DSTATE = {'incomplete()': 'DIncomplete', 'queue()': 'DQueued', 'complete()': 'DComplete', 'fail(reason=FailReason.CANCELLED)': 'DFailedCancelled'}
USTATE = {'fail()': 'UFailed', 'queue()': 'UQueued', 'complete()': 'UComplete', 'fail(reason=FailReason.FILE_READ_ERROR)': 'UFailedRead'}


def _acts(stmts):
    """statements without log calls"""
    out = []
    for st in stmts:
        t = _u(st)
        if t.startswith('logger.') or t.startswith('adapter.'):
            continue
        out.append(t)
    return out


def _state(text, table, where):
    pre = 'await transfer.state.'
    if not text.startswith(pre) or text[len(pre):] not in table:
        raise Refuse(f'{where}: unexpected state change `{text}`')
    return table[text[len(pre):]]


def _handler(tr, name, where):
    for h in tr.handlers:
        if name in _u(h.type).replace('(', ' ').replace(')', ' ').replace(',', ' ').split():
            return h
    raise Refuse(f'{where}: no handler for {name}')


def _branch(node, table, where):
    """`if transfer.is_transfered(): state.A else: state.B` -> (A, B)"""
    if not (isinstance(node, ast.If) and _u(node.test) == 'transfer.is_transfered()' and len(node.body) == 1 and len(node.orelse) == 1):
        raise Refuse(f'{where}: completion branch changed: {_u(node)[:120]}')
    return _state(_u(node.body[0]), table, where), _state(_u(node.orelse[0]), table, where)


def translate_phase4(src: Path, conn, man) -> list:
    out = ['(* ---- phase 4: negotiation widths/order and the handler tables ---- *)']
    pc = _cls(conn, 'PeerConnection')
    widths = {}
    for name, fmt, prim, var in (('receive_transfer_ticket', 'I', 'uint32', 'ticket'), ('receive_transfer_offset', 'Q', 'uint64', 'offset')):
        b = _acts(_body(_fn(pc.body, name)))
        if len(b) != 5 or not b[0].startswith('if not self._reader:') or not b[2].startswith('if data is None:') or b[4] != f'return {var}':
            raise Refuse(f'{name}: statements changed: {[x[:50] for x in b]}')
        exact = {f"data = await self._read(self._reader.readexactly(struct.calcsize('{fmt}')))": 'true'}
        if b[1] in exact:
            ex = 'true'
        elif b[1].startswith(f"data = await self._read(self._reader.read(struct.calcsize('{fmt}'))"):
            ex = 'false'
        else:
            raise Refuse(f'{name}: read changed: {b[1]}')
        if b[3] != f'_, {var} = {prim}.deserialize(0, data)':
            raise Refuse(f'{name}: decoding changed: {b[3]}')
        widths[var] = ({'I': 4, 'Q': 8}[fmt], ex)
    out += [f'Definition ticket_width : nat := {widths["ticket"][0]}%nat.',
            f'Definition offset_read_width : nat := {widths["offset"][0]}%nat.',
            f'Definition offset_read_exact : bool := {widths["offset"][1]}.   (* readexactly: waits for all the bytes *)']
    dc = _cls(conn, 'DataConnection')
    rue = _acts(_body(_fn(dc.body, 'receive_until_eof')))
    if len(rue) != 2 or not rue[0].startswith('if not self._reader:'):
        raise Refuse('receive_until_eof: statements changed')
    if 'return await self._read(self._reader.read(-1))' in rue[1] and 'timeout' not in rue[1]:
        out += ['Definition eof_wait_bounded : bool := false.   (* receive_until_eof has no timeout *)']
    else:
        raise Refuse(f'receive_until_eof: read changed: {rue[1][:200]}')

    tm = _cls(man, 'TransferManager')
    # _initialize_download
    idl = _body(_fn(tm.body, '_initialize_download'))
    first = idl[0]
    if not (isinstance(first, ast.If) and _u(first.test) == 'request.filesize is None' and _u(first.body[-1]) == 'return'
            and 'transfer.state.' not in _u(first) and 'allowed=False' in _u(first) and not first.orelse):
        raise Refuse('_initialize_download: a request without filesize is not refused up front')
    texts = [_u(x) for x in idl]
    def idx(pred, what):
        for i, t in enumerate(texts):
            if pred(t):
                return i
        raise Refuse(f'_initialize_download: {what} not found')
    i_init = idx(lambda t: t == 'await transfer.state.initialize()', 'state.initialize()')
    i_fut = idx(lambda t: 'await file_connection_future' in t, 'wait for the file connection')
    i_off = idx(lambda t: t == 'offset = await self._calculate_offset(transfer)', 'offset computation')
    i_send = idx(lambda t: t.startswith('try:\n    await file_connection.send_message('), 'offset send')
    i_data = idx(lambda t: 'await self._download_file(transfer, file_connection)' in t, '_download_file call')
    if not (0 < i_init < i_fut < i_off < i_send < i_data):
        raise Refuse('_initialize_download: order refusal < initialize < file connection < offset < send < data changed')
    h = _handler(idl[i_send], 'ConnectionWriteError', '_initialize_download offset send')
    ha = _acts(h.body)
    if len(ha) != 2 or ha[1] != 'return' or not ha[0].startswith('if transfer.is_upload():'):
        raise Refuse(f'_initialize_download: offset send failure handler changed: {ha}')
    ifn = [x for x in h.body if isinstance(x, ast.If)][0]
    out += ['Definition dl_nosize_state : dstate := DRefused.   (* refused before state.initialize() *)',
            f'Definition dl_offset_fail_state : dstate := {_state(_u(ifn.orelse[0]), DSTATE, "offset send failure")}.']
    # _on_peer_transfer_request: no second negotiation task while one is pending
    optr = _fn(tm.body, '_on_peer_transfer_request')
    creates = [n for n in ast.walk(optr) if isinstance(n, ast.Assign) and _u(n.targets[0]) == 'transfer._transfer_task'
               and 'self._initialize_download(transfer, connection, message)' in _u(n.value)]
    if len(creates) != 1:
        raise Refuse('_on_peer_transfer_request: expected exactly one place that starts _initialize_download')
    guard = 'false'
    for node in ast.walk(optr):
        for body in (getattr(node, 'body', None), getattr(node, 'orelse', None)):
          if isinstance(body, list) and creates[0] in body:
            i = body.index(creates[0])
            if i > 0 and _u(body[i - 1]) == 'if transfer._transfer_task is not None and (not transfer._transfer_task.done()):\n    return':
                guard = 'true'
    out += [f'Definition dl_guard_pending_task : bool := {guard}.   (* a request is ignored while a negotiation task of the transfer is pending *)']
    # _download_file
    df = _body(_fn(tm.body, '_download_file'))
    tr = [x for x in df if isinstance(x, ast.Try)][-1]
    if df[-1] is not tr:
        raise Refuse('_download_file: statements after the try')
    ra = _acts(_handler(tr, 'ConnectionReadError', '_download_file').body)
    if len(ra) != 1:
        raise Refuse(f'_download_file: ConnectionReadError handler changed: {ra}')
    oe = tr.orelse
    if len(oe) != 2 or _u(oe[0]) != 'await connection.disconnect(CloseReason.REQUESTED)':
        raise Refuse('_download_file: else branch changed')
    a, b = _branch(oe[1], DSTATE, '_download_file')
    out += [f'Definition dl_read_error_state : dstate := {_state(ra[0], DSTATE, "_download_file read error")}.',
            f'Definition dl_done_state (transfered : bool) : dstate := if transfered then {a} else {b}.',
            'Definition dl_done_closes : bool := true.']
    # _initialize_upload
    iu = _body(_fn(tm.body, '_initialize_upload'))
    texts = [_u(x) for x in iu]
    def idxu(pred, what):
        for i, t in enumerate(texts):
            if pred(t):
                return i
        raise Refuse(f'_initialize_upload: {what} not found')
    j_req = idxu(lambda t: 'PeerTransferRequest.Request(' in t and t.startswith('try:'), 'PeerTransferRequest')
    j_rep = idxu(lambda t: 'create_peer_response_future' in t, 'wait for PeerTransferReply')
    j_all = idxu(lambda t: t.startswith('if not response.allowed:'), 'allowed test')
    j_con = idxu(lambda t: 'create_peer_connection(transfer.username, PeerConnectionType.FILE)' in t, 'file connection')
    tick = {'try:\n    await connection.send_message(uint32(ticket).serialize())': 4, 'try:\n    await connection.send_message(uint64(ticket).serialize())': 8}
    j_tic = idxu(lambda t: any(t.startswith(k) for k in tick), 'ticket send')
    j_off = idxu(lambda t: t.startswith('try:\n    transfer.bytes_transfered = await connection.receive_transfer_offset()'), 'offset read')
    j_up = idxu(lambda t: t == 'await self._upload_file(transfer, connection)', '_upload_file call')
    if not (j_req < j_rep < j_all < j_con < j_tic < j_off < j_up):
        raise Refuse('_initialize_upload: order request < reply < file connection < ticket < offset < data changed')
    tw = [v for k, v in tick.items() if texts[j_tic].startswith(k)][0]
    oa = _acts(_handler(iu[j_off], 'ConnectionReadError', '_initialize_upload offset read').body)
    if len(oa) != 2 or oa[1] != 'return':
        raise Refuse(f'_initialize_upload: offset read failure handler changed: {oa}')
    out += [f'Definition ticket_send_width : nat := {tw}%nat.',
            f'Definition ul_offset_fail_state : ustate := {_state(oa[0], USTATE, "offset read failure")}.']
    # _upload_file
    uf = _body(_fn(tm.body, '_upload_file'))
    tr = [x for x in uf if isinstance(x, ast.Try)][-1]
    if uf[-1] is not tr:
        raise Refuse('_upload_file: statements after the try')
    hf = _handler(tr, 'OSError', '_upload_file')
    fa = _acts(hf.body)
    if len(fa) != 2 or fa[1] != 'await connection.disconnect(CloseReason.REQUESTED)':
        raise Refuse(f'_upload_file: file error handler changed: {fa}')
    hw = _handler(tr, 'ConnectionWriteError', '_upload_file')
    wa = _acts(hw.body)
    msg = len(wa) == 2 and any('PeerUploadFailed' in x or '_notify_upload_failed' in x for x in wa)
    if not (len(wa) == 1 or msg):
        raise Refuse(f'_upload_file: write error handler changed: {wa}')
    # the state change must come BEFORE the notification (which can raise or take long)
    st_i = [i for i, x in enumerate(wa) if x.startswith('await transfer.state.')]
    if len(st_i) != 1:
        raise Refuse(f'_upload_file: write error handler changed: {wa}')
    fail_first = st_i[0] == 0
    wa = [wa[st_i[0]]] + [x for i, x in enumerate(wa) if i != st_i[0]]
    oe = tr.orelse
    waits = len(oe) == 2 and _u(oe[0]) == 'await connection.receive_until_eof(raise_exception=False)'
    if not (waits or len(oe) == 1):
        raise Refuse('_upload_file: else branch changed')
    a, b = _branch(oe[-1], USTATE, '_upload_file')
    out += [f"Definition ul_seek_error_handled : bool := {'true' if 'ValueError' in _u(hf.type) else 'false'}.   (* except {_u(hf.type)} *)",
            f'Definition ul_file_error_state : ustate := {_state(fa[0], USTATE, "_upload_file file error")}.',
            f'Definition ul_write_error_state : ustate := {_state(wa[0], USTATE, "_upload_file write error")}.',
            f"Definition ul_write_error_msg : bool := {'true' if msg else 'false'}.   (* PeerUploadFailed sent *)",
            f"Definition ul_fail_before_notify : bool := {'true' if fail_first else 'false'}.   (* state.fail() precedes the notification *)",
            f"Definition ul_waits_eof : bool := {'true' if waits else 'false'}.",
            f'Definition ul_done_state (transfered : bool) : ustate := if transfered then {a} else {b}.', '']
    return out


def translate(src: Path) -> dict:
    out = ['(* GENERATED by translate/tr_c04.py from network/connection.py, transfer/model.py, transfer/manager.py. Do not edit. *)',
           'From Coq Require Import ZArith Bool.', 'From Slsk Require Import C04.Types.', 'Open Scope Z_scope.', '']

    # ---- receive_file ------------------------------------------------------------------------
    conn = ast.parse((src / 'aioslsk' / 'network' / 'connection.py').read_text())
    rf = _fn(_cls(conn, 'PeerConnection').body, 'receive_file')
    if [a.arg for a in rf.args.args] != ['self', 'file_handle', 'filesize', 'callback']:
        raise Refuse('receive_file signature')
    b = _body(rf)
    if len(b) != 2 or _u(b[0]) != 'bytes_received = 0' or not isinstance(b[1], ast.While) or b[1].orelse:
        raise Refuse('receive_file: expected `bytes_received = 0` followed by one while loop: ' + repr([_u(s)[:60] for s in b]))
    op = _cmp(b[1].test, 'bytes_received', 'filesize', 'receive_file loop test')
    _expect(b[1].body, ['bytes_to_read = await self.download_rate_limiter.take_tokens()',
                        'data = await self.receive_data(bytes_to_read)',
                        'if data is None:\n    return',
                        'await file_handle.write(data)',
                        'if callback is not None:\n    callback(data)',
                        'bytes_received += len(data)'], 'receive_file loop body')
    out += ['(* receive_file: `while bytes_received <op> filesize` tested BEFORE each read *)',
            f'Definition recv_more (received remaining : Z) : bool := {op} received remaining.', '']

    # ---- Transfer.is_transfered / _transfer_progress_callback ----------------------------------
    model = ast.parse((src / 'aioslsk' / 'transfer' / 'model.py').read_text())
    tr = _cls(model, 'Transfer')
    it = _body(_fn(tr.body, 'is_transfered'))
    if len(it) != 1 or not isinstance(it[0], ast.Return):
        raise Refuse('is_transfered shape')
    op = _cmp(it[0].value, 'self.filesize', 'self.bytes_transfered', 'is_transfered')
    out += [f'Definition is_transfered_b (filesize bytes_transfered : Z) : bool := {op} filesize bytes_transfered.', '']
    cb = _body(_fn(tr.body, '_transfer_progress_callback'))
    _expect(cb, ['self.bytes_transfered += len(data)', 'self.add_speed_log_entry(len(data))'], '_transfer_progress_callback')
    out += ['Definition progress_add (bytes_transfered n : Z) : Z := bytes_transfered + n.', '']

    # ---- manager ---------------------------------------------------------------------------------
    man = ast.parse((src / 'aioslsk' / 'transfer' / 'manager.py').read_text())
    tm = _cls(man, 'TransferManager')
    co = _body(_fn(tm.body, '_calculate_offset'))
    _expect(co, ['if not transfer.local_path:\n    return 0',
                 'try:\n    return await asyncos.path.getsize(transfer.local_path)\nexcept (OSError, TypeError):\n    return 0'],
            '_calculate_offset')
    idl = _fn(tm.body, '_initialize_download')
    stmts = _body(idl)
    texts = [_u(s) for s in stmts]
    try:
        i = texts.index('offset = await self._calculate_offset(transfer)')
    except ValueError:
        raise Refuse('_initialize_download: `offset = await self._calculate_offset(transfer)` not found (offset no longer the local file size?)')
    if texts[i + 1] != 'transfer.bytes_transfered = offset' or not isinstance(stmts[i + 2], ast.Try):
        raise Refuse('_initialize_download: statements after the offset computation changed')
    send = [_u(s) for s in stmts[i + 2].body]
    width = {'await file_connection.send_message(uint64(offset).serialize())': 8,
             'await file_connection.send_message(uint32(offset).serialize())': 4}.get(send[0] if len(send) == 1 else '')
    if width is None:
        raise Refuse(f'_initialize_download: offset send changed: {send}')
    for s in stmts[:i]:
        for n in ast.walk(s):
            if isinstance(n, ast.Name) and n.id == 'offset':
                raise Refuse('_initialize_download: offset used before it is computed')
    out += ['(* offset = size of the local file (asyncos.path.getsize, 0 on error); sent as uint of this many bytes *)',
            f'Definition offset_width : nat := {width}%nat.', '']

    df = _fn(tm.body, '_download_file')
    withs = [n for n in ast.walk(df) if isinstance(n, ast.AsyncWith)]
    if len(withs) != 1 or len(withs[0].items) != 1:
        raise Refuse('_download_file: expected one async with')
    w = withs[0]
    modes = {"aiofiles.open(transfer.local_path, mode='ab')": 'true', "aiofiles.open(transfer.local_path, mode='wb')": 'false'}
    ctx = _u(w.items[0].context_expr)
    if ctx not in modes or _u(w.items[0].optional_vars) != 'handle':
        raise Refuse(f'_download_file: open changed: {ctx}')
    if len(w.body) != 1:
        raise Refuse('_download_file: with body changed')
    call = w.body[0].value.value if isinstance(w.body[0], ast.Expr) and isinstance(w.body[0].value, ast.Await) else None
    if not (isinstance(call, ast.Call) and _u(call.func) == 'connection.receive_file' and len(call.args) == 3 and not call.keywords
            and _u(call.args[0]) == 'handle' and _u(call.args[2]) == 'transfer._transfer_progress_callback'):
        raise Refuse('_download_file: receive_file call changed')
    size = _u(call.args[1])
    sizes = {'transfer.filesize - transfer.bytes_transfered': 'filesize - bytes_transfered', 'transfer.filesize': 'filesize'}
    if size not in sizes:
        raise Refuse(f'_download_file: receive size changed: {size}')
    out += [f"Definition download_append : bool := {modes[ctx]}.   (* open mode {'ab' if modes[ctx] == 'true' else 'wb'} *)",
            f'Definition recv_size (filesize bytes_transfered : Z) : Z := {sizes[size]}.', '']

    uf = _fn(tm.body, '_upload_file')
    withs = [n for n in ast.walk(uf) if isinstance(n, ast.AsyncWith)]
    if len(withs) != 1 or _u(withs[0].items[0].context_expr) != "aiofiles.open(transfer.local_path, mode='rb')":
        raise Refuse('_upload_file: open changed')
    ub = [_u(s) for s in withs[0].body]
    sendf = 'await connection.send_file(handle, transfer._transfer_progress_callback)'
    if ub == ['await handle.seek(transfer.bytes_transfered)', sendf]:
        seek = 'true'
    elif ub == [sendf]:
        seek = 'false'
    else:
        raise Refuse(f'_upload_file: with body changed: {ub}')
    out += [f'Definition upload_seek : bool := {seek}.', '']
    out += translate_phase4(src, conn, man)
    out += translate_helpers(src, 8, 4)
    check_pins(src)
    return {'C04Gen.v': '\n'.join(out)}


if __name__ == '__main__':
    import sys
    if len(sys.argv) >= 2 and sys.argv[1] == '--repin':
        srcdir = Path(sys.argv[2] if len(sys.argv) > 2 else '/repo/src')
        PINS.write_text(json.dumps(fingerprints(srcdir), indent=1, sort_keys=True) + '\n')
        print('pinned', len(json.loads(PINS.read_text())), 'functions from', srcdir)

