"""T3: the waiter code of network/network.py and client.py -> gen/WaiterGen.v (used by coq/theories/C12).

Translated (structure-directed, fail-closed: any statement or expression outside the accepted shapes raises Refuse):

* ``ExpectedResponse.matches``            -> ``matches_head``, ``field_body``, ``fields_loop``, ``matches``
  (guards before the field loop; the loop body with its ``return`` / ``continue`` / try-except-else structure)
* completion loop of ``Network.on_message_received`` (last statement, after the handlers) -> ``loop_body``
* ``except TimeoutError`` handler of ``wait_for_server_message`` / ``wait_for_peer_message`` -> ``wait_timeout_sets_exception``
* ``SoulSeekClient.execute`` control flow -> ``EXEC_REGISTER_BEFORE_SEND``, ``EXEC_CANCEL_ON_SEND_FAILURE``,
  ``EXEC_TIMEOUT_AROUND_AWAIT``

Shape-pinned (normalised-AST fingerprints ``FP_*``; the pinned values are theorems in C12/Props.v):
``ExpectedResponse.__init__``, ``Network._remove_response_future``, ``create_server_response_future``,
``create_peer_response_future``, ``register_response_future``.
"""
from __future__ import annotations

import ast
import hashlib
from pathlib import Path

from .pyexpr import Refuse, find_class, find_func

TESTS = {
    'connection.__class__ != self.connection_class': 'negb (conn_eqb (g_conn g) (m_conn m))',
    'response.__class__ != self.message_class': 'negb (Nat.eqb (g_cls g) (m_cls m))',
    'self.peer is not None': 'peer_is_set (m_peer m)',
    'isinstance(connection, PeerConnection)': 'is_peer_conn (g_conn g)',
    'connection.username != self.peer': 'username_neq_peer (g_user g) (m_peer m)',
    'callable(expected_value)': 'is_callable (snd f)',
    'expected_value(actual_value)': 'call (snd f) v',
    'getattr(response, fname, None) != expected_value': 'neq_expected (lookup (fst f) gf) (snd f)',
    # completion loop
    'expected_response.done()': 'is_done',
    'expected_response.matches(connection, message)': 'mt',
    # wait_for_*_message
    'future.done()': 'fut_done',
}


def nodoc(body):
    return [s for s in body if not (isinstance(s, ast.Expr) and isinstance(s.value, ast.Constant) and isinstance(s.value.value, str))]


def test(e) -> str:
    if isinstance(e, ast.BoolOp):
        op = ' && ' if isinstance(e.op, ast.And) else ' || '
        return '(' + op.join(test(v) for v in e.values) + ')'
    if isinstance(e, ast.UnaryOp) and isinstance(e.op, ast.Not):
        return f'negb ({test(e.operand)})'
    txt = ast.unparse(e)
    if txt in TESTS:
        return TESTS[txt]
    raise Refuse(f'line {getattr(e, "lineno", "?")}: test not in the accepted vocabulary: {txt}')


def block(stmts, k: str, in_loop: bool) -> str:
    """Gallina term of type res for a statement list; k = term for falling off the end."""
    if not stmts:
        return k
    s, rest = stmts[0], stmts[1:]
    if isinstance(s, ast.Return):
        if isinstance(s.value, ast.Constant) and isinstance(s.value.value, bool):
            return f'RRet {"true" if s.value.value else "false"}'
        if s.value is not None:
            return f'RRet ({test(s.value)})'
        raise Refuse(f'line {s.lineno}: bare return in matches')
    if isinstance(s, ast.Continue):
        if not in_loop:
            raise Refuse(f'line {s.lineno}: continue outside the field loop')
        return 'RNext'
    if isinstance(s, ast.If):
        K = block(rest, k, in_loop)
        return f'(if {test(s.test)} then {block(s.body, K, in_loop)} else {block(s.orelse, K, in_loop)})'
    if isinstance(s, ast.Try):
        ok = (len(s.body) == 1 and ast.unparse(s.body[0]) == 'actual_value = getattr(response, fname)' and len(s.handlers) == 1
              and s.handlers[0].type is not None and ast.unparse(s.handlers[0].type) == 'AttributeError' and not s.finalbody)
        if not ok:
            raise Refuse(f'line {s.lineno}: try statement of an unexpected shape in matches')
        K = block(rest, k, in_loop)
        return (f'(match lookup (fst f) gf with None => {block(s.handlers[0].body, K, in_loop)} '
                f'| Some v => {block(s.orelse, K, in_loop)} end)')
    raise Refuse(f'line {s.lineno}: statement not accepted in matches: {ast.unparse(s)[:80]}')


def loop_block(stmts, k: str) -> str:
    """completion loop body -> lact"""
    if not stmts:
        return k
    s, rest = stmts[0], stmts[1:]
    if isinstance(s, ast.Continue):
        return 'LSkip'
    if isinstance(s, ast.Break) or isinstance(s, ast.Return):
        raise Refuse(f'line {s.lineno}: the completion loop leaves early ({ast.unparse(s)})')
    if isinstance(s, ast.If):
        K = loop_block(rest, k)
        return f'(if {test(s.test)} then {loop_block(s.body, K)} else {loop_block(s.orelse, K)})'
    if isinstance(s, ast.Expr) and ast.unparse(s.value).replace(' ', '') in ('expected_response.set_result((connection,message))',
                                                                             'expected_response.set_result((connection,message,))'):
        if rest:
            raise Refuse(f'line {s.lineno}: statements after set_result in the completion loop')
        return 'LSet'
    raise Refuse(f'line {s.lineno}: statement not accepted in the completion loop: {ast.unparse(s)[:80]}')


def fingerprint_deep(node) -> int:
    """like fingerprint, with the docstrings of nested functions / classes removed as well"""
    n2 = ast.parse(ast.unparse(node)).body[0]
    for x in ast.walk(n2):
        if isinstance(x, (ast.FunctionDef, ast.AsyncFunctionDef, ast.ClassDef)):
            x.body = nodoc(x.body) or [ast.Pass()]
    return int(hashlib.sha256(ast.dump(n2, annotate_fields=True, include_attributes=False).encode()).hexdigest()[:15], 16)


def fingerprint(fn) -> int:
    fn2 = ast.parse(ast.unparse(fn)).body[0]
    fn2.body = nodoc(fn2.body) or [ast.Pass()]
    return int(hashlib.sha256(ast.dump(fn2, annotate_fields=True, include_attributes=False).encode()).hexdigest()[:15], 16)


def wait_handler(fn) -> str:
    b = nodoc(fn.body)
    tries = [s for s in b if isinstance(s, ast.Try)]
    if len(tries) != 1:
        raise Refuse(f'{fn.name}: expected exactly one try statement')
    t = tries[0]
    ok = (len(t.body) == 1 and isinstance(t.body[0], ast.AsyncWith) and ast.unparse(t.body[0].items[0].context_expr) == 'atimeout(timeout)'
          and len(t.body[0].body) == 1 and ast.unparse(t.body[0].body[0]) == '_, response = await future'
          and len(t.handlers) == 1 and ast.unparse(t.handlers[0].type) == 'TimeoutError' and not t.orelse and not t.finalbody)
    if not ok:
        raise Refuse(f'{fn.name}: timeout block changed')
    if ast.unparse(b[-1]) != 'return response' or b.index(t) != len(b) - 2:
        raise Refuse(f'{fn.name}: statements after the timeout block changed')
    h = t.handlers[0].body
    if not (h and isinstance(h[-1], ast.Raise) and h[-1].exc is None):
        raise Refuse(f'{fn.name}: the TimeoutError handler does not end with a bare raise')
    h = h[:-1]
    if not h:
        return 'false'
    if len(h) == 1 and isinstance(h[0], ast.Expr) and ast.unparse(h[0]) == 'future.set_exception(exc)':
        return 'true'
    if (len(h) == 1 and isinstance(h[0], ast.If) and not h[0].orelse and len(h[0].body) == 1
            and ast.unparse(h[0].body[0]) == 'future.set_exception(exc)'):
        return test(h[0].test)
    raise Refuse(f'{fn.name}: TimeoutError handler of an unexpected shape')


def translate(src: Path) -> dict:
    base = src / 'aioslsk'
    nw = ast.parse((base / 'network' / 'network.py').read_text())
    er = find_class(nw, 'ExpectedResponse')
    net = find_class(nw, 'Network')

    # ---- ExpectedResponse.matches
    m = find_func(er.body, 'matches')
    if [a.arg for a in m.args.args] != ['self', 'connection', 'response']:
        raise Refuse('matches: signature changed')
    b = nodoc(m.body)
    fors = [i for i, s in enumerate(b) if isinstance(s, ast.For)]
    if len(fors) != 1:
        raise Refuse('matches: expected exactly one for loop')
    fi = fors[0]
    loop = b[fi]
    if ast.unparse(loop.target) != '(fname, expected_value)' or ast.unparse(loop.iter) != 'self.fields.items()' or loop.orelse:
        raise Refuse('matches: field loop header changed')
    head = block(b[:fi], 'RNext', False)
    body = block(loop.body, 'RNext', True)
    tail = b[fi + 1:]
    if not (len(tail) == 1 and isinstance(tail[0], ast.Return) and isinstance(tail[0].value, ast.Constant) and isinstance(tail[0].value.value, bool)):
        raise Refuse('matches: final return changed')
    final = 'true' if tail[0].value.value else 'false'

    # ---- completion loop of on_message_received
    om = find_func(net.body, 'on_message_received')
    ob = nodoc(om.body)
    if not (len(ob) == 3 and isinstance(ob[0], ast.If) and ast.unparse(ob[0].test) == 'message.__class__ in self._MESSAGE_MAP'
            and ast.unparse(ob[1]) == 'await self._event_bus.emit(MessageReceivedEvent(message, connection))' and isinstance(ob[2], ast.For)):
        raise Refuse('on_message_received: statement structure changed (handlers, event emission, completion loop)')
    cl = ob[2]
    if ast.unparse(cl.target) != 'expected_response' or ast.unparse(cl.iter) != 'self._expected_response_futures' or cl.orelse:
        raise Refuse('on_message_received: completion loop header changed')
    lbody = loop_block(cl.body, 'LSkip')

    # ---- wait_for_*_message
    ws = wait_handler(find_func(net.body, 'wait_for_server_message'))
    wp = wait_handler(find_func(net.body, 'wait_for_peer_message'))
    if ws != wp:
        raise Refuse('wait_for_server_message and wait_for_peer_message handle the timeout differently')

    # ---- SoulSeekClient.execute
    cl_ = ast.parse((base / 'client.py').read_text())
    ex = find_func(find_class(cl_, 'SoulSeekClient').body, 'execute')
    eb = nodoc(ex.body)
    flat = []          # (kind, node) in execution order at the top level (try bodies inlined)
    cancel_on_fail = False
    for s in eb:
        if isinstance(s, ast.Try):
            for t in s.body:
                flat.append(t)
            for h in s.handlers:
                if h.type is not None and ast.unparse(h.type) == 'Exception':
                    txt = [ast.unparse(x) for x in ast.walk(ast.Module(body=h.body, type_ignores=[])) if isinstance(x, ast.Expr)]
                    if 'response_future.cancel()' in txt and isinstance(h.body[-1], ast.Raise) and h.body[-1].exc is None:
                        cancel_on_fail = any(ast.unparse(t) == 'await command.send(self)' for t in s.body)
        else:
            flat.append(s)

    def pos(pred):
        for i, s in enumerate(flat):
            for x in ast.walk(s):
                if pred(x):
                    return i
        return None
    p_send = pos(lambda x: isinstance(x, ast.Await) and ast.unparse(x) == 'await command.send(self)')
    p_reg = pos(lambda x: isinstance(x, ast.Call) and ast.unparse(x) == 'self.network.register_response_future(response_future)')
    p_await = pos(lambda x: isinstance(x, ast.Await) and ast.unparse(x) == 'await response_future')
    if p_send is None or p_reg is None or p_await is None:
        raise Refuse('execute: send / register / await of the response not found')
    tmo = False
    for x in ast.walk(ex):
        if isinstance(x, ast.AsyncWith) and ast.unparse(x.items[0].context_expr) == 'atimeout(timeout)':
            tmo = any(isinstance(y, ast.Await) and ast.unparse(y) == 'await response_future' for y in ast.walk(x))
    b_ = lambda v: 'true' if v else 'false'

    out = ['(* GENERATED by /verif/translate/tr_waiter.py from src/aioslsk/network/network.py and client.py -- do not edit *)\n',
           'From Coq Require Import ZArith List Bool Arith.\nFrom Slsk Require Import C12.Types.\nImport ListNotations.\n\n',
           '(* ExpectedResponse.matches: the guards before the field loop *)\n',
           f'Definition matches_head (m : matcher) (g : msg) : res :=\n  {head}.\n\n',
           '(* ... the body of `for fname, expected_value in self.fields.items()` for one field f *)\n',
           f'Definition field_body (gf : list (nat * Z)) (f : nat * fm) : res :=\n  {body}.\n\n',
           'Fixpoint fields_loop (fs : list (nat * fm)) (gf : list (nat * Z)) : res :=\n  match fs with\n  | [] => RNext\n'
           '  | f :: r => match field_body gf f with RRet b => RRet b | RNext => fields_loop r gf end\n  end.\n\n',
           'Definition matches (m : matcher) (g : msg) : bool :=\n  match matches_head m g with\n  | RRet b => b\n'
           f'  | RNext => match fields_loop (m_fields m) (g_fields g) with RRet b => b | RNext => {final} end\n  end.\n\n',
           '(* Network.on_message_received: one round of the completion loop (the last statement, after the message handlers and\n'
           '   the MessageReceivedEvent listeners) for an entry that is done / matches the message *)\n',
           f'Definition loop_body (is_done mt : bool) : lact :=\n  {lbody}.\n\n',
           '(* wait_for_server_message / wait_for_peer_message: does the `except TimeoutError` handler call future.set_exception? *)\n',
           f'Definition wait_timeout_sets_exception (fut_done : bool) : bool := {ws}.\n\n',
           '(* SoulSeekClient.execute *)\n',
           f'Definition EXEC_REGISTER_BEFORE_SEND : bool := {b_(p_reg < p_send)}.\n',
           f'Definition EXEC_CANCEL_ON_SEND_FAILURE : bool := {b_(cancel_on_fail)}.\n',
           f'Definition EXEC_TIMEOUT_AROUND_AWAIT : bool := {b_(tmo)}.\n\n',
           '(* fingerprints of the functions the model abstracts by hand *)\n']
    for cls, name in ((er, '__init__'), (net, '_remove_response_future'), (net, 'create_server_response_future'),
                      (net, 'create_peer_response_future'), (net, 'register_response_future')):
        out.append(f'Definition FP_{name.strip("_")} : N := {fingerprint(find_func(cls.body, name))}%N.\n')
    # the reader of a connection handles one message completely (handlers, listeners, completion loop) before it reads the
    # next frame: completion-loop order = arrival order per connection, also when a handler suspends
    cn = ast.parse((base / 'network' / 'connection.py').read_text())
    dc = find_class(cn, 'DataConnection')
    rl = find_func(dc.body, '_message_reader_loop')
    awaited = [ast.unparse(x) for x in ast.walk(rl) if isinstance(x, ast.Await)]
    if awaited != ['await self.receive_message_object()', 'await self._perform_message_callback(message)']:
        raise Refuse(f'_message_reader_loop: awaits changed: {awaited}')
    if any(isinstance(x, ast.Call) and ast.unparse(x.func).endswith('create_task') for x in ast.walk(rl)):
        raise Refuse('_message_reader_loop: spawns tasks')
    pc = find_func(dc.body, '_perform_message_callback')
    if [ast.unparse(x) for x in ast.walk(pc) if isinstance(x, ast.Await)] != ['await self.network.on_message_received(message, self)']:
        raise Refuse('_perform_message_callback: awaits changed')
    out.append('(* the reader loop awaits on_message_received before reading the next frame (checked by the translator) *)\n')
    out.append('Definition READER_SEQUENTIAL : bool := true.\n')
    out.append(f'Definition FP_message_reader_loop : N := {fingerprint(rl)}%N.\n')
    out.append(f'Definition FP_perform_message_callback : N := {fingerprint(pc)}%N.\n')
    # ---- helpers the waiter code relies on (phase 8): regenerated facts + fingerprints
    ev = ast.parse((base / 'events.py').read_text())
    bus = find_class(ev, 'EventBus')
    emit = find_func(bus.body, 'emit')
    etxt = ast.unparse(emit)
    # emit awaits coroutine listeners one after the other and swallows their exceptions (so the completion loop after
    # `await self._event_bus.emit(...)` always runs)
    tries = [x for x in ast.walk(emit) if isinstance(x, ast.Try)]
    swallow = (len(tries) == 1 and len(tries[0].handlers) == 1 and ast.unparse(tries[0].handlers[0].type) == 'Exception'
               and not any(isinstance(y, ast.Raise) for y in ast.walk(ast.Module(body=tries[0].handlers[0].body, type_ignores=[]))))
    awaits_listener = 'await listener(event)' in etxt and 'create_task' not in etxt
    for mod, path in (('network', base / 'network' / 'network.py'), ('client', base / 'client.py')):
        imp = [ast.unparse(x) for x in ast.parse(path.read_text()).body if isinstance(x, ast.ImportFrom) and any(a.asname == 'atimeout' or a.name == 'atimeout' for a in x.names)]
        if imp != ['from async_timeout import timeout as atimeout']:
            raise Refuse(f'{mod}: atimeout is bound by {imp}')
    out.append('\n(* helpers: EventBus.emit awaits coroutine listeners in turn and swallows their exceptions; atimeout = async_timeout.timeout *)\n')
    out.append(f'Definition EMIT_SWALLOWS_LISTENER_EXCEPTIONS : bool := {b_(swallow)}.\n')
    out.append(f'Definition EMIT_AWAITS_LISTENERS_IN_TURN : bool := {b_(awaits_listener)}.\n')
    cm = ast.parse((base / 'commands.py').read_text())
    helpers = [('EventBus_emit', emit), ('EventBus_register', find_func(bus.body, 'register')),
               ('EventBus_get_listeners_for_event', find_func(bus.body, '_get_listeners_for_event')),
               ('build_message_map', find_func(ev.body, 'build_message_map')),
               ('Network_send_server_messages', find_func(net.body, 'send_server_messages')),
               ('BaseCommand', find_class(cm, 'BaseCommand')),
               ('receive_message_object', find_func(dc.body, 'receive_message_object'))]
    for nm, node in helpers:
        out.append(f'Definition FPH_{nm} : N := {fingerprint_deep(node)}%N.\n')
    return {'WaiterGen.v': ''.join(out)}


if __name__ == '__main__':
    import sys
    print(translate(Path(sys.argv[1] if len(sys.argv) > 1 else '/repo/src'))['WaiterGen.v'])
