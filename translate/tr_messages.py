"""T1: protocol/primitives.py + protocol/messages.py -> gen/PrimGen.v, gen/SchemaGen.v, gen/PinnedGen.v

Fail-closed (``Refuse`` on anything outside the accepted shapes); the code is parsed with ``ast``
and never imported.

PrimGen.v    wire formats of the integer / boolean primitives decoded from their ``STRUCT``
             format strings (width, signedness), the procedural primitives (string, bytearr,
             ipaddr, array) as the constructors of the hand model (their source, and the source
             of ProtocolDataclass / MessageDataclass, is matched against the fingerprint of the
             text the hand model in C01/Model.v was written from), and the nested record classes.
SchemaGen.v  one ``schema`` per Request/Response dataclass: family, direction, MESSAGE_ID and its
             width, compression, and per field: wire type, condition (if_true / if_false resolved
             to the index of the referenced field), 'optional', dataclass default.  Dispatch id
             widths of the four family classes.
PinnedGen.v  the same table rebuilt from /verif/pinned/layout.json (snapshot of the layout at
             the pinned commit), with every type written out in full, for C01_layout_pinned.

``layout(src)`` returns the JSON form of the current layout (what pinned/layout.json stores).
"""
from __future__ import annotations

import ast
import hashlib
import json
import re
from pathlib import Path

from .pyexpr import Refuse, refuse

PINNED = Path(__file__).resolve().parent.parent / 'pinned' / 'layout.json'

INT_FORMATS = {'<B': (1, False), '<H': (2, False), '<I': (4, False), '<Q': (8, False),
               '<b': (1, True), '<h': (2, True), '<i': (4, True), '<q': (8, True)}

INT_CLASS_TEMPLATE = '''class {name}(int):
    STRUCT = struct.Struct({fmt!r})

    def serialize(self) -> bytes:
        return self.STRUCT.pack(self)

    def serialize_into(self, buffer: bytearray):
        buffer.extend(self.STRUCT.pack(self))

    @classmethod
    def deserialize(cls, pos: int, data: bytes) -> tuple[int, {ret}]:
        return (pos + cls.STRUCT.size, cls.STRUCT.unpack_from(data, offset=pos)[0])'''

FAMILY_METHOD_TEMPLATE = '''@classmethod
def deserialize_{what}(cls, message{ann}):
    _, msg_id = {prim}.deserialize(4, message)
    for msg_class in cls.__subclasses__():
        {what}_cls = getattr(msg_class, '{attr}', None)
        if {what}_cls and {what}_cls.MESSAGE_ID == msg_id:
            return {what}_cls.deserialize(0, message)
    raise UnknownMessageError(msg_id, message, {text})'''

COMPRESS_METHODS = [
    'def serialize(self, compress: bool=True) -> bytes:\n    return super(type(self), self).serialize(compress)',
    '@classmethod\ndef deserialize(cls, pos: int, message: bytes, decompress: bool=True):\n    return super(cls, cls).deserialize(pos, message, decompress)',
]
IS_ADMIN_METHODS = [
    '@property\ndef is_admin(self) -> Optional[bool]:\n    return self.is_direct',
    '@is_admin.setter\ndef is_admin(self, value: bool):\n    self.is_direct = value',
]

# Fingerprints (sha256 of the ast dump without docstrings) of the procedural code the hand model
# C01/Model.v was written from.  An edit of any of these is reported as a broken tie; whether
# it changes behaviour is then decided by the correspondence check / the search.
FINGERPRINTS = {
    'primitives.decode_string': '33668519a418eac4f5b31766',
    'primitives.string': 'e431ad88b64b19bf39f0ebfa',
    'primitives.bytearr': '6a74e7f8848f5cf59cbf230b',
    'primitives.ipaddr': '0cb2fd2dc0e472a6a63e1c23',
    'primitives.array': '2b0d13958035cdf6c8e2f5dd',
    'primitives.ProtocolDataclass': 'd21b042e72395816e34b3749',
    'primitives.MessageDataclass': '855cdee883cab46f98ea1beb',
    'messages._PeerInitTicket': '9c6df69e2b81d85fafcfacb1',
}

FAMILIES = {'ServerMessage': 'server', 'PeerInitializationMessage': 'peer_init', 'PeerMessage': 'peer',
            'DistributedMessage': 'distributed'}
FAMILY_COQ = {'server': 'FServer', 'peer_init': 'FPeerInit', 'peer': 'FPeer', 'distributed': 'FDistributed'}

PRIM_KNOWN_TOPLEVEL_FUNCS = {'decode_string', 'has_unparsed_bytes', 'calc_md5'}
PRIM_IGNORED_CLASSES = {'Serializable', 'AttributeKey'}


# ----------------------------------------------------------------------------------------
def strip_docstrings(node: ast.AST) -> ast.AST:
    """Return a copy of ``node`` in which docstrings and comments-as-strings are removed."""
    node = ast.parse(ast.unparse(node)).body[0] if not isinstance(node, ast.Module) else ast.parse(ast.unparse(node))
    for n in ast.walk(node):
        body = getattr(n, 'body', None)
        if isinstance(body, list):
            nb = [s for s in body if not (isinstance(s, ast.Expr) and isinstance(s.value, ast.Constant) and isinstance(s.value.value, str))]
            if not nb and body:
                nb = [ast.Pass()]
            n.body = nb
    return node


def fingerprint(node: ast.AST) -> str:
    return hashlib.sha256(ast.dump(strip_docstrings(node)).encode()).hexdigest()[:24]


def text(node: ast.AST) -> str:
    return ast.unparse(strip_docstrings(node)).strip()


def check_fp(name: str, node: ast.AST):
    exp = FINGERPRINTS[name]
    got = fingerprint(node)
    if exp != got:
        raise Refuse(f'{name}: source differs from the text the hand model was written from (fingerprint {got}, expected {exp})')


def dataclass_fields(cls: ast.ClassDef):
    """[(name, field-call)] of the AnnAssign statements `x: T = field(...)` in a class body;
    MESSAGE_ID ClassVar returned separately; methods returned as texts."""
    fields, msg_id, methods = [], None, []
    for s in cls.body:
        if isinstance(s, ast.Expr) and isinstance(s.value, ast.Constant) and isinstance(s.value.value, str):
            continue
        if isinstance(s, (ast.FunctionDef, ast.AsyncFunctionDef)):
            methods.append(s)
            continue
        if isinstance(s, ast.AnnAssign) and isinstance(s.target, ast.Name):
            if s.target.id == 'MESSAGE_ID':
                msg_id = s
                continue
            if isinstance(s.value, ast.Call) and isinstance(s.value.func, ast.Name) and s.value.func.id == 'field' and not s.value.args:
                fields.append((s.target.id, s.value, s))
                continue
        refuse(s, f'class {cls.name}: unexpected statement')
    return fields, msg_id, methods


def parse_field(owner: str, name: str, call: ast.Call, allow_meta: set):
    """-> dict(name, type, subtype, if_true, if_false, optional, default)"""
    out = {'name': name, 'type': None, 'subtype': None, 'if_true': None, 'if_false': None, 'optional': False,
           'default': 'required'}
    for kw in call.keywords:
        if kw.arg == 'default':
            v = kw.value
            if isinstance(v, ast.Constant) and (v.value is None or isinstance(v.value, (bool, int))):
                out['default'] = v.value
            else:
                refuse(v, f'{owner}.{name}: default must be None, a bool or an int literal')
        elif kw.arg == 'metadata':
            d = kw.value
            if not isinstance(d, ast.Dict):
                refuse(d, f'{owner}.{name}: metadata must be a dict literal')
            for k, v in zip(d.keys, d.values):
                if not (isinstance(k, ast.Constant) and isinstance(k.value, str)):
                    refuse(d, f'{owner}.{name}: metadata key')
                key = k.value
                if key not in allow_meta:
                    raise Refuse(f'{owner}.{name}: metadata key {key!r} not accepted here')
                if key in ('type', 'subtype'):
                    if not isinstance(v, ast.Name):
                        refuse(v, f'{owner}.{name}: {key} must be a class name')
                    out[key] = v.id
                elif key in ('if_true', 'if_false'):
                    if not (isinstance(v, ast.Constant) and isinstance(v.value, str)):
                        refuse(v, f'{owner}.{name}: {key} must be a field name literal')
                    out[key] = v.value
                elif key == 'optional':
                    if not (isinstance(v, ast.Constant) and v.value is True):
                        refuse(v, f"{owner}.{name}: 'optional' must be the literal True "
                                  "(the code tests the presence of the key, not its value)")
                    out['optional'] = True
        else:
            raise Refuse(f'{owner}.{name}: field() keyword {kw.arg!r} not accepted')
    if out['type'] is None:
        raise Refuse(f"{owner}.{name}: no 'type' in metadata")
    if out['if_true'] is not None and out['if_false'] is not None:
        raise Refuse(f'{owner}.{name}: both if_true and if_false')
    return out


# ----------------------------------------------------------------------------------------
def parse_primitives(src: Path):
    tree = ast.parse((src / 'aioslsk' / 'protocol' / 'primitives.py').read_text())
    prims: dict[str, list] = {}
    records: dict[str, list] = {}
    seen_fp = set()
    for n in tree.body:
        if isinstance(n, (ast.Import, ast.ImportFrom)):
            continue
        if isinstance(n, ast.Expr) and isinstance(n.value, ast.Constant):
            continue
        if isinstance(n, ast.Assign):
            # logger / T / _ATTR_STRUCT: module constants that carry no layout of their own
            # (_ATTR_STRUCT belongs to the hand-optimised Attribute codec: correspondence)
            names = [t.id for t in n.targets if isinstance(t, ast.Name)]
            if names and set(names) <= {'logger', 'T', '_ATTR_STRUCT'}:
                continue
            refuse(n, 'primitives.py: unexpected module-level assignment')
        if isinstance(n, ast.FunctionDef):
            if n.name not in PRIM_KNOWN_TOPLEVEL_FUNCS:
                raise Refuse(f'primitives.py: unknown function {n.name}')
            if n.name == 'decode_string':
                check_fp('primitives.decode_string', n)
                seen_fp.add('primitives.decode_string')
            continue
        if not isinstance(n, ast.ClassDef):
            refuse(n, 'primitives.py: unexpected top-level statement')
        bases = [ast.unparse(b) for b in n.bases]
        if n.name in PRIM_IGNORED_CLASSES:
            continue
        if bases == ['int']:
            prims[n.name] = parse_int_class(n)
        elif n.name in ('string', 'bytearr', 'ipaddr', 'array', 'ProtocolDataclass', 'MessageDataclass'):
            check_fp('primitives.' + n.name, n)
            seen_fp.add('primitives.' + n.name)
            if n.name in ('string', 'bytearr', 'ipaddr'):
                prims[n.name] = [{'string': 'str', 'bytearr': 'bytes', 'ipaddr': 'ip'}[n.name]]
        elif bases == ['ProtocolDataclass']:
            decos = [ast.unparse(d) for d in n.decorator_list]
            if decos != ['dataclass(frozen=True, order=True, slots=True)']:
                raise Refuse(f'record {n.name}: decorators {decos}')
            fs = []
            for s in n.body:
                if isinstance(s, ast.Expr) and isinstance(s.value, ast.Constant):
                    continue
                if isinstance(s, (ast.FunctionDef, ast.AsyncFunctionDef)):
                    # hand-optimised codecs / helpers: not translated, covered by correspondence
                    if s.name not in ('deserialize', 'serialize', 'serialize_into', 'get_attribute_map'):
                        raise Refuse(f'record {n.name}: unknown method {s.name}')
                    continue
                if (isinstance(s, ast.AnnAssign) and isinstance(s.target, ast.Name) and isinstance(s.value, ast.Call)
                        and isinstance(s.value.func, ast.Name) and s.value.func.id == 'field' and not s.value.args):
                    f = parse_field(n.name, s.target.id, s.value, {'type', 'subtype'})
                    if f['default'] != 'required':
                        raise Refuse(f'record {n.name}.{f["name"]}: defaults are not accepted in nested records')
                    fs.append(f)
                    continue
                refuse(s, f'record {n.name}: unexpected statement')
            if not fs:
                raise Refuse(f'record {n.name}: no fields')
            records[n.name] = fs
        else:
            raise Refuse(f'primitives.py: unknown class {n.name}({", ".join(bases)})')
    missing = {k for k in FINGERPRINTS if k.startswith('primitives.')} - seen_fp
    if missing:
        raise Refuse(f'primitives.py: not found: {sorted(missing)}')
    for need in ('uint8', 'uint16', 'uint32', 'uint64', 'int32', 'boolean', 'string', 'bytearr', 'ipaddr'):
        if need not in prims:
            raise Refuse(f'primitives.py: primitive {need} not found')
    # resolve record field types
    rec_out = {}
    for rn, fs in records.items():
        rec_out[rn] = [[f['name'], type_ref(f, prims, records, rn)] for f in fs]
    return prims, rec_out


def parse_int_class(n: ast.ClassDef):
    st = None
    for s in n.body:
        if isinstance(s, ast.Assign) and len(s.targets) == 1 and isinstance(s.targets[0], ast.Name) and s.targets[0].id == 'STRUCT':
            st = s
    if st is None or not (isinstance(st.value, ast.Call) and ast.unparse(st.value.func) == 'struct.Struct'
                          and len(st.value.args) == 1 and isinstance(st.value.args[0], ast.Constant)
                          and isinstance(st.value.args[0].value, str)):
        raise Refuse(f'primitive {n.name}: STRUCT = struct.Struct(<literal>) not found')
    fmt = st.value.args[0].value
    if fmt == '<?':
        kind, ret = ['bool'], 'bool'
    elif fmt in INT_FORMATS:
        w, sg = INT_FORMATS[fmt]
        kind, ret = ['int', w, sg], 'int'
    else:
        raise Refuse(f'primitive {n.name}: format {fmt!r} not accepted')
    exp = text(ast.parse(INT_CLASS_TEMPLATE.format(name=n.name, fmt=fmt, ret=ret)).body[0])
    if text(n) != exp:
        raise Refuse(f'primitive {n.name}: class body differs from the struct-based template:\n{text(n)}')
    return kind


def type_ref(f: dict, prims: dict, records: dict, owner: str, extra: dict | None = None):
    """JSON type of a parsed field: primitive/record name, or {'array': name}."""
    extra = extra or {}

    def base(name):
        if name in prims or name in records or name in extra:
            return name
        raise Refuse(f'{owner}.{f["name"]}: unknown wire type {name}')
    if f['type'] == 'array':
        if f['subtype'] is None:
            raise Refuse(f'{owner}.{f["name"]}: array without subtype')
        if f['subtype'] == 'array':
            raise Refuse(f'{owner}.{f["name"]}: array of arrays has no element subtype')
        return {'array': base(f['subtype'])}
    if f['subtype'] is not None:
        raise Refuse(f'{owner}.{f["name"]}: subtype on a non-array')
    return base(f['type'])


# ----------------------------------------------------------------------------------------
def parse_messages(src: Path, prims: dict, records: dict):
    tree = ast.parse((src / 'aioslsk' / 'protocol' / 'messages.py').read_text())
    fam_width = {}
    messages = []
    ticket_seen = False
    imported = set()
    for n in tree.body:
        if isinstance(n, ast.ImportFrom):
            if n.module == 'primitives' and n.level == 1:
                imported |= {a.name for a in n.names if a.asname is None}
                if any(a.asname for a in n.names):
                    raise Refuse('messages.py: aliased import from primitives')
            continue
        if isinstance(n, ast.Import):
            continue
        if isinstance(n, ast.Expr) and isinstance(n.value, ast.Constant):
            continue
        if isinstance(n, ast.Assign) and [ast.unparse(t) for t in n.targets] == ['logger']:
            continue
        if not isinstance(n, ast.ClassDef):
            refuse(n, 'messages.py: unexpected top-level statement')
        bases = [ast.unparse(b) for b in n.bases]
        if n.name in FAMILIES and not bases:
            fam_width[FAMILIES[n.name]] = parse_family(n, prims)
            continue
        if n.name == '_PeerInitTicket':
            check_fp('messages._PeerInitTicket', n)
            ticket_seen = True
            continue
        if len(bases) != 1 or bases[0] not in FAMILIES:
            raise Refuse(f'messages.py: class {n.name}({", ".join(bases)}) is not a message of a known family')
        fam = FAMILIES[bases[0]]
        if fam not in fam_width:
            raise Refuse(f'{n.name}: family class defined after its first message')
        for m in n.body:
            if isinstance(m, ast.Expr) and isinstance(m.value, ast.Constant):
                continue
            if not isinstance(m, ast.ClassDef) or m.name not in ('Request', 'Response'):
                refuse(m, f'{n.name}: only nested Request/Response dataclasses are accepted')
            if m.name == 'Response' and fam != 'server':
                raise Refuse(f'{n.name}.Response: only server messages have responses')
            messages.append(parse_message(n.name, m, fam, prims, records, ticket_seen))
    for t in ('uint8', 'uint32'):
        if t not in imported:
            raise Refuse(f'messages.py does not import {t} from .primitives')
    if set(fam_width) != set(FAMILIES.values()):
        raise Refuse('messages.py: family classes missing')
    return fam_width, messages


def parse_family(n: ast.ClassDef, prims: dict):
    """-> {'request': width[, 'response': width]} from the deserialize_* class methods."""
    out = {}
    for s in n.body:
        if isinstance(s, ast.Expr) and isinstance(s.value, ast.Constant):
            continue
        if not isinstance(s, ast.FunctionDef) or not s.name.startswith('deserialize_'):
            refuse(s, f'{n.name}: unexpected member')
        what = s.name[len('deserialize_'):]
        if what not in ('request', 'response'):
            raise Refuse(f'{n.name}.{s.name}: unknown dispatcher')
        got = text(s)
        m = re.search(r'_, msg_id = (\w+)\.deserialize\(4, message\)', got)
        if not m:
            raise Refuse(f'{n.name}.{s.name}: id read not recognised')
        prim = m.group(1)
        ok = False
        for ann in ('', ': bytes'):
            mt = re.search(r'raise UnknownMessageError\(msg_id, message, (.+)\)$', got)
            if not mt:
                break
            exp = text(ast.parse(FAMILY_METHOD_TEMPLATE.format(what=what, attr=what.capitalize(), prim=prim, ann=ann,
                                                                text=mt.group(1))).body[0])
            if exp == got:
                ok = True
        if not ok:
            raise Refuse(f'{n.name}.{s.name}: dispatcher differs from the template:\n{got}')
        k = prims.get(prim)
        if not k or k[0] != 'int' or k[2]:
            raise Refuse(f'{n.name}.{s.name}: id primitive {prim}')
        out[what] = k[1]
    if 'request' not in out:
        raise Refuse(f'{n.name}: no deserialize_request')
    if len(set(out.values())) != 1:
        raise Refuse(f'{n.name}: request/response id widths differ')
    return out['request']


def parse_message(outer: str, m: ast.ClassDef, fam: str, prims: dict, records: dict, ticket_seen: bool):
    qual = f'{outer}.{m.name}'
    decos = [ast.unparse(d) for d in m.decorator_list]
    if decos != ['dataclass(order=True, slots=True)'] or [ast.unparse(b) for b in m.bases] != ['MessageDataclass']:
        raise Refuse(f'{qual}: must be @dataclass(order=True, slots=True) class ...(MessageDataclass)')
    fields, mid, methods = dataclass_fields(m)
    if mid is None:
        raise Refuse(f'{qual}: no MESSAGE_ID')
    ann = ast.unparse(mid.annotation)
    mm = re.fullmatch(r'ClassVar\[(\w+)\]', ann)
    v = mid.value
    if not (mm and isinstance(v, ast.Call) and isinstance(v.func, ast.Name) and v.func.id == mm.group(1) and len(v.args) == 1
            and not v.keywords and isinstance(v.args[0], ast.Constant) and isinstance(v.args[0].value, int)
            and not isinstance(v.args[0].value, bool)):
        refuse(mid, f'{qual}: MESSAGE_ID must be `ClassVar[uintN] = uintN(<int>)`')
    idk = prims.get(mm.group(1))
    if not idk or idk[0] != 'int' or idk[2]:
        raise Refuse(f'{qual}: MESSAGE_ID type {mm.group(1)}')
    msg_id, id_width = v.args[0].value, idk[1]
    if not (0 <= msg_id < 256 ** id_width):
        raise Refuse(f'{qual}: MESSAGE_ID {msg_id} does not fit {mm.group(1)}')
    # methods
    mt = [text(x) for x in methods]
    compressed = False
    if mt == [text(ast.parse(t).body[0]) for t in COMPRESS_METHODS]:
        compressed = True
    elif mt == [text(ast.parse(t).body[0]) for t in IS_ADMIN_METHODS] and qual == 'PrivateChatMessage.Response':
        pass
    elif mt:
        raise Refuse(f'{qual}: unexpected methods: {mt}')
    out_fields = []
    names = []
    for name, call, node in fields:
        f = parse_field(qual, name, call, {'type', 'subtype', 'if_true', 'if_false', 'optional'})
        extra = {'_PeerInitTicket': ['ticket']} if ticket_seen else {}
        ty = type_ref(f, prims, records, qual, extra)
        cond = None
        ref = f['if_true'] if f['if_true'] is not None else f['if_false']
        if ref is not None:
            if ref not in names:
                raise Refuse(f'{qual}.{name}: condition on {ref!r}, which is not an earlier field')
            cond = [names.index(ref), f['if_true'] is not None]
        d = f['default']
        # a Python bool is an int: a bool default on an integer-typed field is its integer value
        base = ty if isinstance(ty, str) else None
        if isinstance(d, bool) and base and (prims.get(base) or [''])[0] == 'int':
            d = int(d)
        if isinstance(d, int) and not isinstance(d, bool) and base and (prims.get(base) or [''])[0] == 'bool':
            raise Refuse(f'{qual}.{name}: integer default on a boolean field')
        out_fields.append({'name': name, 'type': ty, 'cond': cond, 'optional': f['optional'],
                           'default': 'None' if d is None else d})
        names.append(name)
    return {'name': qual, 'family': fam, 'dir': m.name.lower(), 'id': msg_id, 'id_width': id_width,
            'compressed': compressed, 'fields': out_fields}


# ----------------------------------------------------------------------------------------
def layout(src: Path) -> dict:
    prims, records = parse_primitives(src)
    fam_width, messages = parse_messages(src, prims, records)
    prims = dict(prims)
    prims['_PeerInitTicket'] = ['ticket']
    return {'primitives': prims, 'records': records, 'family_id_width': fam_width, 'messages': messages}


def coq_str(s: str) -> str:
    assert '"' not in s
    return f'"{s}"%string'


def coq_ty_expanded(t, lay) -> str:
    if isinstance(t, dict):
        return f'(TArr {coq_ty_expanded(t["array"], lay)})'
    if t in lay['primitives']:
        k = lay['primitives'][t]
        if k[0] == 'int':
            return f'(TInt {k[1]} {"true" if k[2] else "false"})'
        return {'bool': 'TBool', 'str': 'TStr', 'bytes': 'TBytes', 'ip': 'TIp', 'ticket': 'TTicket'}[k[0]]
    if t in lay['records']:
        return '(TRec [' + '; '.join(coq_ty_expanded(ft, lay) for _, ft in lay['records'][t]) + '])'
    raise Refuse(f'unknown type {t}')


def coq_ty_named(t, lay) -> str:
    if isinstance(t, dict):
        return f'(TArr {coq_ty_named(t["array"], lay)})'
    if t in lay['primitives']:
        return 'T_' + t.lstrip('_')
    if t in lay['records']:
        return 'R_' + t
    raise Refuse(f'unknown type {t}')


def coq_default(d) -> str:
    if d == 'required':
        return 'None'
    if d == 'None':
        return '(Some VNone)'
    if isinstance(d, bool):
        return f'(Some (VBool {"true" if d else "false"}))'
    if isinstance(d, int):
        return f'(Some (VInt {d if d >= 0 else "(%d)" % d}%Z))'
    raise Refuse(f'default {d!r}')


def coq_schema(m: dict, lay: dict, tyf) -> str:
    fs = []
    for f in m['fields']:
        cond = 'None' if f['cond'] is None else f'(Some ({f["cond"][0]}%nat, {"true" if f["cond"][1] else "false"}))'
        fs.append(f'   mkField {coq_str(f["name"])} {tyf(f["type"], lay)} {cond} {"true" if f["optional"] else "false"} {coq_default(f["default"])}')
    body = ';\n'.join(fs)
    return (f'mkSchema {coq_str(m["name"])} {FAMILY_COQ[m["family"]]} {"DRequest" if m["dir"] == "request" else "DResponse"} '
            f'{m["id"]}%N {m["id_width"]}%nat {"true" if m["compressed"] else "false"} [\n{body}]')


def ident(name: str) -> str:
    return 's_' + name.replace('.', '_')


HDR = ('(* GENERATED by /verif/translate/tr_messages.py from {src} -- do not edit; regenerated on every run *)\n'
       'From Coq Require Import ZArith List String.\nFrom Slsk Require Import C01.Types.\nImport ListNotations.\n\n')


def emit_prim(lay: dict) -> str:
    out = [HDR.format(src='src/aioslsk/protocol/primitives.py')]
    out.append('(* integer / boolean primitives: (width, signed) decoded from the STRUCT format string *)\n')
    for name, k in lay['primitives'].items():
        out.append(f'Definition T_{name.lstrip("_")} : ty := {coq_ty_expanded(name, lay)}.\n')
    out.append('\n(* nested record classes (ProtocolDataclass): field types in declaration order *)\n')
    for name, fs in lay['records'].items():
        out.append(f'Definition R_{name} : ty := TRec [' + '; '.join(coq_ty_named(t, lay) for _, t in fs) + '].\n')
        out.append(f'Definition RF_{name} : list string := [' + '; '.join(coq_str(n) for n, _ in fs) + '].\n')
    out.append('\nDefinition all_prims : list ty := [' + '; '.join('T_' + n.lstrip('_') for n in lay['primitives']) + '].\n')
    out.append('Definition all_records : list ty := [' + '; '.join('R_' + n for n in lay['records']) + '].\n')
    return ''.join(out)


def emit_schema(lay: dict) -> str:
    out = [HDR.format(src='src/aioslsk/protocol/messages.py')]
    out.append('From SlskGen Require Import PrimGen.\n\n')
    for m in lay['messages']:
        out.append(f'Definition {ident(m["name"])} : schema :=\n {coq_schema(m, lay, coq_ty_named)}.\n\n')
    out.append('(* definition order = order of __subclasses__() = dispatch order *)\n')
    out.append('Definition all_schemas : list schema := [\n ' + ';\n '.join(ident(m['name']) for m in lay['messages']) + '].\n\n')
    fw = lay['family_id_width']
    out.append('(* width of the id read at offset 4 by XMessage.deserialize_request/response *)\n')
    out.append('Definition gen_fam_width (f : family) : nat :=\n match f with\n' +
               ''.join(f' | {FAMILY_COQ[k]} => {fw[k]}%nat\n' for k in FAMILY_COQ) + ' end.\n')
    return ''.join(out)


def emit_pinned(pin: dict) -> str:
    out = [HDR.format(src='/verif/pinned/layout.json (snapshot of the wire layout at the pinned commit)')]
    out.append('Definition pinned_schemas : list schema := [\n ' +
               ';\n '.join(coq_schema(m, pin, coq_ty_expanded) for m in pin['messages']) + '].\n\n')
    fw = pin['family_id_width']
    out.append('Definition pinned_fam_width (f : family) : nat :=\n match f with\n' +
               ''.join(f' | {FAMILY_COQ[k]} => {fw[k]}%nat\n' for k in FAMILY_COQ) + ' end.\n\n')
    out.append('Definition pinned_prims : list ty := [' + '; '.join(coq_ty_expanded(n, pin) for n in pin['primitives']) + '].\n')
    out.append('Definition pinned_records : list ty := [' + '; '.join(coq_ty_expanded(n, pin) for n in pin['records']) + '].\n')
    return ''.join(out)


def translate(src: Path) -> dict:
    lay = layout(src)
    if not PINNED.exists():
        raise Refuse(f'{PINNED} missing (the pinned protocol layout)')
    pin = json.loads(PINNED.read_text())['layout']
    return {'PrimGen.v': emit_prim(lay), 'SchemaGen.v': emit_schema(lay), 'PinnedGen.v': emit_pinned(pin)}


def current_fingerprints(src: Path) -> dict:
    out = {}
    t = ast.parse((src / 'aioslsk' / 'protocol' / 'primitives.py').read_text())
    for n in t.body:
        if isinstance(n, (ast.ClassDef, ast.FunctionDef)) and 'primitives.' + n.name in FINGERPRINTS:
            out['primitives.' + n.name] = fingerprint(n)
    t = ast.parse((src / 'aioslsk' / 'protocol' / 'messages.py').read_text())
    for n in t.body:
        if isinstance(n, ast.ClassDef) and 'messages.' + n.name in FINGERPRINTS:
            out['messages.' + n.name] = fingerprint(n)
    return out


if __name__ == '__main__':
    import sys
    src = Path('/repo/src')
    if len(sys.argv) > 1 and sys.argv[1] == '--fingerprints':
        print(json.dumps(current_fingerprints(src), indent=1))
    elif len(sys.argv) > 1 and sys.argv[1] == '--layout':
        print(json.dumps(layout(src), indent=1))
    else:
        for k, v in translate(src).items():
            print(f'(* ==== {k} ==== *)')
            print(v[:3000])
