"""T1: protocol/primitives.py + protocol/messages.py -> gen/PrimGen.v, gen/SchemaGen.v, gen/PinnedGen.v

Fail-closed (``Refuse`` on anything outside the accepted shapes); the code is parsed with ``ast``
and never imported.

PrimGen.v    wire formats of the integer / boolean primitives decoded from their ``STRUCT``
             format strings (width, signedness), the procedural primitives (string, bytearr,
             ipaddr, array) as the constructors of the hand model (their source, and the source
             of ProtocolDataclass / MessageDataclass, is matched against the fingerprint of the
             text the hand model in C01/Model.v was written from), and the nested record classes.
SchemaGen.v  one ``schema`` per Request/Response dataclass: family, direction, MESSAGE_ID and its
             width, compression, and per field: wire type, condition (if_true / if_false resolved
             to the index of the referenced field), 'optional', dataclass default.  Dispatch id
             widths of the four family classes.
PinnedGen.v  the same table rebuilt from /verif/pinned/layout.json (snapshot of the layout at
             the pinned commit), with every type written out in full, for C01_layout_pinned.

``layout(src)`` returns the JSON form of the current layout (what pinned/layout.json stores).
"""
from __future__ import annotations

import ast
import hashlib
import json
import re
from pathlib import Path

from .pyexpr import Refuse, refuse

PINNED = Path(__file__).resolve().parent.parent / 'pinned' / 'layout.json'

INT_FORMATS = {'<B': (1, False), '<H': (2, False), '<I': (4, False), '<Q': (8, False),
               '<b': (1, True), '<h': (2, True), '<i': (4, True), '<q': (8, True)}

INT_CLASS_TEMPLATE = '''class {name}(int):
    STRUCT = struct.Struct({fmt!r})

    def serialize(self) -> bytes:
        return self.STRUCT.pack(self)

    def serialize_into(self, buffer: bytearray):
        buffer.extend(self.STRUCT.pack(self))

    @classmethod
    def deserialize(cls, pos: int, data: bytes) -> tuple[int, {ret}]:
        return (pos + cls.STRUCT.size, cls.STRUCT.unpack_from(data, offset=pos)[0])'''

FAMILY_METHOD_TEMPLATE = '''@classmethod
def deserialize_{what}(cls, message{ann}):
    _, msg_id = {prim}.deserialize(4, message)
    for msg_class in cls.__subclasses__():
        {what}_cls = getattr(msg_class, '{attr}', None)
        if {what}_cls and {what}_cls.MESSAGE_ID == msg_id:
            return {what}_cls.deserialize(0, message)
    raise UnknownMessageError(msg_id, message, {text})'''

COMPRESS_METHODS = [
    'def serialize(self, compress: bool=True) -> bytes:\n    return super(type(self), self).serialize(compress)',
    '@classmethod\ndef deserialize(cls, pos: int, message: bytes, decompress: bool=True):\n    return super(cls, cls).deserialize(pos, message, decompress)',
]
IS_ADMIN_METHODS = [
    '@property\ndef is_admin(self) -> Optional[bool]:\n    return self.is_direct',
    '@is_admin.setter\ndef is_admin(self, value: bool):\n    self.is_direct = value',
]

# Fingerprints (sha256 of the ast dump without docstrings) of the procedural code the hand model
# C01/Model.v was written from.  An edit of any of these is reported as a broken tie; whether
# it changes behaviour is then decided by the correspondence check / the search.
FINGERPRINTS = {
    'primitives.decode_string': '33668519a418eac4f5b31766',
    'primitives.string': 'e431ad88b64b19bf39f0ebfa',
    'primitives.bytearr': '6a74e7f8848f5cf59cbf230b',
    'primitives.ipaddr': '0cb2fd2dc0e472a6a63e1c23',
    'primitives.array': '2b0d13958035cdf6c8e2f5dd',
    'primitives.ProtocolDataclass': 'd21b042e72395816e34b3749',
    'primitives.MessageDataclass': '855cdee883cab46f98ea1beb',
    'messages._PeerInitTicket': '9c6df69e2b81d85fafcfacb1',
}

FAMILIES = {'ServerMessage': 'server', 'PeerInitializationMessage': 'peer_init', 'PeerMessage': 'peer',
            'DistributedMessage': 'distributed'}
FAMILY_COQ = {'server': 'FServer', 'peer_init': 'FPeerInit', 'peer': 'FPeer', 'distributed': 'FDistributed'}

PRIM_KNOWN_TOPLEVEL_FUNCS = {'decode_string', 'has_unparsed_bytes', 'calc_md5'}
PRIM_IGNORED_CLASSES = {'Serializable', 'AttributeKey'}


# ----------------------------------------------------------------------------------------
def strip_docstrings(node: ast.AST) -> ast.AST:
    """Return a copy of ``node`` in which docstrings and comments-as-strings are removed."""
    node = ast.parse(ast.unparse(node)).body[0] if not isinstance(node, ast.Module) else ast.parse(ast.unparse(node))
    for n in ast.walk(node):
        body = getattr(n, 'body', None)
        if isinstance(body, list):
            nb = [s for s in body if not (isinstance(s, ast.Expr) and isinstance(s.value, ast.Constant) and isinstance(s.value.value, str))]
            if not nb and body:
                nb = [ast.Pass()]
            n.body = nb
    return node


def fingerprint(node: ast.AST) -> str:
    return hashlib.sha256(ast.dump(strip_docstrings(node)).encode()).hexdigest()[:24]


def text(node: ast.AST) -> str:
    return ast.unparse(strip_docstrings(node)).strip()


def check_fp(name: str, node: ast.AST):
    exp = FINGERPRINTS[name]
    got = fingerprint(node)
    if exp != got:
        raise Refuse(f'{name}: source differs from the text the hand model was written from (fingerprint {got}, expected {exp})')


def dataclass_fields(cls: ast.ClassDef):
    """[(name, field-call)] of the AnnAssign statements `x: T = field(...)` in a class body;
    MESSAGE_ID ClassVar returned separately; methods returned as texts."""
    fields, msg_id, methods = [], None, []
    for s in cls.body:
        if isinstance(s, ast.Expr) and isinstance(s.value, ast.Constant) and isinstance(s.value.value, str):
            continue
        if isinstance(s, (ast.FunctionDef, ast.AsyncFunctionDef)):
            methods.append(s)
            continue
        if isinstance(s, ast.AnnAssign) and isinstance(s.target, ast.Name):
            if s.target.id == 'MESSAGE_ID':
                msg_id = s
                continue
            if isinstance(s.value, ast.Call) and isinstance(s.value.func, ast.Name) and s.value.func.id == 'field' and not s.value.args:
                fields.append((s.target.id, s.value, s))
                continue
        refuse(s, f'class {cls.name}: unexpected statement')
    return fields, msg_id, methods


def parse_field(owner: str, name: str, call: ast.Call, allow_meta: set):
    """-> dict(name, type, subtype, if_true, if_false, optional, default)"""
    out = {'name': name, 'type': None, 'subtype': None, 'if_true': None, 'if_false': None, 'optional': False,
           'default': 'required'}
    for kw in call.keywords:
        if kw.arg == 'default':
            v = kw.value
            if isinstance(v, ast.Constant) and (v.value is None or isinstance(v.value, (bool, int))):
                out['default'] = v.value
            else:
                refuse(v, f'{owner}.{name}: default must be None, a bool or an int literal')
        elif kw.arg == 'metadata':
            d = kw.value
            if not isinstance(d, ast.Dict):
                refuse(d, f'{owner}.{name}: metadata must be a dict literal')
            for k, v in zip(d.keys, d.values):
                if not (isinstance(k, ast.Constant) and isinstance(k.value, str)):
                    refuse(d, f'{owner}.{name}: metadata key')
                key = k.value
                if key not in allow_meta:
                    raise Refuse(f'{owner}.{name}: metadata key {key!r} not accepted here')
                if key in ('type', 'subtype'):
                    if not isinstance(v, ast.Name):
                        refuse(v, f'{owner}.{name}: {key} must be a class name')
                    out[key] = v.id
                elif key in ('if_true', 'if_false'):
                    if not (isinstance(v, ast.Constant) and isinstance(v.value, str)):
                        refuse(v, f'{owner}.{name}: {key} must be a field name literal')
                    out[key] = v.value
                elif key == 'optional':
                    if not (isinstance(v, ast.Constant) and v.value is True):
                        refuse(v, f"{owner}.{name}: 'optional' must be the literal True "
                                  "(the code tests the presence of the key, not its value)")
                    out['optional'] = True
        else:
            raise Refuse(f'{owner}.{name}: field() keyword {kw.arg!r} not accepted')
    if out['type'] is None:
        raise Refuse(f"{owner}.{name}: no 'type' in metadata")
    if out['if_true'] is not None and out['if_false'] is not None:
        raise Refuse(f'{owner}.{name}: both if_true and if_false')
    return out


# ----------------------------------------------------------------------------------------
FAST_METHODS: list = []
FAST_CODECS: list = []
STRUCT_CONSTS: dict = {}


def parse_primitives(src: Path):
    FAST_METHODS.clear()
    tree = ast.parse((src / 'aioslsk' / 'protocol' / 'primitives.py').read_text())
    prims: dict[str, list] = {}
    records: dict[str, list] = {}
    seen_fp = set()
    for n in tree.body:
        if isinstance(n, (ast.Import, ast.ImportFrom)):
            continue
        if isinstance(n, ast.Expr) and isinstance(n.value, ast.Constant):
            continue
        if isinstance(n, ast.Assign):
            # logger / T / _ATTR_STRUCT: module constants that carry no layout of their own
            # (_ATTR_STRUCT belongs to the hand-optimised Attribute codec: correspondence)
            names = [t.id for t in n.targets if isinstance(t, ast.Name)]
            if names == ['_ATTR_STRUCT']:
                if not (isinstance(n.value, ast.Call) and ast.unparse(n.value.func) == 'struct.Struct' and len(n.value.args) == 1
                        and isinstance(n.value.args[0], ast.Constant) and isinstance(n.value.args[0].value, str)):
                    refuse(n, '_ATTR_STRUCT must be struct.Struct(<literal>)')
                STRUCT_CONSTS['_ATTR_STRUCT'] = n.value.args[0].value
                continue
            if names and set(names) <= {'logger', 'T'}:
                continue
            refuse(n, 'primitives.py: unexpected module-level assignment')
        if isinstance(n, ast.FunctionDef):
            if n.name not in PRIM_KNOWN_TOPLEVEL_FUNCS:
                raise Refuse(f'primitives.py: unknown function {n.name}')
            if n.name == 'decode_string':
                check_fp('primitives.decode_string', n)
                seen_fp.add('primitives.decode_string')
            continue
        if not isinstance(n, ast.ClassDef):
            refuse(n, 'primitives.py: unexpected top-level statement')
        bases = [ast.unparse(b) for b in n.bases]
        if n.name in PRIM_IGNORED_CLASSES:
            continue
        if bases == ['int']:
            prims[n.name] = parse_int_class(n)
        elif n.name in ('string', 'bytearr', 'ipaddr', 'array', 'ProtocolDataclass', 'MessageDataclass'):
            check_fp('primitives.' + n.name, n)
            seen_fp.add('primitives.' + n.name)
            if n.name in ('string', 'bytearr', 'ipaddr'):
                prims[n.name] = [{'string': 'str', 'bytearr': 'bytes', 'ipaddr': 'ip'}[n.name]]
        elif bases == ['ProtocolDataclass']:
            decos = [ast.unparse(d) for d in n.decorator_list]
            if decos != ['dataclass(frozen=True, order=True, slots=True)']:
                raise Refuse(f'record {n.name}: decorators {decos}')
            fs = []
            for s in n.body:
                if isinstance(s, ast.Expr) and isinstance(s.value, ast.Constant):
                    continue
                if isinstance(s, (ast.FunctionDef, ast.AsyncFunctionDef)):
                    # hand-optimised codecs: translated into the field sequence they read / write
                    # (translate_fast_codec, proved equal to the metadata-driven sequence in C01_fast_codecs)
                    if s.name not in ('deserialize', 'serialize', 'serialize_into', 'get_attribute_map'):
                        raise Refuse(f'record {n.name}: unknown method {s.name}')
                    if s.name != 'get_attribute_map':
                        FAST_METHODS.append((n.name, s))
                    continue
                if (isinstance(s, ast.AnnAssign) and isinstance(s.target, ast.Name) and isinstance(s.value, ast.Call)
                        and isinstance(s.value.func, ast.Name) and s.value.func.id == 'field' and not s.value.args):
                    f = parse_field(n.name, s.target.id, s.value, {'type', 'subtype'})
                    if f['default'] != 'required':
                        raise Refuse(f'record {n.name}.{f["name"]}: defaults are not accepted in nested records')
                    fs.append(f)
                    continue
                refuse(s, f'record {n.name}: unexpected statement')
            if not fs:
                raise Refuse(f'record {n.name}: no fields')
            records[n.name] = fs
        else:
            raise Refuse(f'primitives.py: unknown class {n.name}({", ".join(bases)})')
    missing = {k for k in FINGERPRINTS if k.startswith('primitives.')} - seen_fp
    if missing:
        raise Refuse(f'primitives.py: not found: {sorted(missing)}')
    for need in ('uint8', 'uint16', 'uint32', 'uint64', 'int32', 'boolean', 'string', 'bytearr', 'ipaddr'):
        if need not in prims:
            raise Refuse(f'primitives.py: primitive {need} not found')
    # resolve record field types
    rec_out = {}
    for rn, fs in records.items():
        rec_out[rn] = [[f['name'], type_ref(f, prims, records, rn)] for f in fs]
    FAST_CODECS.clear()
    for rn, fn in FAST_METHODS:
        FAST_CODECS.append((rn, fn.name, translate_fast_codec(rn, fn, prims, rec_out)))
    return prims, rec_out


def parse_int_class(n: ast.ClassDef):
    st = None
    for s in n.body:
        if isinstance(s, ast.Assign) and len(s.targets) == 1 and isinstance(s.targets[0], ast.Name) and s.targets[0].id == 'STRUCT':
            st = s
    if st is None or not (isinstance(st.value, ast.Call) and ast.unparse(st.value.func) == 'struct.Struct'
                          and len(st.value.args) == 1 and isinstance(st.value.args[0], ast.Constant)
                          and isinstance(st.value.args[0].value, str)):
        raise Refuse(f'primitive {n.name}: STRUCT = struct.Struct(<literal>) not found')
    fmt = st.value.args[0].value
    if fmt == '<?':
        kind, ret = ['bool'], 'bool'
    elif fmt in INT_FORMATS:
        w, sg = INT_FORMATS[fmt]
        kind, ret = ['int', w, sg], 'int'
    else:
        raise Refuse(f'primitive {n.name}: format {fmt!r} not accepted')
    exp = text(ast.parse(INT_CLASS_TEMPLATE.format(name=n.name, fmt=fmt, ret=ret)).body[0])
    if text(n) != exp:
        raise Refuse(f'primitive {n.name}: class body differs from the struct-based template:\n{text(n)}')
    return kind


def type_ref(f: dict, prims: dict, records: dict, owner: str, extra: dict | None = None):
    """JSON type of a parsed field: primitive/record name, or {'array': name}."""
    extra = extra or {}

    def base(name):
        if name in prims or name in records or name in extra:
            return name
        raise Refuse(f'{owner}.{f["name"]}: unknown wire type {name}')
    if f['type'] == 'array':
        if f['subtype'] is None:
            raise Refuse(f'{owner}.{f["name"]}: array without subtype')
        if f['subtype'] == 'array':
            raise Refuse(f'{owner}.{f["name"]}: array of arrays has no element subtype')
        return {'array': base(f['subtype'])}
    if f['subtype'] is not None:
        raise Refuse(f'{owner}.{f["name"]}: subtype on a non-array')
    return base(f['type'])


# ----------------------------------------------------------------------------------------
FMT_CHAR = {'B': 'uint8', 'H': 'uint16', 'I': 'uint32', 'Q': 'uint64', 'i': 'int32'}


def _struct_types(fmt: str, prims: dict) -> list:
    if not fmt.startswith('<'):
        raise Refuse(f'struct format {fmt!r}: not little endian')
    out = []
    for ch in fmt[1:]:
        name = FMT_CHAR.get(ch)
        if name is None or prims.get(name) != ['int'] + list(INT_FORMATS['<' + ch]):
            raise Refuse(f'struct format {fmt!r}: character {ch!r} has no primitive of the same wire format')
        out.append(name)
    return out


def _stmts(fn):
    return [x for x in fn.body if not (isinstance(x, ast.Expr) and isinstance(x.value, ast.Constant) and isinstance(x.value.value, str))]


def _ser_term(e, owner):
    """`<prim>(self.<f>).serialize[_into](...)` / `array(self.<f>).serialize[_into](..., <Elem>)` -> (field, type)"""
    if not (isinstance(e, ast.Call) and isinstance(e.func, ast.Attribute) and e.func.attr in ('serialize', 'serialize_into')
            and isinstance(e.func.value, ast.Call) and isinstance(e.func.value.func, ast.Name) and len(e.func.value.args) == 1
            and not e.func.value.keywords and not e.keywords):
        refuse(e, f'{owner}: serialisation term')
    arg = e.func.value.args[0]
    if not (isinstance(arg, ast.Attribute) and isinstance(arg.value, ast.Name) and arg.value.id == 'self'):
        refuse(e, f'{owner}: serialised value must be self.<field>')
    args = [ast.unparse(a) for a in e.args]
    if e.func.attr == 'serialize_into':
        if not args or args[0] != 'buffer':
            refuse(e, f'{owner}: serialize_into target')
        args = args[1:]
    prim = e.func.value.func.id
    if prim == 'array':
        if len(args) != 1:
            refuse(e, f'{owner}: array without element type')
        return arg.attr, {'array': args[0]}
    if args:
        refuse(e, f'{owner}: unexpected arguments')
    return arg.attr, prim


def translate_fast_codec(rec: str, fn, prims: dict, records: dict) -> list:
    """-> [[field name, json type]] in the order the hand-written method reads / writes them."""
    owner = f'{rec}.{fn.name}'
    st = _stmts(fn)
    seq = []
    if fn.name == 'deserialize':
        var_ty = []
        i = 0
        # (a) struct based: `a, b = _X.unpack_from(message, pos)`
        if st and isinstance(st[0], ast.Assign) and isinstance(st[0].value, ast.Call) and ast.unparse(st[0].value.func).endswith('.unpack_from'):
            sname = ast.unparse(st[0].value.func).split('.')[0]
            if sname not in STRUCT_CONSTS or [ast.unparse(a) for a in st[0].value.args] != ['message', 'pos']:
                refuse(st[0], f'{owner}: unpack_from')
            names = [e.id for e in st[0].targets[0].elts]
            tys = _struct_types(STRUCT_CONSTS[sname], prims)
            if len(names) != len(tys):
                refuse(st[0], f'{owner}: {len(names)} targets for format {STRUCT_CONSTS[sname]}')
            var_ty = list(zip(names, tys))
            i = 1
            end_expr = f'pos + {sname}.size'
        else:
            while i < len(st) and isinstance(st[i], ast.Assign) and isinstance(st[i].targets[0], ast.Tuple):
                a = st[i]
                tg = [e.id for e in a.targets[0].elts]
                c = a.value
                if not (len(tg) == 2 and tg[0] == 'pos' and isinstance(c, ast.Call) and isinstance(c.func, ast.Attribute) and c.func.attr == 'deserialize'
                        and isinstance(c.func.value, ast.Name) and [ast.unparse(x) for x in c.args[:2]] == ['pos', 'message']):
                    refuse(a, f'{owner}: field read')
                prim = c.func.value.id
                extra = [ast.unparse(x) for x in c.args[2:]] + [ast.unparse(k.value) for k in c.keywords if k.arg == 'element_type']
                if prim == 'array':
                    if len(extra) != 1:
                        refuse(a, f'{owner}: array read without element type')
                    var_ty.append((tg[1], {'array': extra[0]}))
                else:
                    if extra:
                        refuse(a, f'{owner}: unexpected arguments')
                    var_ty.append((tg[1], prim))
                i += 1
            end_expr = 'pos'
        rest = st[i:]
        vt = dict(var_ty)
        # (b) object construction: cls(<vars in order>)  |  object.__new__ + __setattr__ per field
        if len(rest) == 1 and isinstance(rest[0], ast.Return) and isinstance(rest[0].value, ast.Tuple) and len(rest[0].value.elts) == 2 \
                and ast.unparse(rest[0].value.elts[0]) == end_expr and isinstance(rest[0].value.elts[1], ast.Call) \
                and ast.unparse(rest[0].value.elts[1].func) == 'cls' and not rest[0].value.elts[1].keywords:
            order = [ast.unparse(a) for a in rest[0].value.elts[1].args]
            fnames = [f for f, _ in records[rec]]
            if len(order) != len(fnames) or [v for v, _ in var_ty] != order:
                refuse(rest[0], f'{owner}: constructor arguments {order}')
            seq = [[f, vt[v]] for f, v in zip(fnames, order)]
        else:
            if not rest or ast.unparse(rest[0]) != 'obj = object.__new__(cls)' or ast.unparse(rest[-1]) != f'return ({end_expr}, obj)':
                raise Refuse(f'{owner}: object construction not recognised: {[ast.unparse(x) for x in rest]}')
            setter = 'object.__setattr__'
            body = rest[1:-1]
            if body and ast.unparse(body[0]) == 'set_attr = object.__setattr__':
                setter, body = 'set_attr', body[1:]
            assigned = {}
            for x in body:
                c = x.value if isinstance(x, ast.Expr) else None
                if not (isinstance(c, ast.Call) and ast.unparse(c.func) == setter and len(c.args) == 3 and ast.unparse(c.args[0]) == 'obj'
                        and isinstance(c.args[1], ast.Constant) and isinstance(c.args[2], ast.Name) and c.args[2].id in vt):
                    refuse(x, f'{owner}: attribute assignment')
                assigned[c.args[2].id] = c.args[1].value
            if set(assigned) != set(vt):
                raise Refuse(f'{owner}: not every value read is stored: {assigned}')
            seq = [[assigned[v], t] for v, t in var_ty]
    else:
        if len(st) != 1 and fn.name == 'serialize':
            raise Refuse(f'{owner}: expected a single return statement')
        terms = []
        if fn.name == 'serialize':
            r = st[0]
            if not isinstance(r, ast.Return):
                refuse(r, f'{owner}: return')
            e = r.value

            def flat(x):
                if isinstance(x, ast.BinOp) and isinstance(x.op, ast.Add):
                    return flat(x.left) + flat(x.right)
                return [x]
            terms = flat(e)
        else:
            for x in st:
                if not isinstance(x, ast.Expr):
                    refuse(x, f'{owner}: statement')
                terms.append(x.value)
        # struct based: `_X.pack(self.a, self.b)` possibly inside buffer.extend(...)
        if len(terms) == 1:
            t = terms[0]
            if isinstance(t, ast.Call) and ast.unparse(t.func) == 'buffer.extend' and len(t.args) == 1:
                t = t.args[0]
            if isinstance(t, ast.Call) and ast.unparse(t.func).endswith('.pack') and ast.unparse(t.func).split('.')[0] in STRUCT_CONSTS:
                tys = _struct_types(STRUCT_CONSTS[ast.unparse(t.func).split('.')[0]], prims)
                fs = []
                for a in t.args:
                    if not (isinstance(a, ast.Attribute) and isinstance(a.value, ast.Name) and a.value.id == 'self'):
                        refuse(a, f'{owner}: packed value must be self.<field>')
                    fs.append(a.attr)
                if len(fs) != len(tys):
                    raise Refuse(f'{owner}: {len(fs)} values for {len(tys)} format characters')
                return [[f, ty] for f, ty in zip(fs, tys)]
        seq = [list(_ser_term(t, owner)) for t in terms]
    for f, t in seq:
        base = t['array'] if isinstance(t, dict) else t
        if base not in prims and base not in records:
            raise Refuse(f'{owner}: unknown type {base}')
    return seq


# ----------------------------------------------------------------------------------------
def parse_messages(src: Path, prims: dict, records: dict):
    tree = ast.parse((src / 'aioslsk' / 'protocol' / 'messages.py').read_text())
    fam_width = {}
    messages = []
    ticket_seen = False
    imported = set()
    for n in tree.body:
        if isinstance(n, ast.ImportFrom):
            if n.module == 'primitives' and n.level == 1:
                imported |= {a.name for a in n.names if a.asname is None}
                if any(a.asname for a in n.names):
                    raise Refuse('messages.py: aliased import from primitives')
            continue
        if isinstance(n, ast.Import):
            continue
        if isinstance(n, ast.Expr) and isinstance(n.value, ast.Constant):
            continue
        if isinstance(n, ast.Assign) and [ast.unparse(t) for t in n.targets] == ['logger']:
            continue
        if not isinstance(n, ast.ClassDef):
            refuse(n, 'messages.py: unexpected top-level statement')
        bases = [ast.unparse(b) for b in n.bases]
        if n.name in FAMILIES and not bases:
            fam_width[FAMILIES[n.name]] = parse_family(n, prims)
            continue
        if n.name == '_PeerInitTicket':
            check_fp('messages._PeerInitTicket', n)
            ticket_seen = True
            continue
        if len(bases) != 1 or bases[0] not in FAMILIES:
            raise Refuse(f'messages.py: class {n.name}({", ".join(bases)}) is not a message of a known family')
        fam = FAMILIES[bases[0]]
        if fam not in fam_width:
            raise Refuse(f'{n.name}: family class defined after its first message')
        for m in n.body:
            if isinstance(m, ast.Expr) and isinstance(m.value, ast.Constant):
                continue
            if not isinstance(m, ast.ClassDef) or m.name not in ('Request', 'Response'):
                refuse(m, f'{n.name}: only nested Request/Response dataclasses are accepted')
            if m.name == 'Response' and fam != 'server':
                raise Refuse(f'{n.name}.Response: only server messages have responses')
            messages.append(parse_message(n.name, m, fam, prims, records, ticket_seen))
    for t in ('uint8', 'uint32'):
        if t not in imported:
            raise Refuse(f'messages.py does not import {t} from .primitives')
    if set(fam_width) != set(FAMILIES.values()):
        raise Refuse('messages.py: family classes missing')
    return fam_width, messages


def parse_family(n: ast.ClassDef, prims: dict):
    """-> {'request': width[, 'response': width]} from the deserialize_* class methods."""
    out = {}
    for s in n.body:
        if isinstance(s, ast.Expr) and isinstance(s.value, ast.Constant):
            continue
        if not isinstance(s, ast.FunctionDef) or not s.name.startswith('deserialize_'):
            refuse(s, f'{n.name}: unexpected member')
        what = s.name[len('deserialize_'):]
        if what not in ('request', 'response'):
            raise Refuse(f'{n.name}.{s.name}: unknown dispatcher')
        got = text(s)
        m = re.search(r'_, msg_id = (\w+)\.deserialize\(4, message\)', got)
        if not m:
            raise Refuse(f'{n.name}.{s.name}: id read not recognised')
        prim = m.group(1)
        ok = False
        for ann in ('', ': bytes'):
            mt = re.search(r'raise UnknownMessageError\(msg_id, message, (.+)\)$', got)
            if not mt:
                break
            exp = text(ast.parse(FAMILY_METHOD_TEMPLATE.format(what=what, attr=what.capitalize(), prim=prim, ann=ann,
                                                                text=mt.group(1))).body[0])
            if exp == got:
                ok = True
        if not ok:
            raise Refuse(f'{n.name}.{s.name}: dispatcher differs from the template:\n{got}')
        k = prims.get(prim)
        if not k or k[0] != 'int' or k[2]:
            raise Refuse(f'{n.name}.{s.name}: id primitive {prim}')
        out[what] = k[1]
    if 'request' not in out:
        raise Refuse(f'{n.name}: no deserialize_request')
    if len(set(out.values())) != 1:
        raise Refuse(f'{n.name}: request/response id widths differ')
    return out['request']


def parse_message(outer: str, m: ast.ClassDef, fam: str, prims: dict, records: dict, ticket_seen: bool):
    qual = f'{outer}.{m.name}'
    decos = [ast.unparse(d) for d in m.decorator_list]
    if decos != ['dataclass(order=True, slots=True)'] or [ast.unparse(b) for b in m.bases] != ['MessageDataclass']:
        raise Refuse(f'{qual}: must be @dataclass(order=True, slots=True) class ...(MessageDataclass)')
    fields, mid, methods = dataclass_fields(m)
    if mid is None:
        raise Refuse(f'{qual}: no MESSAGE_ID')
    ann = ast.unparse(mid.annotation)
    mm = re.fullmatch(r'ClassVar\[(\w+)\]', ann)
    v = mid.value
    if not (mm and isinstance(v, ast.Call) and isinstance(v.func, ast.Name) and v.func.id == mm.group(1) and len(v.args) == 1
            and not v.keywords and isinstance(v.args[0], ast.Constant) and isinstance(v.args[0].value, int)
            and not isinstance(v.args[0].value, bool)):
        refuse(mid, f'{qual}: MESSAGE_ID must be `ClassVar[uintN] = uintN(<int>)`')
    idk = prims.get(mm.group(1))
    if not idk or idk[0] != 'int' or idk[2]:
        raise Refuse(f'{qual}: MESSAGE_ID type {mm.group(1)}')
    msg_id, id_width = v.args[0].value, idk[1]
    if not (0 <= msg_id < 256 ** id_width):
        raise Refuse(f'{qual}: MESSAGE_ID {msg_id} does not fit {mm.group(1)}')
    # methods
    mt = [text(x) for x in methods]
    compressed = False
    if mt == [text(ast.parse(t).body[0]) for t in COMPRESS_METHODS]:
        compressed = True
    elif mt == [text(ast.parse(t).body[0]) for t in IS_ADMIN_METHODS] and qual == 'PrivateChatMessage.Response':
        pass
    elif mt:
        raise Refuse(f'{qual}: unexpected methods: {mt}')
    out_fields = []
    names = []
    for name, call, node in fields:
        f = parse_field(qual, name, call, {'type', 'subtype', 'if_true', 'if_false', 'optional'})
        extra = {'_PeerInitTicket': ['ticket']} if ticket_seen else {}
        ty = type_ref(f, prims, records, qual, extra)
        cond = None
        ref = f['if_true'] if f['if_true'] is not None else f['if_false']
        if ref is not None:
            if ref not in names:
                raise Refuse(f'{qual}.{name}: condition on {ref!r}, which is not an earlier field')
            cond = [names.index(ref), f['if_true'] is not None]
        d = f['default']
        # a Python bool is an int: a bool default on an integer-typed field is its integer value
        base = ty if isinstance(ty, str) else None
        if isinstance(d, bool) and base and (prims.get(base) or [''])[0] == 'int':
            d = int(d)
        if isinstance(d, int) and not isinstance(d, bool) and base and (prims.get(base) or [''])[0] == 'bool':
            raise Refuse(f'{qual}.{name}: integer default on a boolean field')
        out_fields.append({'name': name, 'type': ty, 'cond': cond, 'optional': f['optional'],
                           'default': 'None' if d is None else d})
        names.append(name)
    return {'name': qual, 'family': fam, 'dir': m.name.lower(), 'id': msg_id, 'id_width': id_width,
            'compressed': compressed, 'fields': out_fields}


# ----------------------------------------------------------------------------------------
def layout(src: Path) -> dict:
    prims, records = parse_primitives(src)
    fam_width, messages = parse_messages(src, prims, records)
    prims = dict(prims)
    prims['_PeerInitTicket'] = ['ticket']
    return {'primitives': prims, 'records': records, 'family_id_width': fam_width, 'messages': messages}


def coq_str(s: str) -> str:
    assert '"' not in s
    return f'"{s}"%string'


def coq_ty_expanded(t, lay) -> str:
    if isinstance(t, dict):
        return f'(TArr {coq_ty_expanded(t["array"], lay)})'
    if t in lay['primitives']:
        k = lay['primitives'][t]
        if k[0] == 'int':
            return f'(TInt {k[1]} {"true" if k[2] else "false"})'
        return {'bool': 'TBool', 'str': 'TStr', 'bytes': 'TBytes', 'ip': 'TIp', 'ticket': 'TTicket'}[k[0]]
    if t in lay['records']:
        return '(TRec [' + '; '.join(coq_ty_expanded(ft, lay) for _, ft in lay['records'][t]) + '])'
    raise Refuse(f'unknown type {t}')


def coq_ty_named(t, lay) -> str:
    if isinstance(t, dict):
        return f'(TArr {coq_ty_named(t["array"], lay)})'
    if t in lay['primitives']:
        return 'T_' + t.lstrip('_')
    if t in lay['records']:
        return 'R_' + t
    raise Refuse(f'unknown type {t}')


def coq_default(d) -> str:
    if d == 'required':
        return 'None'
    if d == 'None':
        return '(Some VNone)'
    if isinstance(d, bool):
        return f'(Some (VBool {"true" if d else "false"}))'
    if isinstance(d, int):
        return f'(Some (VInt {d if d >= 0 else "(%d)" % d}%Z))'
    raise Refuse(f'default {d!r}')


def coq_schema(m: dict, lay: dict, tyf) -> str:
    fs = []
    for f in m['fields']:
        cond = 'None' if f['cond'] is None else f'(Some ({f["cond"][0]}%nat, {"true" if f["cond"][1] else "false"}))'
        fs.append(f'   mkField {coq_str(f["name"])} {tyf(f["type"], lay)} {cond} {"true" if f["optional"] else "false"} {coq_default(f["default"])}')
    body = ';\n'.join(fs)
    return (f'mkSchema {coq_str(m["name"])} {FAMILY_COQ[m["family"]]} {"DRequest" if m["dir"] == "request" else "DResponse"} '
            f'{m["id"]}%N {m["id_width"]}%nat {"true" if m["compressed"] else "false"} [\n{body}]')


def ident(name: str) -> str:
    return 's_' + name.replace('.', '_')


HDR = ('(* GENERATED by /verif/translate/tr_messages.py from {src} -- do not edit; regenerated on every run *)\n'
       'From Coq Require Import ZArith List String.\nFrom Slsk Require Import C01.Types.\nImport ListNotations.\n\n')


def emit_prim(lay: dict) -> str:
    out = [HDR.format(src='src/aioslsk/protocol/primitives.py')]
    out.append('(* integer / boolean primitives: (width, signed) decoded from the STRUCT format string *)\n')
    for name, k in lay['primitives'].items():
        out.append(f'Definition T_{name.lstrip("_")} : ty := {coq_ty_expanded(name, lay)}.\n')
    out.append('\n(* nested record classes (ProtocolDataclass): field types in declaration order *)\n')
    for name, fs in lay['records'].items():
        out.append(f'Definition R_{name} : ty := TRec [' + '; '.join(coq_ty_named(t, lay) for _, t in fs) + '].\n')
        out.append(f'Definition RF_{name} : list string := [' + '; '.join(coq_str(n) for n, _ in fs) + '].\n')
    out.append('\n(* hand-optimised codecs of the record classes, as the field sequence they read / write (translated from the\n'
               '   method bodies), next to the sequence the metadata-driven codec uses: (label, fast, generic) *)\n')
    rows = []
    for rn, meth, seq in FAST_CODECS:
        fast = '; '.join(f'({coq_str(f)}, {coq_ty_named(t, lay)})' for f, t in seq)
        gen = '; '.join(f'({coq_str(f)}, {coq_ty_named(t, lay)})' for f, t in lay['records'][rn])
        rows.append(f' ({coq_str(rn + "." + meth)}, [{fast}], [{gen}])')
    out.append('Definition fast_codecs : list (string * list (string * ty) * list (string * ty)) := [\n' + ';\n'.join(rows) + '].\n')
    out.append('\nDefinition all_prims : list ty := [' + '; '.join('T_' + n.lstrip('_') for n in lay['primitives']) + '].\n')
    out.append('Definition all_records : list ty := [' + '; '.join('R_' + n for n in lay['records']) + '].\n')
    return ''.join(out)


def emit_schema(lay: dict) -> str:
    out = [HDR.format(src='src/aioslsk/protocol/messages.py')]
    out.append('From SlskGen Require Import PrimGen.\n\n')
    for m in lay['messages']:
        out.append(f'Definition {ident(m["name"])} : schema :=\n {coq_schema(m, lay, coq_ty_named)}.\n\n')
    out.append('(* definition order = order of __subclasses__() = dispatch order *)\n')
    out.append('Definition all_schemas : list schema := [\n ' + ';\n '.join(ident(m['name']) for m in lay['messages']) + '].\n\n')
    fw = lay['family_id_width']
    out.append('(* width of the id read at offset 4 by XMessage.deserialize_request/response *)\n')
    out.append('Definition gen_fam_width (f : family) : nat :=\n match f with\n' +
               ''.join(f' | {FAMILY_COQ[k]} => {fw[k]}%nat\n' for k in FAMILY_COQ) + ' end.\n')
    return ''.join(out)


def emit_pinned(pin: dict) -> str:
    out = [HDR.format(src='/verif/pinned/layout.json (snapshot of the wire layout at the pinned commit)')]
    out.append('Definition pinned_schemas : list schema := [\n ' +
               ';\n '.join(coq_schema(m, pin, coq_ty_expanded) for m in pin['messages']) + '].\n\n')
    fw = pin['family_id_width']
    out.append('Definition pinned_fam_width (f : family) : nat :=\n match f with\n' +
               ''.join(f' | {FAMILY_COQ[k]} => {fw[k]}%nat\n' for k in FAMILY_COQ) + ' end.\n\n')
    out.append('Definition pinned_prims : list ty := [' + '; '.join(coq_ty_expanded(n, pin) for n in pin['primitives']) + '].\n')
    out.append('Definition pinned_records : list ty := [' + '; '.join(coq_ty_expanded(n, pin) for n in pin['records']) + '].\n')
    return ''.join(out)


def translate(src: Path) -> dict:
    lay = layout(src)
    if not PINNED.exists():
        raise Refuse(f'{PINNED} missing (the pinned protocol layout)')
    pin = json.loads(PINNED.read_text())['layout']
    return {'PrimGen.v': emit_prim(lay), 'SchemaGen.v': emit_schema(lay), 'PinnedGen.v': emit_pinned(pin)}


def current_fingerprints(src: Path) -> dict:
    out = {}
    t = ast.parse((src / 'aioslsk' / 'protocol' / 'primitives.py').read_text())
    for n in t.body:
        if isinstance(n, (ast.ClassDef, ast.FunctionDef)) and 'primitives.' + n.name in FINGERPRINTS:
            out['primitives.' + n.name] = fingerprint(n)
    t = ast.parse((src / 'aioslsk' / 'protocol' / 'messages.py').read_text())
    for n in t.body:
        if isinstance(n, ast.ClassDef) and 'messages.' + n.name in FINGERPRINTS:
            out['messages.' + n.name] = fingerprint(n)
    return out


if __name__ == '__main__':
    import sys
    src = Path('/repo/src')
    if len(sys.argv) > 1 and sys.argv[1] == '--fingerprints':
        print(json.dumps(current_fingerprints(src), indent=1))
    elif len(sys.argv) > 1 and sys.argv[1] == '--layout':
        print(json.dumps(layout(src), indent=1))
    else:
        for k, v in translate(src).items():
            print(f'(* ==== {k} ==== *)')
            print(v[:3000])
