"""C09: fingerprints of the helpers the model relies on (see tr_pins0918.py)."""
from pathlib import Path
from .tr_pins0918 import check


def translate(src: Path) -> dict:
    check(src, 'c09')
    return {}
