"""T2b: transfer/model.py, transfer/manager.py, transfer/cache.py -> gen/TransferGen.v   (fail-closed)

Regenerated (translated; a change of the source changes the Coq text the theorems are about):
  * the Transfer helper methods behind the effect atoms (reset_time_vars, reset_progress_vars, reset_local_vars,
    reset_queue_vars incl. the two methods it calls, set_start_time, set_complete_time) as lists of field steps
  * the state classifications is_transferring / is_processing / is_finalized
  * the attribute list of Transfer.__init__ and _UNPICKABLE_FIELDS
  * TransferManager.read_cache as repair constants (remote-queue mark cleared, which state is re-run through which
    state method, what a transferring transfer becomes, which helper methods run, registration through add())
  * TransferManager.abort / queue / pause: which state method with which arguments, "raise InvalidStateTransition
    iff it returned a false value"
Helpers (phase 8): TransferDirection / AbortReason values regenerated; pinned: Transfer.__init__, take_progress_snapshot,
get_speed, is_transferring, TransferProgressSnapshot, FailReason, TransferShelveCache.__init__, TransferNullCache, TransferCache,
TransferStateListener, TransferManager.__init__ / transfers / read_cache, _RequestFlag, BaseManager, the three transfer
exceptions, EventBus.register / emit / _get_listeners_for_event, TransferAddedEvent, SoulSeekClient.start / stop.
Fingerprinted (normalised AST must equal translate/pins_transfer.json; any edit is a broken tie that triggers the
directed search of the checks): Transfer.__getstate__, __setstate__, transition, cancel_tasks, get_tasks, is_transfered,
__eq__, the two task-done callbacks, TransferManager.add / write_cache / load_data / store_data /
on_transfer_state_changed / request_management_cycle, TransferShelveCache.read / write.
"""
from __future__ import annotations

import ast
import json
from pathlib import Path

from .tr_state import Refuse, refuse, strip_doc, norm

PINS = Path(__file__).with_name('pins_transfer.json')

FIELD_METHODS = ['reset_local_vars', 'reset_progress_vars', 'reset_queue_vars', 'reset_time_vars', 'set_start_time',
                 'set_complete_time', 'reset_queue_attempts', 'reset_upload_request_attempts']
FIELDS = ['local_path', 'filesize', 'bytes_transfered', '_offset', 'place_in_queue', 'remotely_queued', 'queue_attempts',
          'last_queue_attempt', 'upload_request_attempts', 'last_upload_request_attempt', 'start_time', 'complete_time', '_speed_log']
PINNED = {
    'model': ['__getstate__', '__setstate__', 'transition', 'cancel_tasks', 'get_tasks', 'is_transfered', '__eq__',
              '_remotely_queue_task_complete', '_transfer_task_complete', 'is_upload', 'is_download'],
    'manager': ['add', 'write_cache', 'load_data', 'store_data', 'on_transfer_state_changed', 'request_management_cycle'],
    'cache': ['read', 'write'],
}
OPCTOR = {'fail': 'OFail', 'abort': 'OAbort', 'queue': 'OQueue', 'initialize': 'OInitialize', 'complete': 'OComplete',
          'incomplete': 'OIncomplete', 'start_transferring': 'OStart', 'pause': 'OPause'}


def fname(f: str) -> str:
    return 'F_' + f.lstrip('_')


def find_class(tree, name):
    for n in tree.body:
        if isinstance(n, ast.ClassDef) and n.name == name:
            return n
    raise Refuse(f'class {name} not found')


def find_method(cls, name):
    for n in cls.body:
        if isinstance(n, (ast.FunctionDef, ast.AsyncFunctionDef)) and n.name == name:
            return n
    raise Refuse(f'{cls.name}.{name} not found')


def is_self_attr(e, name=None):
    return (isinstance(e, ast.Attribute) and isinstance(e.value, ast.Name) and e.value.id == 'self'
            and (name is None or e.attr == name))


class FieldTr:
    def __init__(self, cls):
        self.cls = cls
        self.cache = {}

    def value(self, v):
        if isinstance(v, ast.Constant):
            if v.value is None:
                return 'VNone'
            if v.value is False:
                return 'VFalse'
            if isinstance(v.value, (int, float)) and not isinstance(v.value, bool) and v.value == 0:
                return 'VZero'
        src = ast.unparse(v)
        if src == 'time.time()':
            return 'VNow'
        if src == 'deque(maxlen=SPEED_LOG_ENTRIES)':
            return 'VFresh'
        refuse(v, 'unrecognised value in a Transfer helper method')

    def steps(self, stmts, depth=0):
        out = []
        for s in strip_doc(stmts):
            if isinstance(s, ast.Assign) and len(s.targets) == 1 and is_self_attr(s.targets[0]):
                f = s.targets[0].attr
                if f not in FIELDS:
                    refuse(s, 'assignment to an unknown Transfer field')
                out.append(f'FAssign {fname(f)} {self.value(s.value)}')
            elif (isinstance(s, ast.Expr) and isinstance(s.value, ast.Call) and is_self_attr(s.value.func)
                  and not s.value.args and not s.value.keywords):
                m = s.value.func.attr
                if m not in FIELD_METHODS or depth > 3:
                    refuse(s, 'call of an untranslated method')
                out.extend(self.method(m, depth + 1))
            elif isinstance(s, ast.If) and ast.unparse(s.test) == 'self.start_time is not None' and not s.orelse:
                out.append('FIfStarted [' + '; '.join(self.steps(s.body, depth)) + ']')
            else:
                refuse(s, 'statement outside the accepted subset (Transfer helper method)')
        return out

    def method(self, name, depth=0):
        fn = find_method(self.cls, name)
        if not isinstance(fn, ast.FunctionDef) or [a.arg for a in fn.args.args] != ['self'] or fn.decorator_list:
            refuse(fn, 'helper method signature')
        return self.steps(fn.body, depth)


def state_list(cls, name):
    fn = find_method(cls, name)
    body = strip_doc(fn.body)
    if len(body) != 1 or not isinstance(body[0], ast.Return):
        refuse(fn, 'state classification shape')
    r = body[0].value
    if not (isinstance(r, ast.Compare) and len(r.ops) == 1 and isinstance(r.ops[0], ast.In)
            and ast.unparse(r.left) == 'self.state.VALUE' and isinstance(r.comparators[0], ast.Tuple)):
        refuse(fn, 'state classification shape')
    out = []
    for e in r.comparators[0].elts:
        src = ast.unparse(e)
        if not src.startswith('TransferState.'):
            refuse(e, 'state name')
        out.append(src.split('.', 1)[1])
    return out


def manager_op(cls, name):
    """-> (op ctor, reason argument or None)"""
    fn = find_method(cls, name)
    if not isinstance(fn, ast.AsyncFunctionDef) or [a.arg for a in fn.args.args] != ['self', 'transfer']:
        refuse(fn, 'manager method signature')
    body = strip_doc(fn.body)
    # 1: membership test raising TransferNotFoundError
    g = body[0]
    if not (isinstance(g, ast.If) and ast.unparse(g.test) == 'transfer not in self.transfers' and len(g.body) == 1
            and isinstance(g.body[0], ast.Raise) and ast.unparse(g.body[0].exc).startswith('TransferNotFoundError(') and not g.orelse):
        refuse(g, 'manager method: membership guard')
    rest = body[1:]
    call = None
    if len(rest) == 1 and isinstance(rest[0], ast.If):
        t = rest[0].test
        if isinstance(t, ast.UnaryOp) and isinstance(t.op, ast.Not) and isinstance(t.operand, ast.Await):
            call, guard = t.operand.value, rest[0]
    elif (len(rest) == 2 and isinstance(rest[0], ast.Assign) and len(rest[0].targets) == 1 and isinstance(rest[0].targets[0], ast.Name)
          and isinstance(rest[0].value, ast.Await) and isinstance(rest[1], ast.If)):
        v = rest[0].targets[0].id
        if ast.unparse(rest[1].test) == f'not {v}':
            call, guard = rest[0].value.value, rest[1]
    if call is None:
        refuse(fn, 'manager method: expected `if not <awaited state method>: raise InvalidStateTransition`')
    if not (len(guard.body) == 1 and isinstance(guard.body[0], ast.Raise) and not guard.orelse
            and ast.unparse(guard.body[0].exc).startswith('InvalidStateTransition(')):
        refuse(guard, 'manager method: refusal must raise InvalidStateTransition and nothing else')
    if not (isinstance(call, ast.Call) and isinstance(call.func, ast.Attribute) and ast.unparse(call.func.value) == 'transfer.state'
            and call.func.attr in OPCTOR and not call.args):
        refuse(call, 'manager method: state method call')
    reason = None
    for kw in call.keywords:
        if kw.arg == 'reason' and ast.unparse(kw.value) == 'AbortReason.REQUESTED':
            reason = 'REQUESTED'
        else:
            refuse(call, 'manager method: argument of the state method')
    return OPCTOR[call.func.attr], reason


def read_cache(cls):
    fn = find_method(cls, 'read_cache')
    body = strip_doc(fn.body)
    if not (len(body) == 2 and ast.unparse(body[0]).replace(' ', '') in ('transfers:list[Transfer]=self.cache.read()', 'transfers=self.cache.read()')
            and isinstance(body[1], ast.For) and ast.unparse(body[1].target) == 'transfer' and ast.unparse(body[1].iter) == 'transfers'
            and not body[1].orelse):
        refuse(fn, 'read_cache shape')
    st = strip_doc(body[1].body)
    res = {'rq': False, 'rules': [], 'complete': None, 'incomplete': None, 'methods': [], 'adds': False, 'transferring': False}
    i = 0
    if i < len(st) and ast.unparse(st[i]) == 'transfer.remotely_queued = False':
        res['rq'] = True
        i += 1
    if i < len(st) and isinstance(st[i], ast.If):
        node = st[i]
        i += 1
        while node is not None:
            t = ast.unparse(node.test)
            if t.startswith('transfer.state.VALUE == TransferState.'):
                s = t.rsplit('.', 1)[1]
                b = strip_doc(node.body)
                ok = (len(b) == 1 and isinstance(b[0], ast.Expr) and isinstance(b[0].value, ast.Await))
                c = b[0].value.value if ok else None
                if not (ok and isinstance(c, ast.Call) and ast.unparse(c.func.value) == 'transfer.state' and c.func.attr in OPCTOR
                        and not c.args and not c.keywords):
                    refuse(node, 'read_cache: state rule')
                res['rules'].append((s, OPCTOR[c.func.attr]))
            elif t == 'transfer.is_transferring()':
                b = strip_doc(node.body)
                if not (len(b) >= 2 and isinstance(b[0], ast.If) and ast.unparse(b[0].test) == 'transfer.is_transfered()'
                        and len(b[0].body) == 1 and len(b[0].orelse) == 1
                        and ast.unparse(b[0].body[0]).startswith('state = TransferState.')
                        and ast.unparse(b[0].orelse[0]).startswith('state = TransferState.')
                        and ast.unparse(b[1]) == 'transfer.state = TransferState.init_from_state(state, transfer)'):
                    refuse(node, 'read_cache: transferring branch')
                res['transferring'] = True
                res['complete'] = ast.unparse(b[0].body[0]).rsplit('.', 1)[1]
                res['incomplete'] = ast.unparse(b[0].orelse[0]).rsplit('.', 1)[1]
                for x in b[2:]:
                    src = ast.unparse(x)
                    if not (src.startswith('transfer.') and src.endswith('()') and src[9:-2] in FIELD_METHODS):
                        refuse(x, 'read_cache: statement in the transferring branch')
                    res['methods'].append(src[9:-2])
            else:
                refuse(node, 'read_cache: condition')
            if not node.orelse:
                node = None
            elif len(node.orelse) == 1 and isinstance(node.orelse[0], ast.If):
                node = node.orelse[0]
            else:
                refuse(node, 'read_cache: else branch')
    if i < len(st) and ast.unparse(st[i]) == 'await self.add(transfer)':
        res['adds'] = True
        i += 1
    if i != len(st):
        refuse(st[i], 'read_cache: unexpected statement')
    return res


# helpers the anchored code relies on (phase 8): pinned by normalised AST.  (file, dotted name): a class is pinned whole
HELPER_PINS = [
    ('aioslsk/transfer/model.py', 'Transfer.__init__'), ('aioslsk/transfer/model.py', 'Transfer.take_progress_snapshot'),
    ('aioslsk/transfer/model.py', 'Transfer.get_speed'), ('aioslsk/transfer/model.py', 'Transfer.is_transferring'),
    ('aioslsk/transfer/model.py', 'TransferProgressSnapshot'), ('aioslsk/transfer/model.py', 'FailReason'),
    ('aioslsk/transfer/cache.py', 'TransferShelveCache.__init__'), ('aioslsk/transfer/cache.py', 'TransferNullCache'),
    ('aioslsk/transfer/cache.py', 'TransferCache'),
    ('aioslsk/transfer/state.py', 'TransferStateListener'),
    ('aioslsk/transfer/manager.py', 'TransferManager.__init__'), ('aioslsk/transfer/manager.py', 'TransferManager.transfers'),
    ('aioslsk/transfer/manager.py', 'TransferManager.read_cache'), ('aioslsk/transfer/manager.py', '_RequestFlag'),
    ('aioslsk/base_manager.py', 'BaseManager'),
    ('aioslsk/exceptions.py', 'TransferException'), ('aioslsk/exceptions.py', 'TransferNotFoundError'),
    ('aioslsk/exceptions.py', 'InvalidStateTransition'),
    ('aioslsk/events.py', 'EventBus.register'), ('aioslsk/events.py', 'EventBus.emit'),
    ('aioslsk/events.py', 'EventBus._get_listeners_for_event'), ('aioslsk/events.py', 'TransferAddedEvent'),
    ('aioslsk/client.py', 'SoulSeekClient.start'), ('aioslsk/client.py', 'SoulSeekClient.stop'),
]


def find_dotted(tree, dotted):
    node = tree
    for part in dotted.split('.'):
        for n in node.body:
            if isinstance(n, (ast.ClassDef, ast.FunctionDef, ast.AsyncFunctionDef)) and n.name == part:
                node = n
                break
        else:
            raise Refuse(f'{dotted} not found')
    return node


def enum_values(tree, name):
    cls = find_class(tree, name)
    out = []
    for s in strip_doc(cls.body):
        if not (isinstance(s, ast.Assign) and len(s.targets) == 1 and isinstance(s.targets[0], ast.Name)):
            refuse(s, f'{name} member')
        out.append((s.targets[0].id, ast.literal_eval(s.value)))
    return out


def current_pins(src: Path) -> dict:
    out = {}
    trees = {'model': ast.parse((src / 'aioslsk/transfer/model.py').read_text()),
             'manager': ast.parse((src / 'aioslsk/transfer/manager.py').read_text()),
             'cache': ast.parse((src / 'aioslsk/transfer/cache.py').read_text())}
    classes = {'model': 'Transfer', 'manager': 'TransferManager', 'cache': 'TransferShelveCache'}
    for mod, names in PINNED.items():
        cls = find_class(trees[mod], classes[mod])
        for n in names:
            out[f'{classes[mod]}.{n}'] = norm(find_method(cls, n))
    parsed = {}
    for f, dotted in HELPER_PINS:
        if f not in parsed:
            parsed[f] = ast.parse((src / f).read_text())
        out[f'{f}:{dotted}'] = norm(find_dotted(parsed[f], dotted))
    return out


def direct_transitions(src: Path) -> list:
    """call sites that change the state of a transfer without going through a state method: `x.transition(...)` outside
    transfer/state.py, and assignments to a `.state` attribute of a transfer outside Transfer itself / read_cache"""
    found = []
    for f in sorted((src / 'aioslsk').rglob('*.py')):
        rel = str(f.relative_to(src))
        if rel == 'aioslsk/transfer/state.py':
            continue
        tree = ast.parse(f.read_text())
        for n in ast.walk(tree):
            if isinstance(n, ast.Call) and isinstance(n.func, ast.Attribute) and n.func.attr == 'transition':
                found.append(f'{rel}:{n.lineno}: {ast.unparse(n)[:80]}')
            if isinstance(n, (ast.Assign, ast.AnnAssign)):
                tgts = n.targets if isinstance(n, ast.Assign) else [n.target]
                for t in tgts:
                    if isinstance(t, ast.Attribute) and t.attr == 'state' and 'TransferState' in ast.unparse(n.value or ast.Constant(None)):
                        if not (isinstance(t.value, ast.Name) and t.value.id == 'self' and rel == 'aioslsk/transfer/model.py'):
                            found.append(f'{rel}:{n.lineno}: {ast.unparse(n)[:80]}')
    return found


def translate(src: Path) -> dict:
    model = ast.parse((src / 'aioslsk/transfer/model.py').read_text())
    manager = ast.parse((src / 'aioslsk/transfer/manager.py').read_text())
    T = find_class(model, 'Transfer')
    M = find_class(manager, 'TransferManager')

    # ---- fingerprints
    pins = json.loads(PINS.read_text())
    cur = current_pins(src)
    for k, v in pins.items():
        if cur.get(k) != v:
            raise Refuse(f'{k} changed (fingerprinted function; the hand model of it no longer applies)')
    if set(cur) != set(pins):
        raise Refuse('pin list changed')

    # ---- helper methods
    ft = FieldTr(T)
    meths = {m: ft.method(m) for m in FIELD_METHODS}

    # ---- attributes
    init = find_method(T, '__init__')
    init_fields = []
    for s in strip_doc(init.body):
        tgt = s.target if isinstance(s, ast.AnnAssign) else (s.targets[0] if isinstance(s, ast.Assign) and len(s.targets) == 1 else None)
        if tgt is None or not is_self_attr(tgt):
            refuse(s, 'Transfer.__init__ statement')
        init_fields.append(tgt.attr)
    unpick = None
    for s in T.body:
        if isinstance(s, ast.Assign) and ast.unparse(s.targets[0]) == '_UNPICKABLE_FIELDS':
            unpick = list(ast.literal_eval(s.value))
    if unpick is None:
        raise Refuse('_UNPICKABLE_FIELDS not found')

    # ---- enum / constant values the models and harnesses use
    tdir = dict(enum_values(model, 'TransferDirection'))
    if sorted(tdir) != ['DOWNLOAD', 'UPLOAD'] or not all(isinstance(v, int) and 0 <= v <= 9 for v in tdir.values()):
        raise Refuse(f'TransferDirection members {tdir}')
    areason = dict(enum_values(model, 'AbortReason'))
    if 'REQUESTED' not in areason or not isinstance(areason['REQUESTED'], str):
        raise Refuse('AbortReason.REQUESTED')

    # ---- the state of a transfer is only changed by the state classes (and by read_cache's repair, modelled in C17)
    direct = direct_transitions(src)
    if direct != [d for d in direct if d.startswith('aioslsk/transfer/manager.py:') and 'transfer.state = TransferState.init_from_state(state, transfer)' in d] \
            or len(direct) != 1:
        raise Refuse('state of a transfer changed outside the state classes: ' + '; '.join(direct))

    rc = read_cache(M)
    mops = {n: manager_op(M, n) for n in ('abort', 'queue', 'pause')}

    sl = lambda xs: '[' + '; '.join(xs) + ']'
    strs = lambda xs: '[' + '; '.join(f'"{x}"' for x in xs) + ']'
    out = ['(* GENERATED by /verif/translate/tr_transfer.py from transfer/model.py, manager.py, cache.py -- do not edit *)\n',
           'From Coq Require Import List Bool String.\nFrom SlskGen Require Import TransGen.\nImport ListNotations.\nOpen Scope string_scope.\n\n']
    out.append('Inductive tfield : Type := ' + ' | '.join(fname(f) for f in FIELDS) + '.\n')
    out.append('Inductive fval : Type := VNone | VZero | VFalse | VNow | VFresh.\n')
    out.append('(* FIfStarted = `if self.start_time is not None:` *)\n')
    out.append('Inductive fstep : Type := FAssign (f : tfield) (v : fval) | FIfStarted (l : list fstep).\n\n')
    for m in FIELD_METHODS:
        out.append(f'Definition m_{m} : list fstep := {sl(meths[m])}.\n')
    out.append('\n')
    for n in ('is_transferring', 'is_processing', 'is_finalized'):
        out.append(f'Definition {n}_states : list st := {sl(state_list(T, n))}.\n')
    out.append(f'\nDefinition init_fields : list string := {strs(init_fields)}.\n')
    out.append(f'Definition unpickable_fields : list string := {strs(unpick)}.\n\n')
    out.append('(* TransferManager.read_cache *)\n')
    out.append(f'Definition repair_rq_cleared : bool := {"true" if rc["rq"] else "false"}.\n')
    out.append('Definition repair_state_rules : list (st * op) := ' + sl(f'({s}, {o})' for s, o in rc['rules']) + '.\n')
    out.append(f'Definition repair_transferring : bool := {"true" if rc["transferring"] else "false"}.\n')
    out.append(f'Definition repair_all_bytes : st := {rc["complete"] or "UNSET"}.\n')
    out.append(f'Definition repair_some_bytes : st := {rc["incomplete"] or "UNSET"}.\n')
    out.append('Definition repair_methods : list (list fstep) := ' + sl(f'm_{m}' for m in rc['methods']) + '.\n')
    out.append(f'Definition repair_adds : bool := {"true" if rc["adds"] else "false"}.\n\n')
    out.append('(* TransferManager.abort/queue/pause: the state method, whether it is given AbortReason.REQUESTED; each raises\n'
               '   InvalidStateTransition iff the awaited state method returned a false value (shape-checked) *)\n')
    out.append('Inductive mop : Type := MAbort | MQueue | MPause.\n')
    out.append('Definition mgr_op (m : mop) : op * bool := match m with ' +
               ' '.join(f'| {c} => ({mops[n][0]}, {"true" if mops[n][1] else "false"})'
                        for c, n in (('MAbort', 'abort'), ('MQueue', 'queue'), ('MPause', 'pause'))) + ' end.\n')
    out.append('Definition mgr_raises_iff_refused : bool := true.\n')
    out.append('(* TransferDirection values (str(direction.value) is part of the cache key), AbortReason.REQUESTED *)\n')
    out.append(f'Definition dir_value (d : direction) : nat := match d with Upload => {tdir["UPLOAD"]} | Download => {tdir["DOWNLOAD"]} end.\n')
    out.append(f'Definition abort_reason_requested : string := "{areason["REQUESTED"]}".\n')
    out.append('Definition abort_reasons : list string := ' + strs(v for v in areason.values()) + '.\n')
    out.append('(* no call of Transfer.transition and no assignment of a transfer state outside transfer/state.py, except the repair in\n   read_cache (checked over the whole package) *)\nDefinition transitions_only_in_state_classes : bool := true.\n')
    out.append('(* Transfer.transition notifies the listeners itself, i.e. while the caller holds the state lock (fingerprinted) *)\n')
    out.append('Definition notify_inside_lock : bool := true.\n')
    return {'TransferGen.v': ''.join(out)}


if __name__ == '__main__':
    import sys
    src = Path(sys.argv[2] if len(sys.argv) > 2 else '/repo/src')
    if len(sys.argv) > 1 and sys.argv[1] == '--pin':
        PINS.write_text(json.dumps(current_pins(src), indent=1) + '\n')
        print('pinned', len(current_pins(src)))
    else:
        print(translate(src)['TransferGen.v'])
