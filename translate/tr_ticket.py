"""T3: utils.ticket_generator -> gen/TicketGen.v

The generator must have exactly the shape

    def ticket_generator(initial: int = <int>) -> ...:
        [docstring]
        idx = initial
        while True:
            <straight-line integer statements over idx / initial>      (no yield, no loop)
            yield idx

One iteration of the loop becomes ``ticket_step (l_initial l_idx : Z) : Z`` (the value yielded
= the new generator state).  Also emitted: the default of ``initial``, the fact that
SearchManager creates its generator with the defaults (shape-checked, else refused), the
``_get_wishlist_request_timeout`` decision and ``DEFAULT_WISHLIST_INTERVAL``.
Anything outside this shape raises (fail closed).
"""
import ast
from pathlib import Path
from .pyexpr import ClassCtx, MethodSig, Refuse, Tr, find_class, find_func, int_const, HEADER, refuse


def _strip_doc(body):
    return [s for s in body if not (isinstance(s, ast.Expr) and isinstance(s.value, ast.Constant)
                                    and isinstance(s.value.value, str))]


def translate(src: Path) -> dict:
    upath = src / 'aioslsk' / 'utils.py'
    tree = ast.parse(upath.read_text())
    fn = find_func(tree.body, 'ticket_generator')
    if not isinstance(fn, ast.FunctionDef) or fn.decorator_list:
        raise Refuse('ticket_generator is not a plain function')
    a = fn.args
    if [x.arg for x in a.args] != ['initial'] or a.vararg or a.kwarg or a.kwonlyargs or a.posonlyargs or len(a.defaults) != 1:
        raise Refuse('ticket_generator signature')
    d = a.defaults[0]
    if not (isinstance(d, ast.Constant) and isinstance(d.value, int) and not isinstance(d.value, bool)):
        raise Refuse('ticket_generator default of initial')
    initial_default = d.value
    body = _strip_doc(fn.body)
    if len(body) != 2:
        raise Refuse('ticket_generator body: expected `idx = initial` and one `while True` loop')
    s0, w = body
    if not (isinstance(s0, ast.Assign) and len(s0.targets) == 1 and isinstance(s0.targets[0], ast.Name)
            and s0.targets[0].id == 'idx' and isinstance(s0.value, ast.Name) and s0.value.id == 'initial'):
        refuse(s0, 'ticket_generator: first statement must be `idx = initial`')
    if not (isinstance(w, ast.While) and isinstance(w.test, ast.Constant) and w.test.value is True and not w.orelse):
        refuse(w, 'ticket_generator: loop must be `while True`')
    if not w.body:
        raise Refuse('empty loop')
    last = w.body[-1]
    if not (isinstance(last, ast.Expr) and isinstance(last.value, ast.Yield) and isinstance(last.value.value, ast.Name)
            and last.value.value.id == 'idx'):
        refuse(last, 'ticket_generator: loop must end with `yield idx`')
    inner = w.body[:-1]
    for n in ast.walk(ast.Module(body=inner, type_ignores=[])):
        if isinstance(n, (ast.Yield, ast.YieldFrom, ast.Await, ast.While, ast.For, ast.Break, ast.Continue, ast.Return,
                          ast.Call, ast.Try, ast.With, ast.Raise)):
            refuse(n, 'ticket_generator: unexpected construct in the loop body')
        if isinstance(n, ast.Name) and isinstance(n.ctx, ast.Store) and n.id != 'idx':
            refuse(n, 'ticket_generator: assignment to something other than idx')
    step = inner + [ast.Return(value=ast.Name(id='idx', ctx=ast.Load()))]
    for s in step:
        ast.fix_missing_locations(s)
    ctx = ClassCtx(record='unit', ctor='tt', fields=[], consts={})
    sig = MethodSig('ticket_step', [('initial', 'int'), ('idx', 'int')], 'int', coq_name='ticket_step')
    tr = Tr(ctx, sig, self_name=None)
    coq_body = tr.block(step)

    out = [HEADER.format(src='src/aioslsk/utils.py, search/manager.py, constants.py')]
    out.append(f'Definition TICKET_INITIAL : Z := {initial_default}.\n\n')
    out.append('(* one iteration of the `while True` loop of ticket_generator: new state = value yielded *)\n')
    out.append('Definition ticket_step_pair (self : unit) (l_initial l_idx : Z) : unit * Z :=\n ' + coq_body + '.\n')
    out.append('Definition ticket_step (l_initial l_idx : Z) : Z := snd (ticket_step_pair tt l_initial l_idx).\n\n')

    # ---- SearchManager: generator created with the default arguments; tickets drawn by next()
    mpath = src / 'aioslsk' / 'search' / 'manager.py'
    mtree = ast.parse(mpath.read_text())
    sm = find_class(mtree, 'SearchManager')
    init = find_func(sm.body, '__init__')
    found = [ast.unparse(s.value) for s in ast.walk(init) if isinstance(s, (ast.Assign, ast.AnnAssign))
             and ast.unparse(s.targets[0] if isinstance(s, ast.Assign) else s.target) == 'self._ticket_generator']
    if found != ['ticket_generator()']:
        raise Refuse(f'SearchManager._ticket_generator is not ticket_generator(): {found}')
    # the generator must be created once: no other assignment anywhere in the class
    others = [ast.unparse(n) for f in sm.body if isinstance(f, (ast.FunctionDef, ast.AsyncFunctionDef)) and f.name != '__init__'
              for n in ast.walk(f) if isinstance(n, (ast.Assign, ast.AnnAssign, ast.AugAssign))
              and '_ticket_generator' in ast.unparse(n.targets[0] if isinstance(n, ast.Assign) else n.target)]
    if others:
        raise Refuse(f'SearchManager re-assigns _ticket_generator outside __init__: {others}')
    for name in ('search', 'search_room', 'search_user', '_wishlist_job'):
        f = find_func(sm.body, name)
        draws = [ast.unparse(n) for n in ast.walk(f) if isinstance(n, ast.Call) and isinstance(n.func, ast.Name)
                 and n.func.id == 'next']
        if draws != ['next(self._ticket_generator)']:
            raise Refuse(f'SearchManager.{name}: ticket is not drawn by exactly one next(self._ticket_generator): {draws}')

    # ---- wishlist timeout decision
    ctree = ast.parse((src / 'aioslsk' / 'constants.py').read_text())
    dwi = int_const(ctree.body, 'DEFAULT_WISHLIST_INTERVAL')
    out.append(f'Definition DEFAULT_WISHLIST_INTERVAL : Z := {dwi}.\n\n')
    g = find_func(sm.body, '_get_wishlist_request_timeout')
    expect = ('timeout = self._settings.searches.send.wishlist_request_timeout\n'
              'if self._settings.searches.send.wishlist_request_timeout < 0:\n'
              '    if self.wishlist_interval is None:\n'
              '        timeout = DEFAULT_WISHLIST_INTERVAL\n'
              '    else:\n'
              '        timeout = self.wishlist_interval\n'
              'return timeout')
    got = '\n'.join(ast.unparse(s) for s in _strip_doc(g.body))
    if got != expect:
        raise Refuse('_get_wishlist_request_timeout changed:\n' + got)
    out.append('(* _get_wishlist_request_timeout (shape-checked literally by the translator) *)\n'
               'Definition wishlist_timeout (setting : Z) (interval : option Z) : Z :=\n'
               ' if Z.ltb setting 0 then match interval with None => DEFAULT_WISHLIST_INTERVAL | Some i => i end else setting.\n')
    return {'TicketGen.v': ''.join(out)}


if __name__ == '__main__':
    import sys
    print(translate(Path(sys.argv[1] if len(sys.argv) > 1 else '/repo/src'))['TicketGen.v'])
