"""CharTable: the character classes the shares/search code relies on, taken from the RUNNING
interpreter (`re`, `str`) for the harness alphabet, plus a fail-closed check of the source text of
the patterns the model hand-implements.

Output gen/CharTable.v:
  table      : list (N * (N * bool * bool))   code point -> (lower, is_word, is_space)
  lower / is_word / is_space                  lookups with defaults (identity / false / false)
  table_ok   : bool                           lower idempotent, word-ness preserved by lower, spaces are
                                              not word characters (checked by vm_compute in C07/Proofs.v)

Refuses (raises) when
  * a character of the alphabet lower-cases to more than one character, or outside the alphabet;
  * `re.IGNORECASE` literal matching between two alphabet characters differs from equality of `lower`;
  * `[\\W_]` is not the complement of `[^\\W_]`, or str.split() whitespace differs from str.isspace();
  * the source of create_term_pattern / _QUERY_CLEAN_PATTERN / SearchQuery.parse / PATH_SEPERATOR_PATTERN
    no longer has the pattern texts that `term_occurs`, `split_nw` and `parse` of C07/Model.v implement.
"""
import ast
import re
from pathlib import Path

ASCII = [chr(c) for c in range(32, 127)]
EXTRA = ['\t'] + list('éÉèÈàÀüÜöÖñÑçÇøØåÅßâÂ') + list('日本語中文') + list('дД')
ALPHABET = sorted(set(ASCII + EXTRA), key=ord)

PAT_PLAIN = r"(?:(?<=\W|_)|^){}(?=[\W_]|$)"
PAT_WILD = r"(?:(?<=\W|_)|^)[^\W_]*{}(?=[\W_]|$)"
PAT_CLEAN = r"[\W_]"
PAT_HASWORD = r"[^\W_]"
PAT_SEP = r"[\\/]+"


class Refuse(Exception):
    pass


def _consts(tree):
    return [n.value for n in ast.walk(tree) if isinstance(n, ast.Constant) and isinstance(n.value, str)]


def _func(tree, name):
    for n in ast.walk(tree):
        if isinstance(n, (ast.FunctionDef, ast.AsyncFunctionDef)) and n.name == name:
            return n
    raise Refuse(f'function {name} not found')


def check_sources(src: Path):
    utils = ast.parse((src / 'aioslsk' / 'shares' / 'utils.py').read_text())
    f = _func(utils, 'create_term_pattern')
    cs = [c for c in _consts(f) if '{}' in c]
    if cs != [PAT_WILD, PAT_PLAIN]:
        raise Refuse(f'create_term_pattern patterns changed: {cs!r}')
    # both compile calls: re.compile(<pattern>.format(re.escape(term)), flags=re.IGNORECASE)
    calls = [n for n in ast.walk(f) if isinstance(n, ast.Call) and isinstance(n.func, ast.Attribute) and n.func.attr == 'compile']
    if len(calls) != 2:
        raise Refuse('create_term_pattern: expected two re.compile calls')
    for c in calls:
        kw = {k.arg: ast.unparse(k.value) for k in c.keywords}
        if kw != {'flags': 're.IGNORECASE'} or len(c.args) != 1:
            raise Refuse(f'create_term_pattern: compile flags changed: {kw}')
        a = c.args[0]
        if not (isinstance(a, ast.Call) and isinstance(a.func, ast.Attribute) and a.func.attr == 'format'
                and len(a.args) == 1 and ast.unparse(a.args[0]) == 're.escape(term)'):
            raise Refuse('create_term_pattern: pattern argument changed: ' + ast.unparse(a))
    test = f.body[-1]
    if not (isinstance(test, ast.If) and ast.unparse(test.test) == 'wildcard'):
        raise Refuse('create_term_pattern: branch on wildcard changed')
    nrm = _func(utils, 'normalize_remote_path')
    if ast.unparse(nrm.body[-1]) != 'return re.sub(PATH_SEPERATOR_PATTERN, %r, path).rstrip(%r)' % (2 * chr(92), chr(92) + '/'):
        raise Refuse('normalize_remote_path changed: ' + ast.unparse(nrm.body[-1]))

    consts = ast.parse((src / 'aioslsk' / 'constants.py').read_text())
    ok = False
    for n in consts.body:
        if isinstance(n, ast.Assign) and ast.unparse(n.targets[0]) == 'PATH_SEPERATOR_PATTERN':
            ok = ast.unparse(n.value) == f're.compile({PAT_SEP!r})'
    if not ok:
        raise Refuse('PATH_SEPERATOR_PATTERN changed')

    mgr = ast.parse((src / 'aioslsk' / 'shares' / 'manager.py').read_text())
    ok = False
    for n in mgr.body:
        if isinstance(n, ast.Assign) and ast.unparse(n.targets[0]) == '_QUERY_CLEAN_PATTERN':
            ok = ast.unparse(n.value) == f're.compile({PAT_CLEAN!r})'
    if not ok:
        raise Refuse('_QUERY_CLEAN_PATTERN changed')
    add = _func(mgr, '_add_item_to_term_map')
    if ast.unparse(add.body[0]) != "path = (item.subdir + '/' + item.filename).lower()" or \
            ast.unparse(add.body[1]) != 'terms = re.split(_QUERY_CLEAN_PATTERN, path)':
        raise Refuse('_add_item_to_term_map: path/terms computation changed')

    sm = ast.parse((src / 'aioslsk' / 'search' / 'model.py').read_text())
    parse = _func(sm, 'parse')
    text = ast.unparse(parse)
    need = ['terms = query.split()', 'l_term = term.lower()', f"if not re.search({PAT_HASWORD!r}, l_term):",
            "if term.startswith('*'):", 'obj.wildcard_terms.add(l_term[1:])', "elif term.startswith('-'):",
            'obj.exclude_terms.add(l_term[1:])', 'obj.include_terms.add(l_term)']
    for s in need:
        if s not in text:
            raise Refuse(f'SearchQuery.parse changed: missing {s!r}')
    mi = _func(sm, 'matchers_iter')
    mt = ast.unparse(mi)
    for s in ['create_term_pattern(include_term, wildcard=False)', 'create_term_pattern(wildcard_term, wildcard=True)',
              'create_term_pattern(exclude_term, wildcard=False)', 'yield (lambda fn: bool(pattern.search(fn)))',
              'yield (lambda fn: not pattern.search(fn))']:
        if s not in mt:
            raise Refuse(f'SearchQuery.matchers_iter changed: missing {s!r}')


def char_table():
    rows = []
    aset = set(ALPHABET)
    for c in ALPHABET:
        lo = c.lower()
        if len(lo) != 1:
            raise Refuse(f'lower({c!r}) has length {len(lo)}')
        if lo not in aset:
            raise Refuse(f'lower({c!r}) = {lo!r} outside the alphabet')
        w = bool(re.match(PAT_HASWORD, c))
        if w == bool(re.match(PAT_CLEAN, c)):
            raise Refuse(f'[\\W_] is not the complement of [^\\W_] at {c!r}')
        sp = c.isspace()
        if (('a' + c + 'b').split() == ['a', 'b']) != sp:
            raise Refuse(f'str.split whitespace differs from isspace at {c!r}')
        if c.upper().lower() != lo and len(c.upper()) == 1 and c.upper() in aset:
            raise Refuse(f'upper/lower not consistent at {c!r}')
        rows.append((ord(c), ord(lo), w, sp))
    # IGNORECASE literal matching == equality of lower, on all pairs
    for c in ALPHABET:
        pat = re.compile(re.escape(c), re.IGNORECASE)
        for d in ALPHABET:
            if bool(pat.fullmatch(d)) != (c.lower() == d.lower()):
                raise Refuse(f're.IGNORECASE: {c!r} vs {d!r} differs from lower-equality')
    return rows


def translate(src: Path) -> dict:
    check_sources(src)
    rows = char_table()
    b = lambda x: 'true' if x else 'false'
    def tree(lo, hi):
        if lo >= hi:
            return 'Leaf'
        mid = (lo + hi) // 2
        c, l, w, sp = rows[mid]
        return f'(Node {tree(lo, mid)} {c} ({l}, {b(w)}, {b(sp)}) {tree(mid + 1, hi)})'
    out = ['(* GENERATED by translate/tr_chartable.py from the running interpreter (re, str) -- do not edit *)\n',
           'From Coq Require Import NArith List Bool.\nImport ListNotations.\nLocal Open Scope N_scope.\n\n',
           '(* code point -> (lower, is_word, is_space), as a balanced search tree (lookup cost matters: the correspondence\n'
           '   check evaluates the matcher on ~10^5 term/path pairs per run) *)\n',
           'Inductive bst := Leaf | Node (l : bst) (k : N) (v : N * bool * bool) (r : bst).\n',
           'Fixpoint bst_find (t : bst) (c : N) : option (N * (N * bool * bool)) :=\n'
           '  match t with\n  | Leaf => None\n  | Node l k v r => match N.compare c k with Eq => Some (k, v) | Lt => bst_find l c | Gt => bst_find r c end\n  end.\n',
           'Fixpoint bst_list (t : bst) : list (N * (N * bool * bool)) :=\n'
           '  match t with Leaf => [] | Node l k v r => bst_list l ++ (k, v) :: bst_list r end.\n\n',
           'Definition tree : bst :=\n  ', tree(0, len(rows)), '.\n\n',
           'Definition table : list (N * (N * bool * bool)) := bst_list tree.\n',
           'Definition lookup (c : N) : option (N * (N * bool * bool)) := bst_find tree c.\n']
    out.append('''
Definition lower (c : N) : N := match lookup c with Some (_, (l, _, _)) => l | None => c end.
Definition is_word (c : N) : bool := match lookup c with Some (_, (_, w, _)) => w | None => false end.
Definition is_space (c : N) : bool := match lookup c with Some (_, (_, _, s)) => s | None => false end.

(* checked (vm_compute) in Slsk.C07.Proofs: the facts the proofs use about the alphabet *)
Definition entry_ok (e : N * (N * bool * bool)) : bool :=
  let c := fst e in
  N.eqb (lower (lower c)) (lower c) && Bool.eqb (is_word (lower c)) (is_word c)
  && negb (is_space c && is_word c).
Definition table_ok : bool := forallb entry_ok table.
''')
    out.append(f'\nDefinition STAR : N := {ord("*")}.\nDefinition DASH : N := {ord("-")}.\nDefinition BACKSLASH : N := {ord(chr(92))}.\n')
    return {'CharTable.v': ''.join(out)}
