"""T4: room/manager.py + user/manager.py notification handlers -> gen/RoomGen.v (C19).

For every straight-line ``@on_message`` handler of RoomManager / UserManager the clause of
``apply_msg`` is REGENERATED from the handler body, statement by statement, as a chain of the
primitive state transformers of Slsk.C19.Model (touch_user, upd_user, upd_room with one field
setter per Python statement) plus the emitted event.  Anything outside the accepted statement
forms raises ``Refuse`` (fail closed): the check then reports a broken tie instead of guessing.

Accepted statement forms (``message`` = the handler's message parameter):

  if self._settings.users.is_blocked(message.username, BlockingFlag.K): return        (first state-relevant statement)
  X = [self._user_manager.|self.]get_user_object(NAME) | the same as an expression statement
  X = self._user_manager.get_self()
  X = self.get_or_create_room(message.room[, private=BOOL])
  X.joined = BOOL | X.users = [] | X.members = set(LIST) | X.operators = set(LIST)
  X.members.add(NAME) | .discard(NAME) | X.operators.add(NAME) | .discard(NAME)
  X.add_user(U) | X.remove_user(U) | X.tickers[NAME] = TEXT | try: del X.tickers[NAME] except KeyError: <log>
  U.status = UserStatus(message.status) | U.update_from_user_stats(message.user_stats)
  U.privileged = message.privileged | True | U.<ignored attr> = ...   (slots_free, country)
  if message.exists: ... | if message.user_stats: ...                     (AddUser.Response)
  X = copy.deepcopy(U) | X = RoomMessage(...) | X = ChatMessage(...)      (values carried by events only)
  await self._network.send_server_messages(...) | logger.*(...) | docstring  (no effect on the view)
  await self._event_bus.emit(EventClass(...))                              (the reported event, last statement)

  NAME ::= message.username | U.name | self._user_manager.get_self().name
  LIST ::= message.usernames | X.operators | X.members (after an assignment in the same handler)

Handlers with loops (_on_room_list, _on_join_room, _on_chat_room_tickers, _on_privileged_users) and
the helpers the clauses rely on (get_or_create_room, get_user_object, get_self, Room.add_user,
Room.remove_user, User.update_from_user_stats, UsersSettings.is_blocked) stay hand-modelled in
Slsk.C19.Model and are SHAPE-PINNED: a normalised-AST digest (docstrings and logging removed) of
each is compared with translate/pins_rooms.json; a difference is refused.
``python -m translate.tr_rooms --pin`` rewrites the pins after the hand model was re-validated.
"""
from __future__ import annotations

import ast
import hashlib
import json
import sys
from pathlib import Path

from .pyexpr import Refuse, refuse, find_class, find_func

PINS = Path(__file__).with_name('pins_rooms.json')

# message class -> (constructor, [(coq binder, message field)], fields that may be read but are not part of the view)
MSG = {
    'RoomChatMessage': ('RoomChatM', [('r', 'room'), ('u', 'username'), ('t', 'message')], []),
    'PublicChatMessage': ('PublicChatM', [('r', 'room'), ('u', 'username'), ('t', 'message')], []),
    'UserJoinedRoom': ('UserJoinedM', [('r', 'room'), ('u', 'username'), ('st', 'status'), ('ss', 'user_stats')], ['slots_free', 'country_code']),
    'UserLeftRoom': ('UserLeftM', [('r', 'room'), ('u', 'username')], []),
    'LeaveRoom': ('LeaveRoomM', [('r', 'room')], []),
    'RoomTickerAdded': ('TickerAddM', [('r', 'room'), ('u', 'username'), ('t', 'ticker')], []),
    'RoomTickerRemoved': ('TickerRemM', [('r', 'room'), ('u', 'username')], []),
    'PrivateRoomGrantMembership': ('MemberGrantM', [('r', 'room'), ('u', 'username')], []),
    'PrivateRoomRevokeMembership': ('MemberRevokeM', [('r', 'room'), ('u', 'username')], []),
    'PrivateRoomMembershipGranted': ('MembershipGrantedM', [('r', 'room')], []),
    'PrivateRoomMembershipRevoked': ('MembershipRevokedM', [('r', 'room')], []),
    'PrivateRoomMembers': ('MembersM', [('r', 'room'), ('l', 'usernames')], []),
    'PrivateRoomOperators': ('OperatorsM', [('r', 'room'), ('l', 'usernames')], []),
    'PrivateRoomGrantOperator': ('OpGrantM', [('r', 'room'), ('u', 'username')], []),
    'PrivateRoomRevokeOperator': ('OpRevokeM', [('r', 'room'), ('u', 'username')], []),
    'PrivateRoomOperatorGranted': ('OpGrantedM', [('r', 'room')], []),
    'PrivateRoomOperatorRevoked': ('OpRevokedM', [('r', 'room')], []),
    'PrivateChatMessage': ('PrivateChatM', [('u', 'username'), ('t', 'message')], ['chat_id', 'timestamp', 'is_direct']),
    'GetUserStatus': ('UserStatusM', [('u', 'username'), ('st', 'status'), ('p', 'privileged')], []),
    'GetUserStats': ('UserStatsM', [('u', 'username'), ('ss', 'user_stats')], []),
    'AddUser': ('AddUserM', [('u', 'username'), ('ex', 'exists'), ('st', 'status'), ('ss', 'user_stats')], ['country_code']),
    'AddPrivilegedUser': ('AddPrivUserM', [('u', 'username')], []),
}
# hand-modelled (loops): message class -> fixed clause text
HAND = {
    'RoomList': '    | RoomListM pub owned priv operated =>\n        (on_room_list me pub owned priv operated s, ev LRoomList None None)',
    'JoinRoom': '    | JoinRoomM r us owner ops =>\n        (on_join_room r us owner ops s, ev LRoomJoined (Some r) None)',
    'RoomTickers': '    | TickersM r l =>\n        (on_room_tickers r l s, ev LRoomTickers (Some r) None)',
    'PrivilegedUsers': '    | PrivUsersM l =>\n        (on_privileged_users l s, ev LPrivilegedUsers None None)',
}
# order of the constructors of Spec.msg (the generated match lists them in this order)
ORDER = ['RoomList', 'JoinRoom', 'LeaveRoom', 'UserJoinedRoom', 'UserLeftRoom', 'PrivateRoomGrantMembership',
         'PrivateRoomRevokeMembership', 'PrivateRoomMembershipGranted', 'PrivateRoomMembershipRevoked', 'PrivateRoomMembers',
         'PrivateRoomOperators', 'PrivateRoomGrantOperator', 'PrivateRoomRevokeOperator', 'PrivateRoomOperatorGranted',
         'PrivateRoomOperatorRevoked', 'RoomTickers', 'RoomTickerAdded', 'RoomTickerRemoved', 'RoomChatMessage',
         'PublicChatMessage', 'PrivateChatMessage', 'GetUserStatus', 'GetUserStats', 'AddUser', 'PrivilegedUsers',
         'AddPrivilegedUser']
USER_MANAGER_MSGS = {'PrivateChatMessage', 'GetUserStatus', 'GetUserStats', 'AddUser', 'PrivilegedUsers', 'AddPrivilegedUser'}

EVENT_LABEL = {
    'RoomMessageEvent': 'LRoomMessage', 'PublicMessageEvent': 'LPublicMessage', 'PrivateMessageEvent': 'LPrivateMessage',
    'RoomJoinedEvent': 'LRoomJoined', 'RoomLeftEvent': 'LRoomLeft', 'RoomTickersEvent': 'LRoomTickers',
    'RoomTickerAddedEvent': 'LTickerAdded', 'RoomTickerRemovedEvent': 'LTickerRemoved',
    'RoomMembershipGrantedEvent': 'LMembershipGranted', 'RoomMembershipRevokedEvent': 'LMembershipRevoked',
    'RoomMembersEvent': 'LMembers', 'RoomOperatorGrantedEvent': 'LOperatorGranted',
    'RoomOperatorRevokedEvent': 'LOperatorRevoked', 'RoomOperatorsEvent': 'LOperators', 'RoomListEvent': 'LRoomList',
    'UserStatusUpdateEvent': 'LUserStatus', 'UserStatsUpdateEvent': 'LUserStats',
    'PrivilegedUsersEvent': 'LPrivilegedUsers', 'PrivilegedUserAddedEvent': 'LPrivilegedUserAdded',
}
# positional parameter names of the event classes that the handlers construct positionally
EVENT_POSITIONAL = {
    'RoomTickerAddedEvent': ['room', 'user', 'ticker'], 'RoomTickerRemovedEvent': ['room', 'user'],
    'RoomMessageEvent': ['message'], 'PrivilegedUserAddedEvent': ['user'],
}
IGNORED_USER_ATTRS = {'slots_free', 'country'}
BLOCK_KIND = {'ROOM_MESSAGES': 'blocked_room', 'PRIVATE_MESSAGES': 'blocked_private'}
SET_FIELDS = {'members': ('r_members', 'set_members'), 'operators': ('r_ops', 'set_ops')}

PINNED = [
    # hand-modelled handlers and the helpers the generated clauses rely on
    ('room/manager.py', 'RoomManager', ['_on_room_list', '_on_join_room', '_on_chat_room_tickers', 'get_or_create_room',
                                        '__init__', 'register_listeners', '_on_message_received', 'reset_rooms']),
    ('user/manager.py', 'UserManager', ['_on_privileged_users', 'get_user_object', 'get_self', 'register_listeners',
                                        '_on_message_received', 'reset_users']),
    ('room/model.py', 'Room', ['*']),
    ('user/model.py', 'User', ['*']),
    ('user/model.py', 'UserStatus', ['*']),
    ('user/model.py', 'BlockingFlag', ['*']),
    ('settings.py', 'UsersSettings', ['*']),
    ('settings.py', None, ['translate_blocked_users']),
    # delivery path: frame -> message object -> network callback -> event bus -> @on_message handler
    ('events.py', 'EventBus', ['*']),
    ('events.py', None, ['on_message', 'build_message_map']),
    ('network/network.py', 'Network', ['on_message_received']),
    ('network/connection.py', 'DataConnection', ['_message_reader_loop', '_perform_message_callback', 'receive_message_object',
                                                 'receive_message', '_read_message', 'decode_message_data']),
    ('network/connection.py', 'ServerConnection', ['*']),
    ('protocol/primitives.py', 'UserStats', ['*']),
    ('protocol/primitives.py', 'RoomTicker', ['*']),
] + [('protocol/messages.py', f'{m}.Response', ['*']) for m in [
    'RoomList', 'JoinRoom', 'LeaveRoom', 'UserJoinedRoom', 'UserLeftRoom', 'PrivateRoomGrantMembership', 'PrivateRoomRevokeMembership',
    'PrivateRoomMembershipGranted', 'PrivateRoomMembershipRevoked', 'PrivateRoomMembers', 'PrivateRoomOperators',
    'PrivateRoomGrantOperator', 'PrivateRoomRevokeOperator', 'PrivateRoomOperatorGranted', 'PrivateRoomOperatorRevoked',
    'RoomTickers', 'RoomTickerAdded', 'RoomTickerRemoved', 'RoomChatMessage', 'PublicChatMessage', 'PrivateChatMessage',
    'GetUserStatus', 'GetUserStats', 'AddUser', 'PrivilegedUsers', 'AddPrivilegedUser']] + [
    # the event classes the handlers construct (field names / order of the positional ones)
    ('events.py', e, ['*']) for e in ['RoomMessageEvent', 'PublicMessageEvent', 'PrivateMessageEvent', 'RoomJoinedEvent', 'RoomLeftEvent',
                                      'RoomTickersEvent', 'RoomTickerAddedEvent', 'RoomTickerRemovedEvent', 'RoomMembershipGrantedEvent',
                                      'RoomMembershipRevokedEvent', 'RoomMembersEvent', 'RoomOperatorGrantedEvent',
                                      'RoomOperatorRevokedEvent', 'RoomOperatorsEvent', 'RoomListEvent', 'UserStatusUpdateEvent',
                                      'UserStatsUpdateEvent', 'PrivilegedUsersEvent', 'PrivilegedUserAddedEvent']]


# --------------------------------------------------------------------------------------
# fingerprints
# --------------------------------------------------------------------------------------

class _Strip(ast.NodeTransformer):
    def _body(self, body):
        out = []
        for st in body:
            if isinstance(st, ast.Expr) and isinstance(st.value, ast.Constant) and isinstance(st.value.value, str):
                continue
            if isinstance(st, ast.Expr) and isinstance(st.value, ast.Call) and _is_logger(st.value):
                continue
            out.append(self.visit(st))
        return out or [ast.Pass()]

    def generic_visit(self, node):
        for f in ('body', 'orelse', 'finalbody'):
            if isinstance(getattr(node, f, None), list):
                setattr(node, f, self._body(getattr(node, f)))
        return super().generic_visit(node)


def _is_logger(call: ast.Call) -> bool:
    f = call.func
    return isinstance(f, ast.Attribute) and isinstance(f.value, ast.Name) and f.value.id == 'logger'


def _digest(node) -> str:
    node = _Strip().visit(ast.parse(ast.unparse(node)).body[0])
    for n in ast.walk(node):
        if isinstance(n, (ast.FunctionDef, ast.AsyncFunctionDef)):
            n.returns = None
            for a in n.args.args + n.args.kwonlyargs:
                a.annotation = None
    return hashlib.sha256(ast.dump(node, annotate_fields=False).encode()).hexdigest()[:16]


def fingerprint_table(src: Path, pinned) -> dict:
    """pinned: [(file relative to aioslsk/, class or None, [names])].  With a class: methods of it, or ['*'] for the whole
    class (fields, defaults, enum members, methods; nested 'Outer.Inner' classes allowed).  With None: module-level
    functions / classes / assignments by name.  Docstrings and logging are removed, annotations of functions dropped."""
    out = {}
    trees = {}
    for rel, cls, names in pinned:
        tree = trees.setdefault(rel, ast.parse((src / 'aioslsk' / rel).read_text()))
        if cls is None:
            for nm in names:
                found = [n for n in tree.body if getattr(n, 'name', None) == nm or
                         (isinstance(n, (ast.Assign, ast.AnnAssign)) and nm in ast.unparse(getattr(n, 'targets', [getattr(n, 'target', None)])[0]).split())]
                if not found:
                    raise Refuse(f'{rel}: {nm} not found')
                out[f'{rel}:{nm}'] = _digest(found[0])
            continue
        body = tree.body
        c = None
        for part in cls.split('.'):
            c = find_class(ast.Module(body=body, type_ignores=[]), part)
            body = c.body
        if names == ['*']:
            out[f'{cls}.*'] = _digest(c)
        else:
            for f in names:
                out[f'{cls}.{f}'] = _digest(find_func(c.body, f))
    return out


def fingerprints(src: Path) -> dict:
    return fingerprint_table(src, PINNED)


# --------------------------------------------------------------------------------------
# handler translation
# --------------------------------------------------------------------------------------

def _attr_chain(e):
    """a.b.c -> ['a','b','c'] or None"""
    parts = []
    while isinstance(e, ast.Attribute):
        parts.append(e.attr)
        e = e.value
    if isinstance(e, ast.Name):
        parts.append(e.id)
        return parts[::-1]
    return None


class Handler:
    def __init__(self, fn, cls_name, in_user_manager):
        self.fn = fn
        self.um = in_user_manager
        self.ctor, binders, self.extra = MSG[cls_name]
        self.field = {f: b for b, f in binders}
        self.binders = [b for b, _ in binders]
        args = [a.arg for a in fn.args.args]
        if len(args) != 3 or args[0] != 'self':
            refuse(fn, 'handler signature')
        self.msg = args[1]
        self.env = {}          # python variable -> ('user', coq name) | ('room', coq room, private) | ('carrier', room|None, user|None)
        self.sets = {}         # (room var, 'members'|'operators') -> coq list expression known after an assignment
        self.ops = []          # coq state transformers, in order, each a function text applied to s
        self.guard = None
        self.event = None
        self.done = False

    # ---- expressions
    def is_msg_field(self, e, name=None):
        return (isinstance(e, ast.Attribute) and isinstance(e.value, ast.Name) and e.value.id == self.msg
                and (name is None or e.attr == name))

    def mfield(self, e):
        if not self.is_msg_field(e):
            refuse(e, 'expected a message field')
        if e.attr in self.field:
            return self.field[e.attr]
        refuse(e, f'message field {e.attr} is not part of the model of {self.ctor}')

    def is_get_self(self, e):
        ch = _attr_chain(e.func) if isinstance(e, ast.Call) else None
        return ch in (['self', '_user_manager', 'get_self'], ['self', 'get_self']) and not e.args and not e.keywords

    def name_expr(self, e):
        """NAME -> coq name term; evaluating `get_self()` touches the own user first."""
        if self.is_msg_field(e, 'username'):
            return self.mfield(e)
        if isinstance(e, ast.Attribute) and e.attr == 'name':
            if isinstance(e.value, ast.Name) and self.env.get(e.value.id, ('',))[0] == 'user':
                return self.env[e.value.id][1]
            if self.is_get_self(e.value):
                self.ops.append('touch_user me')
                return 'me'
        refuse(e, 'user name expression')

    def list_expr(self, e):
        if self.is_msg_field(e, 'usernames'):
            return self.mfield(e)
        if isinstance(e, ast.Attribute) and isinstance(e.value, ast.Name) and (e.value.id, e.attr) in self.sets:
            return self.sets[(e.value.id, e.attr)]
        refuse(e, 'list expression')

    def room_var(self, e):
        if isinstance(e, ast.Name) and self.env.get(e.id, ('',))[0] == 'room':
            return self.env[e.id]
        refuse(e, 'room variable')

    def user_var(self, e):
        if isinstance(e, ast.Name) and self.env.get(e.id, ('',))[0] == 'user':
            return self.env[e.id][1]
        refuse(e, 'user variable')

    def upd_room(self, room, setter):
        _, r, p = room
        self.ops.append(f'upd_room {r} {p} (fun x => {setter})')

    def upd_user(self, u, setter):
        self.ops.append(f'upd_user {u} (fun x => {setter})')

    def get_user_call(self, e):
        """[self._user_manager.|self.]get_user_object(NAME) -> coq name (and the touch), or None"""
        if not isinstance(e, ast.Call):
            return None
        ch = _attr_chain(e.func)
        ok = (['self', 'get_user_object'] if self.um else ['self', '_user_manager', 'get_user_object'])
        if ch != ok or len(e.args) != 1 or e.keywords:
            return None
        u = self.name_expr(e.args[0])
        self.ops.append(f'touch_user {u}')
        return u

    # ---- statements
    def run(self):
        body = list(self.fn.body)
        for st in body:
            if self.done:
                refuse(st, 'statement after the event emission')
            self.stmt(st)
        return self

    def noeffect(self, st):
        if isinstance(st, ast.Expr) and isinstance(st.value, ast.Constant):
            return True
        v = st.value if isinstance(st, ast.Expr) else None
        if isinstance(v, ast.Await):
            v = v.value
        if isinstance(v, ast.Call):
            if _is_logger(v):
                return True
            if _attr_chain(v.func) == ['self', '_network', 'send_server_messages']:
                return True
        return False

    def stmt(self, st):
        if self.noeffect(st):
            return
        if isinstance(st, ast.If):
            return self.if_stmt(st)
        if isinstance(st, ast.Try):
            return self.try_stmt(st)
        if isinstance(st, ast.Assign) and len(st.targets) == 1:
            return self.assign(st.targets[0], st.value, st)
        if isinstance(st, ast.Expr):
            v = st.value
            if isinstance(v, ast.Await):
                return self.emit(v.value, st)
            if isinstance(v, ast.Call):
                if self.get_user_call(v) is not None:
                    return
                return self.method_call(v, st)
        refuse(st, 'statement form')

    def if_stmt(self, st):
        t = st.test
        # block filter
        if (isinstance(t, ast.Call) and _attr_chain(t.func) == ['self', '_settings', 'users', 'is_blocked'] and len(t.args) == 2
                and len(st.body) == 1 and isinstance(st.body[0], ast.Return) and st.body[0].value is None and not st.orelse):
            if self.ops or self.guard or self.env:
                refuse(st, 'block filter after state-relevant statements')
            u = self.name_expr(t.args[0])
            k = _attr_chain(t.args[1])
            if not k or k[0] != 'BlockingFlag' or k[1] not in BLOCK_KIND:
                refuse(st, 'blocking flag')
            self.guard = f'{BLOCK_KIND[k[1]]} bl {u}'
            return
        # AddUser.Response: if message.exists: ... / if message.user_stats: ...
        if self.is_msg_field(t, 'exists') and not st.orelse:
            sub = self.sub(st.body)
            self.ops.append(f'(fun s0 => if {self.mfield(t)} then {sub} s0 else s0)')
            return
        if self.is_msg_field(t, 'user_stats') and not st.orelse and self.ctor == 'AddUserM':
            if not (len(st.body) == 1 and isinstance(st.body[0], ast.Expr)):
                refuse(st, 'optional user_stats body')
            c = st.body[0].value
            if not (isinstance(c, ast.Call) and isinstance(c.func, ast.Attribute) and c.func.attr == 'update_from_user_stats'
                    and len(c.args) == 1 and self.is_msg_field(c.args[0], 'user_stats')):
                refuse(st, 'optional user_stats body')
            u = self.user_var(c.func.value)
            self.ops.append(f'(fun s0 => match ss with Some v => upd_user {u} (fun x => mkU (u_status x) (Some v) (u_priv x)) s0 | None => s0 end)')
            return
        refuse(st, 'if statement')

    def sub(self, body):
        """translate a nested block sharing the environment; returns one composed transformer"""
        saved = self.ops
        self.ops = []
        for st in body:
            self.stmt(st)
        ops, self.ops = self.ops, saved
        return compose(ops)

    def try_stmt(self, st):
        ok = (len(st.body) == 1 and isinstance(st.body[0], ast.Delete) and len(st.body[0].targets) == 1 and len(st.handlers) == 1
              and isinstance(st.handlers[0].type, ast.Name) and st.handlers[0].type.id == 'KeyError' and not st.orelse and not st.finalbody
              and all(self.noeffect(h) for h in st.handlers[0].body))
        if not ok:
            refuse(st, 'try statement')
        tg = st.body[0].targets[0]
        if not (isinstance(tg, ast.Subscript) and isinstance(tg.value, ast.Attribute) and tg.value.attr == 'tickers'):
            refuse(st, 'del target')
        room = self.room_var(tg.value.value)
        u = self.name_expr(tg.slice)
        self.upd_room(room, f'set_tickers (adel {u} (r_tickers x)) x')

    def assign(self, tgt, val, st):
        # ---- variable bindings
        if isinstance(tgt, ast.Name):
            u = self.get_user_call(val)
            if u is not None:
                self.env[tgt.id] = ('user', u)
                return
            if self.is_get_self(val):
                self.ops.append('touch_user me')
                self.env[tgt.id] = ('user', 'me')
                return
            if isinstance(val, ast.Call) and _attr_chain(val.func) == ['self', 'get_or_create_room']:
                if len(val.args) != 1 or not self.is_msg_field(val.args[0], 'room'):
                    refuse(st, 'get_or_create_room argument')
                p = 'false'
                for kw in val.keywords:
                    if kw.arg != 'private' or not isinstance(kw.value, ast.Constant) or not isinstance(kw.value.value, bool):
                        refuse(st, 'get_or_create_room keyword')
                    p = 'true' if kw.value.value else 'false'
                r = self.mfield(val.args[0])
                self.env[tgt.id] = ('room', r, p)
                self.ops.append(f'upd_room {r} {p} (fun x => x)')
                return
            if isinstance(val, ast.Call) and _attr_chain(val.func) == ['copy', 'deepcopy'] and len(val.args) == 1:
                self.user_var(val.args[0])
                self.env[tgt.id] = ('copy',)
                return
            if isinstance(val, ast.Call) and isinstance(val.func, ast.Name) and val.func.id in ('RoomMessage', 'ChatMessage') and not val.args:
                room = user = None
                for kw in val.keywords:
                    if kw.arg == 'room':
                        room = self.room_var(kw.value)[1]
                    elif kw.arg == 'user':
                        user = self.user_var(kw.value)
                self.env[tgt.id] = ('carrier', room, user)
                return
            refuse(st, 'assignment to a variable')
        # ---- room / user attributes
        if isinstance(tgt, ast.Attribute) and isinstance(tgt.value, ast.Name):
            kind = self.env.get(tgt.value.id, ('',))[0]
            if kind == 'room':
                room = self.env[tgt.value.id]
                a = tgt.attr
                if a == 'joined' and isinstance(val, ast.Constant) and isinstance(val.value, bool):
                    return self.upd_room(room, f'set_joined {"true" if val.value else "false"} x')
                if a == 'users' and isinstance(val, ast.List) and not val.elts:
                    return self.upd_room(room, 'set_users [] x')
                if a in SET_FIELDS and isinstance(val, ast.Call) and isinstance(val.func, ast.Name) and val.func.id == 'set' \
                        and len(val.args) == 1 and not val.keywords:
                    l = self.list_expr(val.args[0])
                    self.sets[(tgt.value.id, a)] = f'(sof {l})'
                    return self.upd_room(room, f'{SET_FIELDS[a][1]} (sof {l}) x')
                refuse(st, 'room attribute assignment')
            if kind == 'user':
                u = self.env[tgt.value.id][1]
                a = tgt.attr
                if a in IGNORED_USER_ATTRS:
                    if not self.is_msg_field(val) or val.attr not in self.extra:
                        refuse(st, 'ignored user attribute must be assigned from an ignored message field')
                    return
                if a == 'status' and isinstance(val, ast.Call) and isinstance(val.func, ast.Name) and val.func.id == 'UserStatus' \
                        and len(val.args) == 1 and self.is_msg_field(val.args[0], 'status'):
                    return self.upd_user(u, f'mkU {self.mfield(val.args[0])} (u_stats x) (u_priv x)')
                if a == 'privileged':
                    if isinstance(val, ast.Constant) and val.value is True:
                        return self.upd_user(u, 'mkU (u_status x) (u_stats x) true')
                    if self.is_msg_field(val, 'privileged'):
                        return self.upd_user(u, f'mkU (u_status x) (u_stats x) {self.mfield(val)}')
                refuse(st, 'user attribute assignment')
        # ---- room.tickers[NAME] = TEXT
        if isinstance(tgt, ast.Subscript) and isinstance(tgt.value, ast.Attribute) and tgt.value.attr == 'tickers':
            room = self.room_var(tgt.value.value)
            u = self.name_expr(tgt.slice)
            if not self.is_msg_field(val, 'ticker'):
                refuse(st, 'ticker text')
            return self.upd_room(room, f'set_tickers (aset {u} {self.mfield(val)} (r_tickers x)) x')
        refuse(st, 'assignment target')

    def method_call(self, c, st):
        f = c.func
        if isinstance(f, ast.Attribute) and isinstance(f.value, ast.Name):
            kind = self.env.get(f.value.id, ('',))[0]
            if kind == 'room' and f.attr in ('add_user', 'remove_user') and len(c.args) == 1 and not c.keywords:
                u = self.user_var(c.args[0])
                op = 'sadd' if f.attr == 'add_user' else 'sdiscard'
                return self.upd_room(self.env[f.value.id], f'set_users ({op} {u} (r_users x)) x')
            if kind == 'user' and f.attr == 'update_from_user_stats' and len(c.args) == 1 and self.is_msg_field(c.args[0], 'user_stats') \
                    and self.ctor != 'AddUserM':
                return self.upd_user(self.env[f.value.id][1], f'mkU (u_status x) (Some {self.mfield(c.args[0])}) (u_priv x)')
        # room.members.add(NAME) etc.
        if isinstance(f, ast.Attribute) and f.attr in ('add', 'discard') and isinstance(f.value, ast.Attribute) \
                and f.value.attr in SET_FIELDS and len(c.args) == 1 and not c.keywords:
            room = self.room_var(f.value.value)
            u = self.name_expr(c.args[0])
            getter, setter = SET_FIELDS[f.value.attr]
            op = 'sadd' if f.attr == 'add' else 'sdiscard'
            return self.upd_room(room, f'{setter} ({op} {u} ({getter} x)) x')
        refuse(st, 'call statement')

    def emit(self, c, st):
        if not (isinstance(c, ast.Call) and _attr_chain(c.func) == ['self', '_event_bus', 'emit'] and len(c.args) == 1 and not c.keywords):
            refuse(st, 'await expression')
        e = c.args[0]
        if not (isinstance(e, ast.Call) and isinstance(e.func, ast.Name) and e.func.id in EVENT_LABEL):
            refuse(st, 'event constructor')
        cls = e.func.id
        args = {}
        pos = EVENT_POSITIONAL.get(cls, [])
        if len(e.args) > len(pos):
            refuse(st, 'positional event arguments')
        for n, a in zip(pos, e.args):
            args[n] = a
        for kw in e.keywords:
            args[kw.arg] = kw.value
        room = user = None
        for n, a in args.items():
            if n in ('raw_message', 'timestamp', 'ticker', 'before'):
                continue
            if n == 'room':
                room = self.room_var(a)[1]
            elif n in ('user', 'member', 'current'):
                user = self.user_var(a)
            elif n == 'message' and isinstance(a, ast.Name) and self.env.get(a.id, ('',))[0] == 'carrier':
                _, room, user = self.env[a.id]
            elif n == 'message' and self.is_msg_field(a, 'message'):
                continue
            elif n in ('members', 'operators'):
                # list(map(get_user_object, LIST)): every listed user object is fetched
                ok = (isinstance(a, ast.Call) and isinstance(a.func, ast.Name) and a.func.id == 'list' and len(a.args) == 1
                      and isinstance(a.args[0], ast.Call) and isinstance(a.args[0].func, ast.Name) and a.args[0].func.id == 'map'
                      and len(a.args[0].args) == 2 and _attr_chain(a.args[0].args[0]) == ['self', '_user_manager', 'get_user_object'])
                if not ok:
                    refuse(st, 'event list argument')
                l = self.list_expr(a.args[0].args[1])
                self.ops.append(f'(fun s0 => fold_left (fun s u => touch_user u s) {l} s0)')
            else:
                refuse(st, f'event argument {n}')
        o = lambda x: 'None' if x is None else f'(Some {x})'
        self.event = f'ev {EVENT_LABEL[cls]} {o(room)} {o(user)}'
        self.done = True

    # ---- output
    def clause(self):
        used = set(self.field.values())
        pat = ' '.join(self.binders)
        lines = [f'    | {self.ctor} {pat} =>']
        body = '        '
        if self.guard:
            body += f'if {self.guard} then (s, []) else\n        '
        for op in self.ops:
            body += f'let s := {op} s in\n        '
        body += f'(s, {self.event if self.event else "[]"})'
        lines.append(body)
        return '\n'.join(lines)


def compose(ops):
    if not ops:
        return '(fun s1 => s1)'
    t = 's1'
    for op in ops:
        t = f'{op} ({t})' if not t == 's1' else f'{op} s1'
    return f'(fun s1 => {t})'


def handlers_of(cls: ast.ClassDef) -> dict:
    """message class name -> handler function, from the @on_message(X.Response) decorators"""
    out = {}
    for fn in cls.body:
        if not isinstance(fn, ast.AsyncFunctionDef):
            continue
        for d in fn.decorator_list:
            if isinstance(d, ast.Call) and isinstance(d.func, ast.Name) and d.func.id == 'on_message' and len(d.args) == 1:
                ch = _attr_chain(d.args[0])
                if not ch or len(ch) != 2:
                    refuse(d, 'on_message argument')
                key = ch[0] if ch[1] == 'Response' else '.'.join(ch)
                if key in out:
                    refuse(d, 'two handlers for one message')
                out[key] = fn
    return out


def translate(src: Path) -> dict:
    pins = json.loads(PINS.read_text())
    fp = fingerprints(src)
    diff = sorted(k for k in set(pins) | set(fp) if pins.get(k) != fp.get(k))
    if diff:
        raise Refuse('hand-modelled functions changed shape (translate/pins_rooms.json): ' + ', '.join(diff))

    rm = find_class(ast.parse((src / 'aioslsk' / 'room' / 'manager.py').read_text()), 'RoomManager')
    um = find_class(ast.parse((src / 'aioslsk' / 'user' / 'manager.py').read_text()), 'UserManager')
    hr, hu = handlers_of(rm), handlers_of(um)
    # every message the model knows must have exactly the handler we expect, and the room manager may not
    # have handlers for view-relevant messages the model does not know
    known_room = set(ORDER) - USER_MANAGER_MSGS
    extra = {k for k in hr if k not in known_room and k != 'TogglePrivateRoomInvites'}
    if extra:
        raise Refuse(f'RoomManager handles messages the model does not know: {sorted(extra)}')
    clauses = []
    for name in ORDER:
        src_map = hu if name in USER_MANAGER_MSGS else hr
        if name not in src_map:
            raise Refuse(f'no handler for {name}')
        if name in HAND:
            clauses.append(HAND[name])
            continue
        clauses.append(Handler(src_map[name], name, name in USER_MANAGER_MSGS).run().clause())
    text = ('(* GENERATED by /verif/translate/tr_rooms.py from room/manager.py and user/manager.py -- do not edit;\n'
            '   regenerated on every run.  One clause per @on_message handler, one `let` per Python statement. *)\n'
            'From Coq Require Import ZArith List Bool Arith.\n'
            'From Slsk Require Import C19.Spec C19.Model.\n'
            'Import ListNotations.\n\n'
            'Section Handlers.\n  Variable me : name.\n  Variable bl : blockmap.\n\n'
            '  Definition ev (l : label) (r : option room) (u : option name) : list event := [mkEv l r u].\n\n'
            '  Definition apply_msg (s : state) (m : msg) : state * list event :=\n    match m with\n'
            + '\n'.join(clauses) + '\n    end.\n\n'
            '  Definition fold (s : state) (ms : list msg) : state := fold_left (fun s m => fst (apply_msg s m)) ms s.\n\n'
            '  Fixpoint trace (s : state) (ms : list msg) : list (state * list event) :=\n'
            '    match ms with\n    | [] => []\n    | m :: r => let p := apply_msg s m in p :: trace (fst p) r\n    end.\n'
            'End Handlers.\n')
    return {'RoomGen.v': text}


if __name__ == '__main__':
    root = Path(sys.argv[2]) if len(sys.argv) > 2 else Path('/repo/src')
    if len(sys.argv) > 1 and sys.argv[1] == '--pin':
        PINS.write_text(json.dumps(fingerprints(root), indent=1, sort_keys=True) + '\n')
        print('pinned', PINS)
    else:
        print(translate(root)['RoomGen.v'])
