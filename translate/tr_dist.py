"""T3: distributed.py -> gen/DistGen.v  (fail-closed; every accepted shape is matched explicitly).

Generated definitions
  POTENTIAL_PARENTS_CACHE_SIZE, DEFAULT_PARENT_MIN_SPEED, DEFAULT_PARENT_SPEED_RATIO   (constants.py)
  initial_max_children, initial_accept_children            (DistributedNetwork.__init__)
  calculate_max_children  upload_speed parent_speed_ratio   (_calculate_max_children; the float
        expression int(speed / ((ratio / 10) * 1024)) is turned into an exact integer quotient
        num/den by rational-expression normalisation; equal to the float result for the value
        ranges the harness checks, see checks/c13.py `float_agreement`)
  child_limits  speed parent_min_speed parent_speed_ratio   (the if/else of _on_get_user_stats:
        threshold comparison as written in the source, accept flag, max children)
  check_new_child  in_potential_parents accept n_children max_children  (_check_if_new_child:
        guards in source order with the comparison operator of the source)
  advertised  username has_parent parent_root parent_level    (_get_advertised_branch_values)
  take_as_parent  has_parent is_child                      (_check_if_new_parent: condition for _set_parent, else disconnect)
  parent_update_tells_server : bool                        (else-branches of the two branch handlers)
  legacy_code_ok code                                      (distributed code test of the legacy carrier)
  server_search_own_filtered / dist_search_own_filtered / legacy_search_own_filtered : bool
        whether the handler (in distributed.py AND search/manager.py) returns early when the
        searching user is the logged-in user
"""
import ast
from pathlib import Path
from .pyexpr import Refuse, refuse, find_class, find_func, int_const, HEADER, CMPOPS


def _strip(body):
    """drop docstrings and logger calls"""
    out = []
    for s in body:
        if isinstance(s, ast.Expr) and isinstance(s.value, ast.Constant) and isinstance(s.value.value, str):
            continue
        if (isinstance(s, ast.Expr) and isinstance(s.value, ast.Call) and isinstance(s.value.func, ast.Attribute)
                and isinstance(s.value.func.value, ast.Name) and s.value.func.value.id == 'logger'):
            continue
        out.append(s)
    return out


def _src(n):
    return ast.unparse(n)


# ---------------------------------------------------------------- rational expressions (float-free)
def _rat(e, env):
    """expression over names/ints with * and true division -> (num_text, den_text)"""
    if isinstance(e, ast.Constant) and isinstance(e.value, int) and not isinstance(e.value, bool):
        if e.value <= 0:
            refuse(e, 'non-positive literal in rational expression')
        return (str(e.value), '1')
    if isinstance(e, ast.Name):
        if e.id in env:
            return env[e.id]
        refuse(e, 'unknown name')
    if isinstance(e, ast.BinOp) and isinstance(e.op, ast.Div):
        an, ad = _rat(e.left, env)
        bn, bd = _rat(e.right, env)
        return (f'({an} * {bd})', f'({ad} * {bn})')
    if isinstance(e, ast.BinOp) and isinstance(e.op, ast.Mult):
        an, ad = _rat(e.left, env)
        bn, bd = _rat(e.right, env)
        return (f'({an} * {bn})', f'({ad} * {bd})')
    refuse(e, 'rational expression')


def tr_calculate_max_children(fn):
    if [a.arg for a in fn.args.args] != ['self', 'upload_speed', 'parent_speed_ratio'] or isinstance(fn, ast.AsyncFunctionDef):
        raise Refuse('_calculate_max_children signature')
    env = {'upload_speed': ('upload_speed', '1'), 'parent_speed_ratio': ('parent_speed_ratio', '1')}
    body = _strip(fn.body)
    for s in body[:-1]:
        if not (isinstance(s, ast.Assign) and len(s.targets) == 1 and isinstance(s.targets[0], ast.Name)):
            refuse(s, '_calculate_max_children statement')
        env[s.targets[0].id] = _rat(s.value, env)
    r = body[-1]
    if not (isinstance(r, ast.Return) and isinstance(r.value, ast.Call) and isinstance(r.value.func, ast.Name)
            and r.value.func.id == 'int' and len(r.value.args) == 1 and not r.value.keywords):
        refuse(r, '_calculate_max_children must end with `return int(<expr>)`')
    num, den = _rat(r.value.args[0], env)
    return ('(* int(num/den) for num >= 0, den > 0: truncation = floor *)\n'
            'Definition calculate_max_children (upload_speed parent_speed_ratio : Z) : Z :=\n'
            f' Z.div {num} {den}.\n')


# ---------------------------------------------------------------- integer expressions with locals
def _zexpr(e, env):
    if isinstance(e, ast.Constant) and isinstance(e.value, int) and not isinstance(e.value, bool):
        return f'({e.value})' if e.value < 0 else str(e.value)
    if isinstance(e, ast.Name) and e.id in env:
        return env[e.id]
    if isinstance(e, ast.Attribute) and _src(e) in env:
        return env[_src(e)]
    if isinstance(e, ast.BinOp) and isinstance(e.op, (ast.Add, ast.Sub, ast.Mult)):
        op = {ast.Add: 'Z.add', ast.Sub: 'Z.sub', ast.Mult: 'Z.mul'}[type(e.op)]
        return f'({op} {_zexpr(e.left, env)} {_zexpr(e.right, env)})'
    refuse(e, 'integer expression')


def _zcmp(e, env):
    if not (isinstance(e, ast.Compare) and len(e.ops) == 1):
        refuse(e, 'comparison')
    pat = CMPOPS.get(type(e.ops[0]))
    if pat is None:
        refuse(e, 'comparison operator')
    return '(' + pat.format(a=_zexpr(e.left, env), b=_zexpr(e.comparators[0], env)) + ')'


def tr_child_limits(fn):
    """_on_get_user_stats: the block
         if <session and own name>:
            speed = message.user_stats.avg_speed
            <defaulting of parent_min_speed / parent_speed_ratio>
            if speed <cmp> parent_min_speed * 1024: accept=False; max=0
            else: accept=True; max=self._calculate_max_children(speed, parent_speed_ratio)
            <send AcceptChildren(self._accept_children)>"""
    body = _strip(fn.body)
    if len(body) != 1 or not isinstance(body[0], ast.If) or body[0].orelse:
        raise Refuse('_on_get_user_stats: expected one guarded block')
    if _src(body[0].test) != 'self._session and message.username == self._session.user.name':
        raise Refuse('_on_get_user_stats guard changed: ' + _src(body[0].test))
    blk = _strip(body[0].body)
    if len(blk) != 5:
        raise Refuse(f'_on_get_user_stats block has {len(blk)} statements, expected 5')
    if _src(blk[0]) != 'speed = message.user_stats.avg_speed':
        raise Refuse('_on_get_user_stats: speed source changed')
    for st, var, const in ((blk[1], 'parent_min_speed', 'DEFAULT_PARENT_MIN_SPEED'), (blk[2], 'parent_speed_ratio', 'DEFAULT_PARENT_SPEED_RATIO')):
        want = (f'if self.{var} is None:\n    {var} = {const}\nelse:\n    {var} = self.{var}')
        got = ast.unparse(ast.If(test=st.test, body=_strip(st.body), orelse=_strip(st.orelse))) if isinstance(st, ast.If) else ''
        if got != want:
            raise Refuse(f'_on_get_user_stats: defaulting of {var} changed: {got}')
    dec = blk[3]
    if not isinstance(dec, ast.If):
        raise Refuse('_on_get_user_stats: decision is not an if')
    env = {'speed': 'speed', 'parent_min_speed': 'parent_min_speed', 'parent_speed_ratio': 'parent_speed_ratio'}
    test = _zcmp(dec.test, env)

    def branch(stmts):
        stmts = _strip(stmts)
        if len(stmts) != 2:
            raise Refuse('_on_get_user_stats: branch must assign accept and max')
        a, m = stmts
        if not (isinstance(a, ast.Assign) and _src(a.targets[0]) == 'self._accept_children' and isinstance(a.value, ast.Constant)
                and isinstance(a.value.value, bool)):
            refuse(a, 'accept assignment')
        if not (isinstance(m, ast.Assign) and _src(m.targets[0]) == 'self._max_children'):
            refuse(m, 'max assignment')
        if _src(m.value) == 'self._calculate_max_children(speed, parent_speed_ratio)':
            mx = '(calculate_max_children speed parent_speed_ratio)'
        else:
            mx = _zexpr(m.value, env)
        return 'true' if a.value.value else 'false', mx
    a1, m1 = branch(dec.body)
    a2, m2 = branch(dec.orelse)
    snd = blk[4]
    if ' '.join(_src(snd).split()) != 'await self._network.send_server_messages(AcceptChildren.Request(self._accept_children))':
        raise Refuse('_on_get_user_stats: AcceptChildren send changed: ' + _src(snd))
    return ('(* (below threshold?, accept, max children) *)\n'
            'Definition child_limits (speed parent_min_speed parent_speed_ratio : Z) : bool * bool * Z :=\n'
            f' if {test} then (true, {a1}, {m1}) else (false, {a2}, {m2}).\n')


def tr_check_new_child(fn):
    body = _strip(fn.body)
    if not body or _src(body[-1]) != 'await self._add_child(peer)':
        raise Refuse('_check_if_new_child must end with `await self._add_child(peer)`')
    env = {'len(self.children)': 'n_children', 'self._max_children': 'max_children'}
    guards = []
    for g in body[:-1]:
        if not isinstance(g, ast.If) or g.orelse:
            refuse(g, '_check_if_new_child guard')
        gb = _strip(g.body)
        if not gb or not (isinstance(gb[-1], ast.Return) and gb[-1].value is None):
            refuse(g, 'guard must end with return')
        if len(gb) == 1:
            verdict = 'CV_ignore'
        elif len(gb) == 2 and _src(gb[0]) == 'await peer.connection.disconnect(CloseReason.REQUESTED)':
            verdict = 'CV_reject'
        else:
            refuse(g, 'guard body')
        t = g.test
        if _src(t) == 'peer.username in self.potential_parents':
            cond = 'in_potential_parents'
        elif _src(t) == 'peer.username not in self.potential_parents':
            cond = '(negb in_potential_parents)'
        elif _src(t) == 'not self._accept_children':
            cond = '(negb accept_children)'
        elif _src(t) == 'self._accept_children':
            cond = 'accept_children'
        elif isinstance(t, ast.Compare):
            def ze(x):
                if isinstance(x, ast.Call) and _src(x) == 'len(self.children)':
                    return 'n_children'
                if _src(x) == 'self._max_children':
                    return 'max_children'
                return _zexpr(x, {})
            if len(t.ops) != 1 or type(t.ops[0]) not in CMPOPS:
                refuse(t, 'guard comparison')
            cond = '(' + CMPOPS[type(t.ops[0])].format(a=ze(t.left), b=ze(t.comparators[0])) + ')'
        else:
            refuse(t, 'guard test')
        guards.append((cond, verdict))
    txt = 'CV_add'
    for cond, verdict in reversed(guards):
        txt = f'if {cond} then {verdict} else\n {txt}'
    return ('Inductive child_verdict := CV_ignore | CV_reject | CV_add.\n'
            'Definition check_new_child (in_potential_parents accept_children : bool) (n_children max_children : Z) : child_verdict :=\n'
            f' {txt}.\n')


def tr_add_child(fn):
    """_add_child: append, then level always, root only when level != 0 (shape check only)."""
    body = _strip(fn.body)
    want = ['if not peer.connection:\n    return', 'self.children.append(peer)', 'root, level = self._get_advertised_branch_values()',
            'await peer.connection.send_message(DistributedBranchLevel.Request(level))',
            'if level != 0:\n    await peer.connection.send_message(DistributedBranchRoot.Request(root))']
    # repaired shape (F28): the values are read again before each message
    want2 = ['if not peer.connection:\n    return', 'self.children.append(peer)', '_, level = self._get_advertised_branch_values()',
             'await peer.connection.send_message(DistributedBranchLevel.Request(level))',
             'root, level = self._get_advertised_branch_values()',
             'if level != 0:\n    await peer.connection.send_message(DistributedBranchRoot.Request(root))']
    got = [_src(s) for s in body]
    if got not in (want, want2):
        raise Refuse(f'_add_child changed: {got}')
    return got == want2


def tr_advertised(fn):
    body = _strip(fn.body)
    if len(body) != 3 or _src(body[0]) != 'username = self._session.user.name':
        raise Refuse('_get_advertised_branch_values shape')
    env_n = {'username': 'username', 'self.parent.branch_root': 'parent_root'}
    env_z = {'self.parent.branch_level': 'parent_level'}

    def ret(r):
        if not (isinstance(r, ast.Return) and isinstance(r.value, ast.Tuple) and len(r.value.elts) == 2):
            refuse(r, 'return (root, level)')
        a, b = r.value.elts
        if _src(a) not in env_n:
            refuse(a, 'root expression')
        return f'({env_n[_src(a)]}, {_zexpr(b, env_z)})'

    def blk(stmts):
        stmts = _strip(stmts)
        if len(stmts) == 1 and isinstance(stmts[0], ast.Return):
            return ret(stmts[0])
        if len(stmts) == 1 and isinstance(stmts[0], ast.If) and stmts[0].orelse:
            i = stmts[0]
            t = i.test
            if not (isinstance(t, ast.Compare) and len(t.ops) == 1 and isinstance(t.ops[0], (ast.Eq, ast.NotEq))
                    and _src(t.left) in env_n and _src(t.comparators[0]) in env_n):
                refuse(t, 'name comparison')
            c = f'Nat.eqb {env_n[_src(t.left)]} {env_n[_src(t.comparators[0])]}'
            if isinstance(t.ops[0], ast.NotEq):
                c = f'negb ({c})'
            return f'(if {c} then {blk(i.body)} else {blk(i.orelse)})'
        raise Refuse('_get_advertised_branch_values block: ' + '; '.join(_src(s) for s in stmts))
    top = body[1]
    if not (isinstance(top, ast.If) and _src(top.test) == 'self.parent' and not top.orelse):
        raise Refuse('_get_advertised_branch_values: expected `if self.parent:`')
    return ('(* (root, level) advertised to the server and the children *)\n'
            'Definition advertised (username : nat) (has_parent : bool) (parent_root : nat) (parent_level : Z) : nat * Z :=\n'
            f' if has_parent then {blk(top.body)} else {ret(body[2])}.\n')



def tr_take_as_parent(fn):
    """_check_if_new_parent: `if <complete>: if <cond>: await self._set_parent(peer) else: await peer.connection.disconnect(...)`;
    <cond> over `not self.parent` and `peer not in self.children`."""
    body = _strip(fn.body)
    if len(body) != 1 or not isinstance(body[0], ast.If) or body[0].orelse:
        raise Refuse('_check_if_new_parent shape')
    if _src(body[0].test) != 'peer.branch_level is not None and peer.branch_root is not None':
        raise Refuse('_check_if_new_parent: completeness test changed: ' + _src(body[0].test))
    inner = _strip(body[0].body)
    if len(inner) != 1 or not isinstance(inner[0], ast.If):
        raise Refuse('_check_if_new_parent inner shape')
    i = inner[0]
    if [_src(x) for x in _strip(i.body)] != ['await self._set_parent(peer)'] or \
            [_src(x) for x in _strip(i.orelse)] != ['await peer.connection.disconnect(reason=CloseReason.REQUESTED)']:
        raise Refuse('_check_if_new_parent branches changed')

    def cond(t):
        if isinstance(t, ast.BoolOp):
            op = 'andb' if isinstance(t.op, ast.And) else 'orb'
            parts = [cond(v) for v in t.values]
            r = parts[-1]
            for q in reversed(parts[:-1]):
                r = f'({op} {q} {r})'
            return r
        m = {'not self.parent': '(negb has_parent)', 'self.parent is None': '(negb has_parent)', 'self.parent': 'has_parent',
             'peer not in self.children': '(negb is_child)', 'peer in self.children': 'is_child'}
        if _src(t) in m:
            return m[_src(t)]
        refuse(t, '_check_if_new_parent condition')
    return ('(* a peer with complete branch values becomes the parent (true) or is disconnected (false) *)\n'
            f'Definition take_as_parent (has_parent is_child : bool) : bool := {cond(i.test)}.\n')


def tr_parent_update(cls):
    """else-branch (message from the current parent) of the two branch handlers: children only, or server then children."""
    res = []
    for name in ('_on_distributed_branch_level', '_on_distributed_branch_root'):
        fn = find_func(cls.body, name)
        last = _strip(fn.body)[-1]
        if not (isinstance(last, ast.If) and _src(last.test) == 'peer != self.parent'
                and [_src(x) for x in _strip(last.body)] == ['await self._check_if_new_parent(peer)']):
            raise Refuse(f'{name}: dispatch on `peer != self.parent` changed')
        got = [_src(x) for x in _strip(last.orelse)]
        if got == ['await self._notify_children_of_branch_values()']:
            res.append(False)
        elif got == ['await self._notify_server_of_parent()', 'await self._notify_children_of_branch_values()']:
            res.append(True)
        else:
            raise Refuse(f'{name}: handling of updates from the parent changed: {got}')
    if res[0] != res[1]:
        raise Refuse('branch level and branch root handlers treat updates of the parent differently')
    return ('(* an update from the current parent is advertised to the server (then the children), or to the children only *)\n'
            f'Definition parent_update_tells_server : bool := {"true" if res[0] else "false"}.\n')


# ---------------------------------------------------------------- effect lists of the procedural handlers
class _Clean(ast.NodeTransformer):
    """drops logging calls and docstrings at every nesting level"""

    def visit_Expr(self, node):
        v = node.value
        if isinstance(v, ast.Constant) and isinstance(v.value, str):
            return None
        if (isinstance(v, ast.Call) and isinstance(v.func, ast.Attribute) and isinstance(v.func.value, ast.Name)
                and v.func.value.id in ('logger', 'adapter')):
            return None
        return node


def _clean_stmts(nodes):
    import copy
    body = [_Clean().visit(copy.deepcopy(x)) for x in nodes]
    return [' '.join(_src(x).split()) for x in body if x is not None]


def _stmts(fn):
    return _clean_stmts(fn.body)


CLOSE_OTHERS = [
    'distributed_connections = [dpeer.connection for dpeer in self.distributed_peers if dpeer in [self.parent] + self.children]',
    'disconnect_tasks = []',
    'for peer_connection in self._network.peer_connections: if peer_connection.connection_type == PeerConnectionType.DISTRIBUTED: '
    'if peer_connection not in distributed_connections: disconnect_tasks.append(peer_connection.disconnect(reason=CloseReason.REQUESTED))',
    'await asyncio.gather(*disconnect_tasks, return_exceptions=True)',
]

EFFECT_ATOMS = {
    'self.parent = peer': 'E_set_parent_peer',
    'self.parent = None': 'E_set_parent_none',
    'await asyncio.gather(*self._cancel_potential_parent_tasks(), return_exceptions=True)': 'E_await_cancel_tasks',
    'await self._notify_server_of_parent()': 'E_notify_server',
    'await self._notify_children_of_branch_values()': 'E_notify_children',
    'if not self._session: return': 'E_return_if_no_session',
    'username = self._session.user.name': 'E_read_username',
    'self._session = event.session': 'E_set_session',
    'self._session = None': 'E_clear_session',
    'if self.parent and peer == self.parent: await self._unset_parent()': 'E_unset_if_parent',
    'if peer in self.children: self._remove_child(peer)': 'E_remove_if_child',
    'self.distributed_peers.remove(peer)': 'E_remove_peer',
    'await self._disconnect_children()': 'E_disconnect_children',
    'await self._disconnect_parent()': 'E_disconnect_parent',
    'self.children.remove(peer)': 'E_children_remove',
}
ALL_EFFECTS = sorted(set(EFFECT_ATOMS.values()) | {'E_close_other_connections', 'E_tell_children_level_root'})


def effect_list(name, stmts):
    out = []
    i = 0
    while i < len(stmts):
        if stmts[i:i + len(CLOSE_OTHERS)] == CLOSE_OTHERS:
            out.append('E_close_other_connections')
            i += len(CLOSE_OTHERS)
            continue
        a = EFFECT_ATOMS.get(stmts[i])
        if a is None:
            raise Refuse(f'{name}: statement outside the accepted effect vocabulary: {stmts[i]!r}')
        out.append(a)
        i += 1
    return out


def tr_effects(cls):
    res = {}
    res['set_parent_effects'] = effect_list('_set_parent', _stmts(find_func(cls.body, '_set_parent')))
    # _unset_parent: last statement = level/root to the children
    un = _stmts(find_func(cls.body, '_unset_parent'))
    want_last = 'await self.send_messages_to_children(DistributedBranchLevel.Request({L}), DistributedBranchRoot.Request(username))'
    import re
    m = re.fullmatch(re.escape(want_last).replace(r'\{L\}', r'(\d+)'), un[-1]) if un else None
    if not m:
        raise Refuse(f'_unset_parent: announcement to the children changed: {un[-1:]!r}')
    # the early return is written as an if with a logger call inside: _strip removed the logger call
    un = ['if not self._session: return' if x.startswith('if not self._session:') and x.endswith('return') else x for x in un[:-1]]
    res['unset_parent_effects'] = effect_list('_unset_parent', un) + ['E_tell_children_level_root']
    unset_level = int(m.group(1))
    res['session_init_effects'] = effect_list('_on_session_initialized', _stmts(find_func(cls.body, '_on_session_initialized')))
    res['session_destroyed_effects'] = effect_list('_on_session_destroyed', _stmts(find_func(cls.body, '_on_session_destroyed')))
    res['reset_effects'] = effect_list('reset', _stmts(find_func(cls.body, 'reset')))
    res['remove_child_effects'] = effect_list('_remove_child', _stmts(find_func(cls.body, '_remove_child')))
    # _on_state_changed: the CLOSED branch for a registered distributed peer
    sc = find_func(cls.body, '_on_state_changed')
    closed_if = None
    for n in ast.walk(sc):
        if isinstance(n, ast.If) and _src(n.test) == 'event.state == ConnectionState.CLOSED':
            closed_if = n
    if closed_if is None or closed_if.orelse:
        raise Refuse('_on_state_changed: CLOSED branch not found')
    cb = _clean_stmts(closed_if.body)
    if cb[:2] != ['peer = self.get_distributed_peer(connection)', 'if not peer: return']:
        raise Refuse(f'_on_state_changed: peer lookup changed: {cb[:2]}')
    res['closed_handler_effects'] = effect_list('_on_state_changed(CLOSED)', cb[2:])

    out = ['(* effect lists of the procedural handlers, in source order (await points are the E_await_* / E_notify_* atoms) *)\n',
           'Inductive eff := ' + ' | '.join(ALL_EFFECTS) + '.\n']
    for k, v in res.items():
        out.append(f'Definition {k} : list eff := [{"; ".join(v)}].\n')
    out.append(f'Definition unset_children_level : Z := {unset_level}.\n')
    si = res['session_init_effects']
    if si not in (['E_set_session', 'E_notify_server'], ['E_set_session', 'E_notify_server', 'E_notify_children']):
        raise Refuse(f'_on_session_initialized: {si}')
    out.append('(* the children are re-advertised when a session starts (repair of F27) *)\n')
    out.append(f'Definition session_init_readvertises : bool := {"true" if len(si) == 3 else "false"}.\n')

    # _notify_server_of_parent: order of the three messages, the search flag
    ns = _stmts(find_func(cls.body, '_notify_server_of_parent'))
    want = ['root, level = self._get_advertised_branch_values()', None,
            'if not self._settings.debug.search_for_parent: search_for_parent = False', None]
    if len(ns) != 4 or ns[0] != want[0] or ns[2] != want[2]:
        raise Refuse(f'_notify_server_of_parent shape: {ns}')
    flag = {'search_for_parent = False if self.parent else True': '(negb has_parent)',
            'search_for_parent = not self.parent': '(negb has_parent)',
            'search_for_parent = True if self.parent else False': 'has_parent',
            'search_for_parent = True': 'true', 'search_for_parent = False': 'false'}.get(ns[1])
    if flag is None:
        raise Refuse(f'_notify_server_of_parent: search flag expression: {ns[1]!r}')
    m = re.fullmatch(r'await self\._network\.send_server_messages\(\*\[(.*)\]\)', ns[3])
    if not m:
        raise Refuse(f'_notify_server_of_parent: send changed: {ns[3]!r}')
    fields = {'BranchLevel.Request(level)': 'AF_level', 'BranchRoot.Request(root)': 'AF_root',
              'ToggleParentSearch.Request(search_for_parent)': 'AF_search'}
    order = []
    for part in [x.strip() for x in m.group(1).split(', ')]:
        if part not in fields:
            raise Refuse(f'_notify_server_of_parent: message {part!r}')
        order.append(fields[part])
    out.append('Inductive advert_field := AF_level | AF_root | AF_search.\n')
    out.append(f'Definition server_advert_order : list advert_field := [{"; ".join(order)}].\n')
    out.append(f'Definition parent_search_flag (has_parent : bool) : bool := {flag}.\n')

    # _notify_children_of_branch_values
    nc = _stmts(find_func(cls.body, '_notify_children_of_branch_values'))
    if nc != ['root, level = self._get_advertised_branch_values()',
              'await self.send_messages_to_children(DistributedBranchLevel.Request(level), DistributedBranchRoot.Request(root))']:
        raise Refuse(f'_notify_children_of_branch_values changed: {nc}')

    # send_messages_to_children: independent queued sends on every current child, or one awaited write after the other
    sm = _stmts(find_func(cls.body, 'send_messages_to_children'))
    if sm == ['for child in self.children: child.connection.queue_messages(*messages)']:
        indep = True
    elif sm in (['for child in self.children: for message in messages: await child.connection.send_message(message)'],
                ['for child in self.children: await child.connection.send_message(*messages)']):
        indep = False
    else:
        raise Refuse(f'send_messages_to_children changed: {sm}')
    out.append('(* every current child gets its own queued send tasks (true), or the children are written to one after the other (false) *)\n')
    out.append(f'Definition children_send_independent : bool := {"true" if indep else "false"}.\n')
    return ''.join(out)


# ---------------------------------------------------------------- fingerprints of the remaining hand-modelled functions
import hashlib

FINGERPRINTS = {
    'distributed.py:_cancel_potential_parent_tasks': 'a1592c1e9dd66873f5fd',
    'distributed.py:_disconnect_child': '3a1f54432ea8a02586ba',
    'distributed.py:_disconnect_children': 'f4936df2646b24fc4aed',
    'distributed.py:_disconnect_parent': 'ba566187b2e9b97f1e96',
    'distributed.py:_has_parent_speed_values': '9fd280bd7b4889d29d0b',
    'distributed.py:_on_distributed_branch_level': '4af849639b6563abf529',
    'distributed.py:_on_distributed_branch_root': '3b8d553cda6dc30aee7d',
    'distributed.py:_on_distributed_child_depth': 'e9338311a838f952fc02',
    'distributed.py:_on_distributed_search_request': '7317cbb83c0da127ec64',
    'distributed.py:_on_distributed_server_search_request': 'c47100eb79d3d4445b79',
    'distributed.py:_on_message_received': '22f7514cf11c5cd61fc1',
    'distributed.py:_on_parent_min_speed': 'd053bd0ab03b1f9d7cf6',
    'distributed.py:_on_parent_speed_ratio': '89b844dbc167d22c431f',
    'distributed.py:_on_peer_connection_initialized': 'b37e9843c82b0302d78a',
    'distributed.py:_on_potential_parents': '2d6e321bb41d2f8f3c4e',
    'distributed.py:_on_server_search_request': 'f0b95c07de4be9864757',
    'distributed.py:_on_state_changed': '10acfc1997cc32457386',
    'distributed.py:_potential_parent_task_callback': '2dba9a4c09ceec24007b',
    'distributed.py:_request_user_stats': '94b145f31140481497d6',
    'distributed.py:_reset_server_values': '2e62cc22fb058f98adef',
    'distributed.py:get_distributed_peer': '9b053b033642175427aa',
    'network/connection.py:_cancel_queued_messages': '1769b461cf855c4c9c1a',
    'network/connection.py:queue_message': '7c1bb7b8e056d2f02443',
    'network/connection.py:queue_messages': '97485198e55c487f0e93',
    'search/manager.py:_on_distributed_search_request': 'ed64defd6e310e1bd0b1',
    'search/manager.py:_on_distributed_server_search_request': 'b922cfe0f4d3cc4ec606',
    'search/manager.py:_on_server_search_request': '511cc26766516fa11097',
    'search/manager.py:_query_shares_and_reply': '06364f977020419b1ec0',
}     # regenerate with:  python -m translate.tr_dist --fingerprints


def fingerprint(fn) -> str:
    return hashlib.sha256('\n'.join(_stmts(fn)).encode()).hexdigest()[:20]


PINNED = {
    'distributed.py': ['get_distributed_peer', '_reset_server_values', '_disconnect_children', '_disconnect_child', '_disconnect_parent',
                       '_on_parent_min_speed', '_on_parent_speed_ratio', '_on_potential_parents', '_on_server_search_request',
                       '_on_distributed_branch_level', '_on_distributed_branch_root', '_on_distributed_child_depth',
                       '_on_distributed_search_request', '_on_distributed_server_search_request', '_request_user_stats',
                       '_has_parent_speed_values', '_on_peer_connection_initialized', '_on_message_received', '_on_state_changed',
                       '_cancel_potential_parent_tasks', '_potential_parent_task_callback'],
    'search/manager.py': ['_query_shares_and_reply', '_on_distributed_search_request', '_on_distributed_server_search_request',
                          '_on_server_search_request'],
    'network/connection.py': ['queue_message', 'queue_messages', '_cancel_queued_messages'],
}


def current_fingerprints(src: Path) -> dict:
    res = {}
    for rel, names in PINNED.items():
        tree = ast.parse((src / 'aioslsk' / rel).read_text())
        cname = {'distributed.py': 'DistributedNetwork', 'search/manager.py': 'SearchManager', 'network/connection.py': 'DataConnection'}[rel]
        cls = find_class(tree, cname)
        for n in names:
            res[f'{rel}:{n}'] = fingerprint(find_func(cls.body, n))
    return res


def check_fingerprints(src: Path):
    cur = current_fingerprints(src)
    bad = [k for k in cur if FINGERPRINTS.get(k) != cur[k]]
    if bad:
        raise Refuse('hand-modelled functions changed since the model was written (fingerprint): ' + ', '.join(sorted(bad)))

# ---------------------------------------------------------------- search carriers: own-name filters
def _own_filter(fn, user_expr='message.username') -> bool:
    """True iff the handler returns before doing anything when message.username is the session user."""
    for s in ast.walk(fn):
        if not isinstance(s, ast.If):
            continue
        test = s.test
        if isinstance(test, ast.BoolOp) and isinstance(test.op, ast.And) and len(test.values) == 2 and _src(test.values[0]) == 'self._session':
            test = test.values[1]      # `self._session and <user> == <own name>`
        if isinstance(test, ast.Compare) and len(test.ops) == 1 and isinstance(test.ops[0], ast.Eq):
            l, r = _src(test.left), _src(test.comparators[0])
            if {l, r} in ({user_expr, 'username'}, {user_expr, 'self._session.user.name'}):
                b = _strip(s.body)
                if b and isinstance(b[0], ast.Return):
                    return True
    return False


def translate(src: Path) -> dict:
    dpath = src / 'aioslsk' / 'distributed.py'
    tree = ast.parse(dpath.read_text())
    ctree = ast.parse((src / 'aioslsk' / 'constants.py').read_text())
    stree = ast.parse((src / 'aioslsk' / 'search' / 'manager.py').read_text())
    cls = find_class(tree, 'DistributedNetwork')
    scls = find_class(stree, 'SearchManager')

    out = [HEADER.format(src='src/aioslsk/distributed.py, constants.py, search/manager.py'), 'Import ListNotations.\n']
    cache = int_const(ctree.body, 'POTENTIAL_PARENTS_CACHE_SIZE')
    if not (1 <= cache < 5000):
        raise Refuse('POTENTIAL_PARENTS_CACHE_SIZE out of range')
    out.append(f'Definition POTENTIAL_PARENTS_CACHE_SIZE : nat := {cache}.\n')
    for c in ('DEFAULT_PARENT_MIN_SPEED', 'DEFAULT_PARENT_SPEED_RATIO'):
        out.append(f'Definition {c} : Z := {int_const(ctree.body, c)}.\n')

    # __init__: deque(maxlen=POTENTIAL_PARENTS_CACHE_SIZE), _max_children, _accept_children
    init = find_func(cls.body, '__init__')
    vals = {}
    for s in init.body:
        if isinstance(s, ast.AnnAssign) and isinstance(s.target, ast.Attribute) and s.value is not None:
            vals[s.target.attr] = s.value
    pp = vals.get('potential_parents')
    if pp is None or ' '.join(_src(pp).split()) != 'deque(maxlen=POTENTIAL_PARENTS_CACHE_SIZE)':
        raise Refuse('potential_parents is not deque(maxlen=POTENTIAL_PARENTS_CACHE_SIZE)')
    mc, ac = vals.get('_max_children'), vals.get('_accept_children')
    if not (isinstance(mc, ast.Constant) and isinstance(mc.value, int) and isinstance(ac, ast.Constant) and isinstance(ac.value, bool)):
        raise Refuse('initial _max_children/_accept_children')
    out.append(f'Definition initial_max_children : Z := {mc.value}.\n')
    out.append(f'Definition initial_accept_children : bool := {"true" if ac.value else "false"}.\n\n')

    out.append(tr_calculate_max_children(find_func(cls.body, '_calculate_max_children')) + '\n')
    out.append(tr_child_limits(find_func(cls.body, '_on_get_user_stats')) + '\n')
    out.append(tr_check_new_child(find_func(cls.body, '_check_if_new_child')) + '\n')
    reread = tr_add_child(find_func(cls.body, '_add_child'))
    out.append('(* _add_child reads the advertised values again before the root message (repair of F28) *)\n'
               f'Definition add_child_rereads_values : bool := {"true" if reread else "false"}.\n\n')
    out.append(tr_advertised(find_func(cls.body, '_get_advertised_branch_values')) + '\n')
    out.append(tr_take_as_parent(find_func(cls.body, '_check_if_new_parent')) + '\n')
    out.append(tr_parent_update(cls) + '\n')
    out.append(tr_effects(cls) + '\n')
    check_fingerprints(src)

    # legacy carrier: code test
    leg = find_func(cls.body, '_on_distributed_server_search_request')
    lb = _strip(leg.body)
    if not (lb and isinstance(lb[0], ast.If) and _src(lb[0].test) == 'message.distributed_code != DistributedSearchRequest.Request.MESSAGE_ID'
            and isinstance(_strip(lb[0].body)[-1], ast.Return)):
        raise Refuse('_on_distributed_server_search_request: code test changed')
    mtree = ast.parse((src / 'aioslsk' / 'protocol' / 'messages.py').read_text())
    dsr = find_class(mtree, 'DistributedSearchRequest')
    req = find_class(ast.Module(body=dsr.body, type_ignores=[]), 'Request')
    mid = None
    for s in req.body:
        if isinstance(s, ast.AnnAssign) and isinstance(s.target, ast.Name) and s.target.id == 'MESSAGE_ID':
            v = s.value
            if isinstance(v, ast.Call) and len(v.args) == 1 and isinstance(v.args[0], ast.Constant):
                mid = v.args[0].value
    if not isinstance(mid, int):
        raise Refuse('DistributedSearchRequest.Request.MESSAGE_ID')
    out.append(f'Definition DIST_SEARCH_MESSAGE_ID : Z := {mid}.\n')
    out.append('Definition legacy_code_ok (code : Z) : bool := Z.eqb code DIST_SEARCH_MESSAGE_ID.\n')
    unk = None
    for lm in lb[1:]:
        if (isinstance(lm, ast.Assign) and isinstance(lm.value, ast.Call)
                and _src(lm.value.func) == 'DistributedSearchRequest.Request'):
            kws = {kw.arg: kw.value for kw in lm.value.keywords}
            if sorted(kws) != ['query', 'ticket', 'unknown', 'username'] or lm.value.args:
                raise Refuse('legacy carrier: fields of the rebuilt request changed')
            for f in ('username', 'ticket', 'query'):
                if _src(kws[f]) != f'message.{f}':
                    raise Refuse(f'legacy carrier: {f} is not copied from the message')
            if isinstance(kws['unknown'], ast.Constant):
                unk = kws['unknown'].value
    if not isinstance(unk, int):
        raise Refuse('legacy carrier: unknown= literal')
    out.append(f'Definition LEGACY_UNKNOWN : Z := {unk}.\n\n')

    def flag(b):
        return 'true' if b else 'false'
    d_srv = _own_filter(find_func(cls.body, '_on_server_search_request'))
    d_dst = _own_filter(find_func(cls.body, '_on_distributed_search_request'))
    d_leg = _own_filter(leg)
    s_srv = _own_filter(find_func(scls.body, '_on_server_search_request'))
    s_dst = _own_filter(find_func(scls.body, '_on_distributed_search_request'))
    s_leg = _own_filter(find_func(scls.body, '_on_distributed_server_search_request'))
    qr = _stmts(find_func(scls.body, '_query_shares_and_reply'))
    gate = 'if self._settings.users.is_blocked(username, BlockingFlag.SEARCHES): return'
    if qr[:1] != ['if not self._session: return'] or not any(x.startswith('visible, locked = self._shares_manager.query(') for x in qr):
        raise Refuse(f'_query_shares_and_reply shape: {qr[:3]}')
    qi = next(i for i, x in enumerate(qr) if x.startswith('visible, locked = self._shares_manager.query('))
    out.append('(* _query_shares_and_reply returns before the query for a user blocked for searches (forwarding does not look at it) *)\n')
    out.append(f'Definition answer_blocked_gate : bool := {"true" if gate in qr[:qi] else "false"}.\n\n')
    out.append('(* does the handler return early for searches of the logged-in user? (distributed.py = forwarding, search/manager.py = answering) *)\n')
    for nm, v in (('fwd_server_own_filtered', d_srv), ('fwd_dist_own_filtered', d_dst), ('fwd_legacy_own_filtered', d_leg),
                  ('ans_server_own_filtered', s_srv), ('ans_dist_own_filtered', s_dst), ('ans_legacy_own_filtered', s_leg)):
        out.append(f'Definition {nm} : bool := {flag(v)}.\n')
    return {'DistGen.v': ''.join(out)}


if __name__ == '__main__':
    import sys
    if len(sys.argv) > 1 and sys.argv[1] == '--fingerprints':
        import json
        print(json.dumps(current_fingerprints(Path('/repo/src')), indent=1))
        sys.exit(0)
    print(translate(Path(sys.argv[1] if len(sys.argv) > 1 else '/repo/src'))['DistGen.v'])
