"""T3: distributed.py -> gen/DistGen.v  (fail-closed; every accepted shape is matched explicitly).

Generated definitions
  POTENTIAL_PARENTS_CACHE_SIZE, DEFAULT_PARENT_MIN_SPEED, DEFAULT_PARENT_SPEED_RATIO   (constants.py)
  initial_max_children, initial_accept_children            (DistributedNetwork.__init__)
  calculate_max_children  upload_speed parent_speed_ratio   (_calculate_max_children; the float
        expression int(speed / ((ratio / 10) * 1024)) is turned into an exact integer quotient
        num/den by rational-expression normalisation; equal to the float result for the value
        ranges the harness checks, see checks/c13.py `float_agreement`)
  child_limits  speed parent_min_speed parent_speed_ratio   (the if/else of _on_get_user_stats:
        threshold comparison as written in the source, accept flag, max children)
  check_new_child  in_potential_parents accept n_children max_children  (_check_if_new_child:
        guards in source order with the comparison operator of the source)
  advertised  username has_parent parent_root parent_level    (_get_advertised_branch_values)
  take_as_parent  has_parent is_child                      (_check_if_new_parent: condition for _set_parent, else disconnect)
  parent_update_tells_server : bool                        (else-branches of the two branch handlers)
  legacy_code_ok code                                      (distributed code test of the legacy carrier)
  server_search_own_filtered / dist_search_own_filtered / legacy_search_own_filtered : bool
        whether the handler (in distributed.py AND search/manager.py) returns early when the
        searching user is the logged-in user
"""
import ast
from pathlib import Path
from .pyexpr import Refuse, refuse, find_class, find_func, int_const, HEADER, CMPOPS


def _strip(body):
    """drop docstrings and logger calls"""
    out = []
    for s in body:
        if isinstance(s, ast.Expr) and isinstance(s.value, ast.Constant) and isinstance(s.value.value, str):
            continue
        if (isinstance(s, ast.Expr) and isinstance(s.value, ast.Call) and isinstance(s.value.func, ast.Attribute)
                and isinstance(s.value.func.value, ast.Name) and s.value.func.value.id == 'logger'):
            continue
        out.append(s)
    return out


def _src(n):
    return ast.unparse(n)


# ---------------------------------------------------------------- rational expressions (float-free)
def _rat(e, env):
    """expression over names/ints with * and true division -> (num_text, den_text)"""
    if isinstance(e, ast.Constant) and isinstance(e.value, int) and not isinstance(e.value, bool):
        if e.value <= 0:
            refuse(e, 'non-positive literal in rational expression')
        return (str(e.value), '1')
    if isinstance(e, ast.Name):
        if e.id in env:
            return env[e.id]
        refuse(e, 'unknown name')
    if isinstance(e, ast.BinOp) and isinstance(e.op, ast.Div):
        an, ad = _rat(e.left, env)
        bn, bd = _rat(e.right, env)
        return (f'({an} * {bd})', f'({ad} * {bn})')
    if isinstance(e, ast.BinOp) and isinstance(e.op, ast.Mult):
        an, ad = _rat(e.left, env)
        bn, bd = _rat(e.right, env)
        return (f'({an} * {bn})', f'({ad} * {bd})')
    refuse(e, 'rational expression')


def tr_calculate_max_children(fn):
    if [a.arg for a in fn.args.args] != ['self', 'upload_speed', 'parent_speed_ratio'] or isinstance(fn, ast.AsyncFunctionDef):
        raise Refuse('_calculate_max_children signature')
    env = {'upload_speed': ('upload_speed', '1'), 'parent_speed_ratio': ('parent_speed_ratio', '1')}
    body = _strip(fn.body)
    for s in body[:-1]:
        if not (isinstance(s, ast.Assign) and len(s.targets) == 1 and isinstance(s.targets[0], ast.Name)):
            refuse(s, '_calculate_max_children statement')
        env[s.targets[0].id] = _rat(s.value, env)
    r = body[-1]
    if not (isinstance(r, ast.Return) and isinstance(r.value, ast.Call) and isinstance(r.value.func, ast.Name)
            and r.value.func.id == 'int' and len(r.value.args) == 1 and not r.value.keywords):
        refuse(r, '_calculate_max_children must end with `return int(<expr>)`')
    num, den = _rat(r.value.args[0], env)
    return ('(* int(num/den) for num >= 0, den > 0: truncation = floor *)\n'
            'Definition calculate_max_children (upload_speed parent_speed_ratio : Z) : Z :=\n'
            f' Z.div {num} {den}.\n')


# ---------------------------------------------------------------- integer expressions with locals
def _zexpr(e, env):
    if isinstance(e, ast.Constant) and isinstance(e.value, int) and not isinstance(e.value, bool):
        return f'({e.value})' if e.value < 0 else str(e.value)
    if isinstance(e, ast.Name) and e.id in env:
        return env[e.id]
    if isinstance(e, ast.Attribute) and _src(e) in env:
        return env[_src(e)]
    if isinstance(e, ast.BinOp) and isinstance(e.op, (ast.Add, ast.Sub, ast.Mult)):
        op = {ast.Add: 'Z.add', ast.Sub: 'Z.sub', ast.Mult: 'Z.mul'}[type(e.op)]
        return f'({op} {_zexpr(e.left, env)} {_zexpr(e.right, env)})'
    refuse(e, 'integer expression')


def _zcmp(e, env):
    if not (isinstance(e, ast.Compare) and len(e.ops) == 1):
        refuse(e, 'comparison')
    pat = CMPOPS.get(type(e.ops[0]))
    if pat is None:
        refuse(e, 'comparison operator')
    return '(' + pat.format(a=_zexpr(e.left, env), b=_zexpr(e.comparators[0], env)) + ')'


def tr_child_limits(fn):
    """_on_get_user_stats: the block
         if <session and own name>:
            speed = message.user_stats.avg_speed
            <defaulting of parent_min_speed / parent_speed_ratio>
            if speed <cmp> parent_min_speed * 1024: accept=False; max=0
            else: accept=True; max=self._calculate_max_children(speed, parent_speed_ratio)
            <send AcceptChildren(self._accept_children)>"""
    body = _strip(fn.body)
    if len(body) != 1 or not isinstance(body[0], ast.If) or body[0].orelse:
        raise Refuse('_on_get_user_stats: expected one guarded block')
    if _src(body[0].test) != 'self._session and message.username == self._session.user.name':
        raise Refuse('_on_get_user_stats guard changed: ' + _src(body[0].test))
    blk = _strip(body[0].body)
    if len(blk) != 5:
        raise Refuse(f'_on_get_user_stats block has {len(blk)} statements, expected 5')
    if _src(blk[0]) != 'speed = message.user_stats.avg_speed':
        raise Refuse('_on_get_user_stats: speed source changed')
    for st, var, const in ((blk[1], 'parent_min_speed', 'DEFAULT_PARENT_MIN_SPEED'), (blk[2], 'parent_speed_ratio', 'DEFAULT_PARENT_SPEED_RATIO')):
        want = (f'if self.{var} is None:\n    {var} = {const}\nelse:\n    {var} = self.{var}')
        got = ast.unparse(ast.If(test=st.test, body=_strip(st.body), orelse=_strip(st.orelse))) if isinstance(st, ast.If) else ''
        if got != want:
            raise Refuse(f'_on_get_user_stats: defaulting of {var} changed: {got}')
    dec = blk[3]
    if not isinstance(dec, ast.If):
        raise Refuse('_on_get_user_stats: decision is not an if')
    env = {'speed': 'speed', 'parent_min_speed': 'parent_min_speed', 'parent_speed_ratio': 'parent_speed_ratio'}
    test = _zcmp(dec.test, env)

    def branch(stmts):
        stmts = _strip(stmts)
        if len(stmts) != 2:
            raise Refuse('_on_get_user_stats: branch must assign accept and max')
        a, m = stmts
        if not (isinstance(a, ast.Assign) and _src(a.targets[0]) == 'self._accept_children' and isinstance(a.value, ast.Constant)
                and isinstance(a.value.value, bool)):
            refuse(a, 'accept assignment')
        if not (isinstance(m, ast.Assign) and _src(m.targets[0]) == 'self._max_children'):
            refuse(m, 'max assignment')
        if _src(m.value) == 'self._calculate_max_children(speed, parent_speed_ratio)':
            mx = '(calculate_max_children speed parent_speed_ratio)'
        else:
            mx = _zexpr(m.value, env)
        return 'true' if a.value.value else 'false', mx
    a1, m1 = branch(dec.body)
    a2, m2 = branch(dec.orelse)
    snd = blk[4]
    if ' '.join(_src(snd).split()) != 'await self._network.send_server_messages(AcceptChildren.Request(self._accept_children))':
        raise Refuse('_on_get_user_stats: AcceptChildren send changed: ' + _src(snd))
    return ('(* (below threshold?, accept, max children) *)\n'
            'Definition child_limits (speed parent_min_speed parent_speed_ratio : Z) : bool * bool * Z :=\n'
            f' if {test} then (true, {a1}, {m1}) else (false, {a2}, {m2}).\n')


def tr_check_new_child(fn):
    body = _strip(fn.body)
    if not body or _src(body[-1]) != 'await self._add_child(peer)':
        raise Refuse('_check_if_new_child must end with `await self._add_child(peer)`')
    env = {'len(self.children)': 'n_children', 'self._max_children': 'max_children'}
    guards = []
    for g in body[:-1]:
        if not isinstance(g, ast.If) or g.orelse:
            refuse(g, '_check_if_new_child guard')
        gb = _strip(g.body)
        if not gb or not (isinstance(gb[-1], ast.Return) and gb[-1].value is None):
            refuse(g, 'guard must end with return')
        if len(gb) == 1:
            verdict = 'CV_ignore'
        elif len(gb) == 2 and _src(gb[0]) == 'await peer.connection.disconnect(CloseReason.REQUESTED)':
            verdict = 'CV_reject'
        else:
            refuse(g, 'guard body')
        t = g.test
        if _src(t) == 'peer.username in self.potential_parents':
            cond = 'in_potential_parents'
        elif _src(t) == 'peer.username not in self.potential_parents':
            cond = '(negb in_potential_parents)'
        elif _src(t) == 'not self._accept_children':
            cond = '(negb accept_children)'
        elif _src(t) == 'self._accept_children':
            cond = 'accept_children'
        elif isinstance(t, ast.Compare):
            def ze(x):
                if isinstance(x, ast.Call) and _src(x) == 'len(self.children)':
                    return 'n_children'
                if _src(x) == 'self._max_children':
                    return 'max_children'
                return _zexpr(x, {})
            if len(t.ops) != 1 or type(t.ops[0]) not in CMPOPS:
                refuse(t, 'guard comparison')
            cond = '(' + CMPOPS[type(t.ops[0])].format(a=ze(t.left), b=ze(t.comparators[0])) + ')'
        else:
            refuse(t, 'guard test')
        guards.append((cond, verdict))
    txt = 'CV_add'
    for cond, verdict in reversed(guards):
        txt = f'if {cond} then {verdict} else\n {txt}'
    return ('Inductive child_verdict := CV_ignore | CV_reject | CV_add.\n'
            'Definition check_new_child (in_potential_parents accept_children : bool) (n_children max_children : Z) : child_verdict :=\n'
            f' {txt}.\n')


def tr_add_child(fn):
    """_add_child: append, then level always, root only when level != 0 (shape check only)."""
    body = _strip(fn.body)
    want = ['if not peer.connection:\n    return', 'self.children.append(peer)', 'root, level = self._get_advertised_branch_values()',
            'await peer.connection.send_message(DistributedBranchLevel.Request(level))',
            'if level != 0:\n    await peer.connection.send_message(DistributedBranchRoot.Request(root))']
    # repaired shape (F28): the values are read again before each message
    want2 = ['if not peer.connection:\n    return', 'self.children.append(peer)', '_, level = self._get_advertised_branch_values()',
             'await peer.connection.send_message(DistributedBranchLevel.Request(level))',
             'root, level = self._get_advertised_branch_values()',
             'if level != 0:\n    await peer.connection.send_message(DistributedBranchRoot.Request(root))']
    got = [_src(s) for s in body]
    if got not in (want, want2):
        raise Refuse(f'_add_child changed: {got}')
    return got == want2


def tr_advertised(fn):
    body = _strip(fn.body)
    if len(body) != 3 or _src(body[0]) != 'username = self._session.user.name':
        raise Refuse('_get_advertised_branch_values shape')
    env_n = {'username': 'username', 'self.parent.branch_root': 'parent_root'}
    env_z = {'self.parent.branch_level': 'parent_level'}

    def ret(r):
        if not (isinstance(r, ast.Return) and isinstance(r.value, ast.Tuple) and len(r.value.elts) == 2):
            refuse(r, 'return (root, level)')
        a, b = r.value.elts
        if _src(a) not in env_n:
            refuse(a, 'root expression')
        return f'({env_n[_src(a)]}, {_zexpr(b, env_z)})'

    def blk(stmts):
        stmts = _strip(stmts)
        if len(stmts) == 1 and isinstance(stmts[0], ast.Return):
            return ret(stmts[0])
        if len(stmts) == 1 and isinstance(stmts[0], ast.If) and stmts[0].orelse:
            i = stmts[0]
            t = i.test
            if not (isinstance(t, ast.Compare) and len(t.ops) == 1 and isinstance(t.ops[0], (ast.Eq, ast.NotEq))
                    and _src(t.left) in env_n and _src(t.comparators[0]) in env_n):
                refuse(t, 'name comparison')
            c = f'Nat.eqb {env_n[_src(t.left)]} {env_n[_src(t.comparators[0])]}'
            if isinstance(t.ops[0], ast.NotEq):
                c = f'negb ({c})'
            return f'(if {c} then {blk(i.body)} else {blk(i.orelse)})'
        raise Refuse('_get_advertised_branch_values block: ' + '; '.join(_src(s) for s in stmts))
    top = body[1]
    if not (isinstance(top, ast.If) and _src(top.test) == 'self.parent' and not top.orelse):
        raise Refuse('_get_advertised_branch_values: expected `if self.parent:`')
    return ('(* (root, level) advertised to the server and the children *)\n'
            'Definition advertised (username : nat) (has_parent : bool) (parent_root : nat) (parent_level : Z) : nat * Z :=\n'
            f' if has_parent then {blk(top.body)} else {ret(body[2])}.\n')



def tr_take_as_parent(fn):
    """_check_if_new_parent: `if <complete>: if <cond>: await self._set_parent(peer) else: await peer.connection.disconnect(...)`;
    <cond> over `not self.parent` and `peer not in self.children`."""
    body = _strip(fn.body)
    if len(body) != 1 or not isinstance(body[0], ast.If) or body[0].orelse:
        raise Refuse('_check_if_new_parent shape')
    if _src(body[0].test) != 'peer.branch_level is not None and peer.branch_root is not None':
        raise Refuse('_check_if_new_parent: completeness test changed: ' + _src(body[0].test))
    inner = _strip(body[0].body)
    if len(inner) != 1 or not isinstance(inner[0], ast.If):
        raise Refuse('_check_if_new_parent inner shape')
    i = inner[0]
    if [_src(x) for x in _strip(i.body)] != ['await self._set_parent(peer)'] or \
            [_src(x) for x in _strip(i.orelse)] != ['await peer.connection.disconnect(reason=CloseReason.REQUESTED)']:
        raise Refuse('_check_if_new_parent branches changed')

    def cond(t):
        if isinstance(t, ast.BoolOp):
            op = 'andb' if isinstance(t.op, ast.And) else 'orb'
            parts = [cond(v) for v in t.values]
            r = parts[-1]
            for q in reversed(parts[:-1]):
                r = f'({op} {q} {r})'
            return r
        m = {'not self.parent': '(negb has_parent)', 'self.parent is None': '(negb has_parent)', 'self.parent': 'has_parent',
             'peer not in self.children': '(negb is_child)', 'peer in self.children': 'is_child'}
        if _src(t) in m:
            return m[_src(t)]
        refuse(t, '_check_if_new_parent condition')
    return ('(* a peer with complete branch values becomes the parent (true) or is disconnected (false) *)\n'
            f'Definition take_as_parent (has_parent is_child : bool) : bool := {cond(i.test)}.\n')


def tr_parent_update(cls):
    """else-branch (message from the current parent) of the two branch handlers: children only, or server then children."""
    res = []
    for name in ('_on_distributed_branch_level', '_on_distributed_branch_root'):
        fn = find_func(cls.body, name)
        last = _strip(fn.body)[-1]
        if not (isinstance(last, ast.If) and _src(last.test) == 'peer != self.parent'
                and [_src(x) for x in _strip(last.body)] == ['await self._check_if_new_parent(peer)']):
            raise Refuse(f'{name}: dispatch on `peer != self.parent` changed')
        got = [_src(x) for x in _strip(last.orelse)]
        if got == ['await self._notify_children_of_branch_values()']:
            res.append(False)
        elif got == ['await self._notify_server_of_parent()', 'await self._notify_children_of_branch_values()']:
            res.append(True)
        else:
            raise Refuse(f'{name}: handling of updates from the parent changed: {got}')
    if res[0] != res[1]:
        raise Refuse('branch level and branch root handlers treat updates of the parent differently')
    return ('(* an update from the current parent is advertised to the server (then the children), or to the children only *)\n'
            f'Definition parent_update_tells_server : bool := {"true" if res[0] else "false"}.\n')


# ---------------------------------------------------------------- effect lists of the procedural handlers
class _Clean(ast.NodeTransformer):
    """drops logging calls and docstrings at every nesting level"""

    def visit_Expr(self, node):
        v = node.value
        if isinstance(v, ast.Constant) and isinstance(v.value, str):
            return None
        if (isinstance(v, ast.Call) and isinstance(v.func, ast.Attribute) and isinstance(v.func.value, ast.Name)
                and v.func.value.id in ('logger', 'adapter')):
            return None
        return node


def _clean_stmts(nodes):
    import copy
    body = [_Clean().visit(copy.deepcopy(x)) for x in nodes]
    return [' '.join(_src(x).split()) for x in body if x is not None]


def _stmts(fn):
    return _clean_stmts(fn.body)


CLOSE_OTHERS = [
    'distributed_connections = [dpeer.connection for dpeer in self.distributed_peers if dpeer in [self.parent] + self.children]',
    'disconnect_tasks = []',
    'for peer_connection in self._network.peer_connections: if peer_connection.connection_type == PeerConnectionType.DISTRIBUTED: '
    'if peer_connection not in distributed_connections: disconnect_tasks.append(peer_connection.disconnect(reason=CloseReason.REQUESTED))',
    'await asyncio.gather(*disconnect_tasks, return_exceptions=True)',
]

EFFECT_ATOMS = {
    'self.parent = peer': 'E_set_parent_peer',
    'self.parent = None': 'E_set_parent_none',
    'await asyncio.gather(*self._cancel_potential_parent_tasks(), return_exceptions=True)': 'E_await_cancel_tasks',
    'await self._notify_server_of_parent()': 'E_notify_server',
    'await self._notify_children_of_branch_values()': 'E_notify_children',
    'if not self._session: return': 'E_return_if_no_session',
    'username = self._session.user.name': 'E_read_username',
    'self._session = event.session': 'E_set_session',
    'self._session = None': 'E_clear_session',
    'if self.parent and peer == self.parent: await self._unset_parent()': 'E_unset_if_parent',
    'if peer in self.children: self._remove_child(peer)': 'E_remove_if_child',
    'self.distributed_peers.remove(peer)': 'E_remove_peer',
    'await self._disconnect_children()': 'E_disconnect_children',
    'await self._disconnect_parent()': 'E_disconnect_parent',
    'self.children.remove(peer)': 'E_children_remove',
}
ALL_EFFECTS = sorted(set(EFFECT_ATOMS.values()) | {'E_close_other_connections', 'E_tell_children_level_root'})


def effect_list(name, stmts):
    out = []
    i = 0
    while i < len(stmts):
        if stmts[i:i + len(CLOSE_OTHERS)] == CLOSE_OTHERS:
            out.append('E_close_other_connections')
            i += len(CLOSE_OTHERS)
            continue
        a = EFFECT_ATOMS.get(stmts[i])
        if a is None:
            raise Refuse(f'{name}: statement outside the accepted effect vocabulary: {stmts[i]!r}')
        out.append(a)
        i += 1
    return out


def tr_effects(cls):
    res = {}
    res['set_parent_effects'] = effect_list('_set_parent', _stmts(find_func(cls.body, '_set_parent')))
    # _unset_parent: last statement = level/root to the children
    un = _stmts(find_func(cls.body, '_unset_parent'))
    want_last = 'await self.send_messages_to_children(DistributedBranchLevel.Request({L}), DistributedBranchRoot.Request(username))'
    import re
    m = re.fullmatch(re.escape(want_last).replace(r'\{L\}', r'(\d+)'), un[-1]) if un else None
    if not m:
        raise Refuse(f'_unset_parent: announcement to the children changed: {un[-1:]!r}')
    # the early return is written as an if with a logger call inside: _strip removed the logger call
    un = ['if not self._session: return' if x.startswith('if not self._session:') and x.endswith('return') else x for x in un[:-1]]
    res['unset_parent_effects'] = effect_list('_unset_parent', un) + ['E_tell_children_level_root']
    unset_level = int(m.group(1))
    res['session_init_effects'] = effect_list('_on_session_initialized', _stmts(find_func(cls.body, '_on_session_initialized')))
    res['session_destroyed_effects'] = effect_list('_on_session_destroyed', _stmts(find_func(cls.body, '_on_session_destroyed')))
    res['reset_effects'] = effect_list('reset', _stmts(find_func(cls.body, 'reset')))
    res['remove_child_effects'] = effect_list('_remove_child', _stmts(find_func(cls.body, '_remove_child')))
    # _on_state_changed: the CLOSED branch for a registered distributed peer
    sc = find_func(cls.body, '_on_state_changed')
    closed_if = None
    for n in ast.walk(sc):
        if isinstance(n, ast.If) and _src(n.test) == 'event.state == ConnectionState.CLOSED':
            closed_if = n
    if closed_if is None or closed_if.orelse:
        raise Refuse('_on_state_changed: CLOSED branch not found')
    cb = _clean_stmts(closed_if.body)
    if cb[:2] != ['peer = self.get_distributed_peer(connection)', 'if not peer: return']:
        raise Refuse(f'_on_state_changed: peer lookup changed: {cb[:2]}')
    res['closed_handler_effects'] = effect_list('_on_state_changed(CLOSED)', cb[2:])

    out = ['(* effect lists of the procedural handlers, in source order (await points are the E_await_* / E_notify_* atoms) *)\n',
           'Inductive eff := ' + ' | '.join(ALL_EFFECTS) + '.\n']
    for k, v in res.items():
        out.append(f'Definition {k} : list eff := [{"; ".join(v)}].\n')
    out.append(f'Definition unset_children_level : Z := {unset_level}.\n')
    si = res['session_init_effects']
    if si not in (['E_set_session', 'E_notify_server'], ['E_set_session', 'E_notify_server', 'E_notify_children']):
        raise Refuse(f'_on_session_initialized: {si}')
    out.append('(* the children are re-advertised when a session starts (repair of F27) *)\n')
    out.append(f'Definition session_init_readvertises : bool := {"true" if len(si) == 3 else "false"}.\n')

    # _notify_server_of_parent: order of the three messages, the search flag
    ns = _stmts(find_func(cls.body, '_notify_server_of_parent'))
    want = ['root, level = self._get_advertised_branch_values()', None,
            'if not self._settings.debug.search_for_parent: search_for_parent = False', None]
    if len(ns) != 4 or ns[0] != want[0] or ns[2] != want[2]:
        raise Refuse(f'_notify_server_of_parent shape: {ns}')
    flag = {'search_for_parent = False if self.parent else True': '(negb has_parent)',
            'search_for_parent = not self.parent': '(negb has_parent)',
            'search_for_parent = True if self.parent else False': 'has_parent',
            'search_for_parent = True': 'true', 'search_for_parent = False': 'false'}.get(ns[1])
    if flag is None:
        raise Refuse(f'_notify_server_of_parent: search flag expression: {ns[1]!r}')
    m = re.fullmatch(r'await self\._network\.send_server_messages\(\*\[(.*)\]\)', ns[3])
    if not m:
        raise Refuse(f'_notify_server_of_parent: send changed: {ns[3]!r}')
    fields = {'BranchLevel.Request(level)': 'AF_level', 'BranchRoot.Request(root)': 'AF_root',
              'ToggleParentSearch.Request(search_for_parent)': 'AF_search'}
    order = []
    for part in [x.strip() for x in m.group(1).split(', ')]:
        if part not in fields:
            raise Refuse(f'_notify_server_of_parent: message {part!r}')
        order.append(fields[part])
    out.append('Inductive advert_field := AF_level | AF_root | AF_search.\n')
    out.append(f'Definition server_advert_order : list advert_field := [{"; ".join(order)}].\n')
    out.append(f'Definition parent_search_flag (has_parent : bool) : bool := {flag}.\n')

    # _notify_children_of_branch_values
    nc = _stmts(find_func(cls.body, '_notify_children_of_branch_values'))
    if nc != ['root, level = self._get_advertised_branch_values()',
              'await self.send_messages_to_children(DistributedBranchLevel.Request(level), DistributedBranchRoot.Request(root))']:
        raise Refuse(f'_notify_children_of_branch_values changed: {nc}')

    # send_messages_to_children: independent queued sends on every current child, or one awaited write after the other
    sm = _stmts(find_func(cls.body, 'send_messages_to_children'))
    if sm == ['for child in self.children: child.connection.queue_messages(*messages)']:
        indep = True
    elif sm in (['for child in self.children: for message in messages: await child.connection.send_message(message)'],
                ['for child in self.children: await child.connection.send_message(*messages)']):
        indep = False
    else:
        raise Refuse(f'send_messages_to_children changed: {sm}')
    out.append('(* every current child gets its own queued send tasks (true), or the children are written to one after the other (false) *)\n')
    out.append(f'Definition children_send_independent : bool := {"true" if indep else "false"}.\n')
    return ''.join(out)


# ---------------------------------------------------------------- fingerprints of the remaining hand-modelled functions
import hashlib

FINGERPRINTS = {
    'distributed.py:_cancel_potential_parent_tasks': 'a1592c1e9dd66873f5fd',
    'distributed.py:_disconnect_child': '3a1f54432ea8a02586ba',
    'distributed.py:_disconnect_children': 'f4936df2646b24fc4aed',
    'distributed.py:_disconnect_parent': 'ba566187b2e9b97f1e96',
    'distributed.py:_has_parent_speed_values': '9fd280bd7b4889d29d0b',
    'distributed.py:_on_distributed_branch_level': '4af849639b6563abf529',
    'distributed.py:_on_distributed_branch_root': '3b8d553cda6dc30aee7d',
    'distributed.py:_on_distributed_child_depth': 'e9338311a838f952fc02',
    'distributed.py:_on_distributed_search_request': '7317cbb83c0da127ec64',
    'distributed.py:_on_distributed_server_search_request': 'c47100eb79d3d4445b79',
    'distributed.py:_on_message_received': '22f7514cf11c5cd61fc1',
    'distributed.py:_on_parent_min_speed': 'd053bd0ab03b1f9d7cf6',
    'distributed.py:_on_parent_speed_ratio': '89b844dbc167d22c431f',
    'distributed.py:_on_peer_connection_initialized': 'b37e9843c82b0302d78a',
    'distributed.py:_on_potential_parents': '2d6e321bb41d2f8f3c4e',
    'distributed.py:_on_server_search_request': 'f0b95c07de4be9864757',
    'distributed.py:_on_state_changed': '10acfc1997cc32457386',
    'distributed.py:_potential_parent_task_callback': '2dba9a4c09ceec24007b',
    'distributed.py:_request_user_stats': '94b145f31140481497d6',
    'distributed.py:_reset_server_values': '2e62cc22fb058f98adef',
    'distributed.py:get_distributed_peer': '9b053b033642175427aa',
    'network/connection.py:_cancel_queued_messages': '1769b461cf855c4c9c1a',
    'network/connection.py:queue_message': '7c1bb7b8e056d2f02443',
    'network/connection.py:queue_messages': '97485198e55c487f0e93',
    'search/manager.py:_on_distributed_search_request': 'ed64defd6e310e1bd0b1',
    'search/manager.py:_on_distributed_server_search_request': 'b922cfe0f4d3cc4ec606',
    'search/manager.py:_on_server_search_request': '511cc26766516fa11097',
    'search/manager.py:_query_shares_and_reply': '06364f977020419b1ec0',
}     # regenerate with:  python -m translate.tr_dist --fingerprints


def fingerprint(fn) -> str:
    return hashlib.sha256('\n'.join(_stmts(fn)).encode()).hexdigest()[:20]


PINNED = {
    'distributed.py': ['get_distributed_peer', '_reset_server_values', '_disconnect_children', '_disconnect_child', '_disconnect_parent',
                       '_on_parent_min_speed', '_on_parent_speed_ratio', '_on_potential_parents', '_on_server_search_request',
                       '_on_distributed_branch_level', '_on_distributed_branch_root', '_on_distributed_child_depth',
                       '_on_distributed_search_request', '_on_distributed_server_search_request', '_request_user_stats',
                       '_has_parent_speed_values', '_on_peer_connection_initialized', '_on_message_received', '_on_state_changed',
                       '_cancel_potential_parent_tasks', '_potential_parent_task_callback'],
    'search/manager.py': ['_query_shares_and_reply', '_on_distributed_search_request', '_on_distributed_server_search_request',
                          '_on_server_search_request'],
    'network/connection.py': ['queue_message', 'queue_messages', '_cancel_queued_messages'],
}


def current_fingerprints(src: Path) -> dict:
    res = {}
    for rel, names in PINNED.items():
        tree = ast.parse((src / 'aioslsk' / rel).read_text())
        cname = {'distributed.py': 'DistributedNetwork', 'search/manager.py': 'SearchManager', 'network/connection.py': 'DataConnection'}[rel]
        cls = find_class(tree, cname)
        for n in names:
            res[f'{rel}:{n}'] = fingerprint(find_func(cls.body, n))
    return res


def check_fingerprints(src: Path):
    cur = current_fingerprints(src)
    bad = [k for k in cur if FINGERPRINTS.get(k) != cur[k]]
    if bad:
        raise Refuse('hand-modelled functions changed since the model was written (fingerprint): ' + ', '.join(sorted(bad)))


# ---------------------------------------------------------------- helpers the modelled behaviour relies on
# (file, path) -> normalised-AST fingerprint.  path = 'Class.method', 'Class' (whole class body) or 'function'.
HELPER_PINS = {
    'events.py': ['on_message', 'build_message_map', 'EventBus.register', 'EventBus.emit', 'EventBus._get_listeners_for_event',
                  'EventBus._remove_callback', 'ConnectionStateChangedEvent', 'PeerInitializedEvent', 'MessageReceivedEvent',
                  'SessionInitializedEvent', 'SessionDestroyedEvent'],
    'distributed.py': ['DistributedPeer', 'DistributedNetwork.__init__', 'DistributedNetwork.register_listeners'],
    'base_manager.py': ['BaseManager'],
    'session.py': ['Session'],
    'utils.py': ['ticket_generator'],
    'network/network.py': ['Network.send_server_messages', 'Network.send_peer_messages', 'Network.get_peer_connection',
                           'Network.get_peer_connections', 'Network.get_active_peer_connections', 'Network.remove_peer_connection',
                           'Network.on_state_changed', 'Network._on_peer_connection_state_changed', 'Network.on_peer_accepted',
                           'Network.on_message_received', 'Network._finalize_peer_connection', 'Network._make_direct_connection',
                           'Network.create_peer_connection', 'Network._create_peer_connection_fallback'],
    'network/connection.py': ['Connection.set_state', 'DataConnection.disconnect', 'DataConnection.send_message', 'DataConnection._send',
                              'DataConnection._message_reader_loop', 'DataConnection._perform_message_callback',
                              'PeerConnection.set_connection_state', 'PeerConnection.deserialize_message', 'ListeningConnection.accept',
                              'PeerConnectionType', 'ConnectionState', 'CloseReason', 'PeerConnectionState'],
    'protocol/messages.py': ['BranchLevel', 'BranchRoot', 'ToggleParentSearch', 'AcceptChildren', 'PotentialParents', 'ParentMinSpeed',
                             'ParentSpeedRatio', 'GetUserStats', 'ResetDistributed', 'ServerSearchRequest', 'DistributedBranchLevel',
                             'DistributedBranchRoot', 'DistributedSearchRequest', 'DistributedServerSearchRequest', 'DistributedChildDepth',
                             'PeerSearchReply', 'PeerInit', 'DistributedMessage'],
    'protocol/primitives.py': ['PotentialParent', 'UserStats'],
    'settings.py': ['UsersSettings', 'DebugSettings', 'SearchReceiveSettings', 'translate_blocked_users'],
    'user/model.py': ['BlockingFlag'],
    'shares/utils.py': ['convert_items_to_file_data'],
    'search/manager.py': ['SearchManager.register_listeners', 'SearchManager._on_message_received', 'SearchManager._search_reply_task_callback'],
}
HELPER_FINGERPRINTS = {
    'base_manager.py:BaseManager': '8b32ea76ba84689880df',
    'distributed.py:DistributedNetwork.__init__': '9c15816a0292e5467b15',
    'distributed.py:DistributedNetwork.register_listeners': '507524a387992325a4e4',
    'distributed.py:DistributedPeer': '4ab0e59a8568964ec02e',
    'events.py:ConnectionStateChangedEvent': 'e86c0eb2ccda915abb1f',
    'events.py:EventBus._get_listeners_for_event': '063b743566f6e0a50e7e',
    'events.py:EventBus._remove_callback': 'd99e3b06cdd91c2e51bb',
    'events.py:EventBus.emit': '57d56e297a3567d646e9',
    'events.py:EventBus.register': '7e1ec9431145a02b1106',
    'events.py:MessageReceivedEvent': '058b165da11f056b84f9',
    'events.py:PeerInitializedEvent': 'ab654e33e2f13d71f974',
    'events.py:SessionDestroyedEvent': '970644fa805a7ad18531',
    'events.py:SessionInitializedEvent': '8400f615bc924ead3de9',
    'events.py:build_message_map': 'd307f18789ade5503e02',
    'events.py:on_message': 'daba6650c9d0139a60c1',
    'network/connection.py:CloseReason': 'b5633b735a1883b1513a',
    'network/connection.py:Connection.set_state': '8d4fe1c44cbf72d2ce9a',
    'network/connection.py:ConnectionState': '8ce201488633a95c698b',
    'network/connection.py:DataConnection._message_reader_loop': '424d25dc9c3c5216d466',
    'network/connection.py:DataConnection._perform_message_callback': '08e4531c27f8feb91cc7',
    'network/connection.py:DataConnection._send': '029e0d452f19d6835f3b',
    'network/connection.py:DataConnection.disconnect': 'de09aad79023dcc5d6c6',
    'network/connection.py:DataConnection.send_message': '36a705cf54e09a572384',
    'network/connection.py:ListeningConnection.accept': '15656d56fd6e494f884a',
    'network/connection.py:PeerConnection.deserialize_message': 'dce75f16e5922b79bac3',
    'network/connection.py:PeerConnection.set_connection_state': 'f9ec7bd676cef922085f',
    'network/connection.py:PeerConnectionState': '1616262b8212cad0f240',
    'network/connection.py:PeerConnectionType': '68657a7dfe3be466945f',
    'network/network.py:Network._create_peer_connection_fallback': '20f8ce39862f7be836b1',
    'network/network.py:Network._finalize_peer_connection': 'c4462a82909498041ac4',
    'network/network.py:Network._make_direct_connection': '79bb0242cb622c273c75',
    'network/network.py:Network._on_peer_connection_state_changed': 'ea547ce4131e93c56d5e',
    'network/network.py:Network.create_peer_connection': 'dc65b0198ae1b156fbe6',
    'network/network.py:Network.get_active_peer_connections': '5ab41da13523fecad45a',
    'network/network.py:Network.get_peer_connection': '501b733fa597575e6683',
    'network/network.py:Network.get_peer_connections': 'eada8a71a14ea041fcac',
    'network/network.py:Network.on_message_received': 'd7842987b0c3f85735cd',
    'network/network.py:Network.on_peer_accepted': '7b4fa90138dd6f6a1f28',
    'network/network.py:Network.on_state_changed': 'e7796d12eabb5d909bf4',
    'network/network.py:Network.remove_peer_connection': 'a245d65e9caca91b8bb3',
    'network/network.py:Network.send_peer_messages': '9cfea2bcbe04fb77fb2c',
    'network/network.py:Network.send_server_messages': '0d997361eda2cbeb3896',
    'protocol/messages.py:AcceptChildren': '25f0ddbf2eee676209de',
    'protocol/messages.py:BranchLevel': 'f8413f400ccd9c7aa992',
    'protocol/messages.py:BranchRoot': 'ed9d2a547bbbcb30da53',
    'protocol/messages.py:DistributedBranchLevel': '8a9b044727ef326a1d97',
    'protocol/messages.py:DistributedBranchRoot': 'dec6a56456213847182c',
    'protocol/messages.py:DistributedChildDepth': '41425ee9a884b8160b6f',
    'protocol/messages.py:DistributedMessage': 'efb0efe90fed08c76961',
    'protocol/messages.py:DistributedSearchRequest': 'f4cac477d7a0df737784',
    'protocol/messages.py:DistributedServerSearchRequest': 'e61e8685f5667d70d814',
    'protocol/messages.py:GetUserStats': 'cb7d272ef52e2a97d92a',
    'protocol/messages.py:ParentMinSpeed': '81ae0612d672fb1ca55a',
    'protocol/messages.py:ParentSpeedRatio': 'b5da023405ca5594b614',
    'protocol/messages.py:PeerInit': 'b1714afd426f4a2a9371',
    'protocol/messages.py:PeerSearchReply': 'ea5d9ef3ee0b665d4cd3',
    'protocol/messages.py:PotentialParents': '5968abc31687bfdd8fb2',
    'protocol/messages.py:ResetDistributed': '34b9f5608c98f76bcd91',
    'protocol/messages.py:ServerSearchRequest': '5ba4514c3908f3f37289',
    'protocol/messages.py:ToggleParentSearch': '049da40ac5c4450c1d11',
    'protocol/primitives.py:PotentialParent': 'e8f7ebf7c4953f506bd8',
    'protocol/primitives.py:UserStats': 'a7ad9208beaead5b97c6',
    'search/manager.py:SearchManager._on_message_received': 'f81c82176fdfe5de2e27',
    'search/manager.py:SearchManager._search_reply_task_callback': '80e97756f5055bff6a0f',
    'search/manager.py:SearchManager.register_listeners': 'b6c6d976ab6c8e52119d',
    'session.py:Session': 'ced34eddf756b132af5d',
    'settings.py:DebugSettings': '9f51df9ca7218f41ac6f',
    'settings.py:SearchReceiveSettings': '12fafd9dbcb05d7884f9',
    'settings.py:UsersSettings': '3a86d3d610cfcf44cc6a',
    'settings.py:translate_blocked_users': '18686ecd71db2676ab78',
    'shares/utils.py:convert_items_to_file_data': 'da95ca4a3239fb4164b6',
    'user/model.py:BlockingFlag': 'f56b0067904a82859f42',
    'utils.py:ticket_generator': '950e79455ec1276db827',
}   # regenerate with:  python -m translate.tr_dist --helper-fingerprints


def _node_fp(node) -> str:
    if isinstance(node, ast.ClassDef):
        import copy
        body = [_Clean().visit(copy.deepcopy(x)) for x in node.body]
        txt = [' '.join(_src(d).split()) for d in node.decorator_list] + [' '.join(_src(b).split()) for b in node.bases] + \
              [' '.join(_src(x).split()) for x in body if x is not None]
    else:
        txt = [' '.join(_src(d).split()) for d in node.decorator_list] + [_src(node.args)] + _stmts(node)
    return hashlib.sha256('\n'.join(txt).encode()).hexdigest()[:20]


def _find_path(tree, path):
    parts = path.split('.')
    body = tree.body
    node = None
    for i, name in enumerate(parts):
        node = next((n for n in body if isinstance(n, (ast.ClassDef, ast.FunctionDef, ast.AsyncFunctionDef)) and n.name == name), None)
        if node is None:
            raise Refuse(f'helper {path} not found')
        body = getattr(node, 'body', [])
    return node


def current_helper_fingerprints(src: Path) -> dict:
    res = {}
    for rel, paths in HELPER_PINS.items():
        tree = ast.parse((src / 'aioslsk' / rel).read_text())
        for pth in paths:
            res[f'{rel}:{pth}'] = _node_fp(_find_path(tree, pth))
    return res


def check_helper_fingerprints(src: Path):
    cur = current_helper_fingerprints(src)
    bad = [k for k in cur if HELPER_FINGERPRINTS.get(k) != cur[k]]
    if bad:
        raise Refuse('helper code the model relies on changed (fingerprint): ' + ', '.join(sorted(bad)))


def tr_helper_constants(src: Path) -> str:
    """values of helper enums / defaults the model and the harness actually use"""
    out = ['(* helper values the model relies on *)\n']
    st = ast.parse((src / 'aioslsk' / 'settings.py').read_text())
    dbg = find_class(st, 'DebugSettings')
    val = None
    for n in dbg.body:
        if isinstance(n, ast.AnnAssign) and isinstance(n.target, ast.Name) and n.target.id == 'search_for_parent' and isinstance(n.value, ast.Constant):
            val = n.value.value
    if not isinstance(val, bool):
        raise Refuse('DebugSettings.search_for_parent default')
    out.append(f'Definition search_for_parent_default : bool := {"true" if val else "false"}.\n')
    ct = ast.parse((src / 'aioslsk' / 'network' / 'connection.py').read_text())
    pct = find_class(ct, 'PeerConnectionType')
    vals = {n.targets[0].id: n.value.value for n in pct.body if isinstance(n, ast.Assign) and isinstance(n.value, ast.Constant)}
    if vals.get('DISTRIBUTED') != 'D' or len(set(vals.values())) != len(vals):
        raise Refuse(f'PeerConnectionType values: {vals}')
    um = ast.parse((src / 'aioslsk' / 'user' / 'model.py').read_text())
    bf = find_class(um, 'BlockingFlag')
    bvals = {n.targets[0].id: n.value.value for n in bf.body if isinstance(n, ast.Assign) and isinstance(n.value, ast.Constant)}
    s_ = bvals.get('SEARCHES')
    if not isinstance(s_, int) or s_ <= 0 or (s_ & (s_ - 1)) != 0 or list(bvals.values()).count(s_) != 1:
        raise Refuse(f'BlockingFlag.SEARCHES is not a distinct single bit: {bvals}')
    out.append(f'Definition BLOCKING_FLAG_SEARCHES : Z := {s_}.\n')
    # listener priorities: DistributedNetwork and SearchManager register with the default priority, in construction order
    ev = ast.parse((src / 'aioslsk' / 'events.py').read_text())
    reg = _find_path(ev, 'EventBus.register')
    d = reg.args.defaults
    if not (len(d) == 1 and isinstance(d[0], ast.Constant) and isinstance(d[0].value, int)):
        raise Refuse('EventBus.register default priority')
    out.append(f'Definition DEFAULT_LISTENER_PRIORITY : Z := {d[0].value}.\n')
    return ''.join(out)

# ---------------------------------------------------------------- search carriers: own-name filters
def _own_filter(fn, user_expr='message.username') -> bool:
    """True iff the handler returns before doing anything when message.username is the session user."""
    for s in ast.walk(fn):
        if not isinstance(s, ast.If):
            continue
        test = s.test
        if isinstance(test, ast.BoolOp) and isinstance(test.op, ast.And) and len(test.values) == 2 and _src(test.values[0]) == 'self._session':
            test = test.values[1]      # `self._session and <user> == <own name>`
        if isinstance(test, ast.Compare) and len(test.ops) == 1 and isinstance(test.ops[0], ast.Eq):
            l, r = _src(test.left), _src(test.comparators[0])
            if {l, r} in ({user_expr, 'username'}, {user_expr, 'self._session.user.name'}):
                b = _strip(s.body)
                if b and isinstance(b[0], ast.Return):
                    return True
    return False


def translate(src: Path) -> dict:
    dpath = src / 'aioslsk' / 'distributed.py'
    tree = ast.parse(dpath.read_text())
    ctree = ast.parse((src / 'aioslsk' / 'constants.py').read_text())
    stree = ast.parse((src / 'aioslsk' / 'search' / 'manager.py').read_text())
    cls = find_class(tree, 'DistributedNetwork')
    scls = find_class(stree, 'SearchManager')

    out = [HEADER.format(src='src/aioslsk/distributed.py, constants.py, search/manager.py'), 'Import ListNotations.\n']
    cache = int_const(ctree.body, 'POTENTIAL_PARENTS_CACHE_SIZE')
    if not (1 <= cache < 5000):
        raise Refuse('POTENTIAL_PARENTS_CACHE_SIZE out of range')
    out.append(f'Definition POTENTIAL_PARENTS_CACHE_SIZE : nat := {cache}.\n')
    for c in ('DEFAULT_PARENT_MIN_SPEED', 'DEFAULT_PARENT_SPEED_RATIO'):
        out.append(f'Definition {c} : Z := {int_const(ctree.body, c)}.\n')

    # __init__: deque(maxlen=POTENTIAL_PARENTS_CACHE_SIZE), _max_children, _accept_children
    init = find_func(cls.body, '__init__')
    vals = {}
    for s in init.body:
        if isinstance(s, ast.AnnAssign) and isinstance(s.target, ast.Attribute) and s.value is not None:
            vals[s.target.attr] = s.value
    pp = vals.get('potential_parents')
    if pp is None or ' '.join(_src(pp).split()) != 'deque(maxlen=POTENTIAL_PARENTS_CACHE_SIZE)':
        raise Refuse('potential_parents is not deque(maxlen=POTENTIAL_PARENTS_CACHE_SIZE)')
    mc, ac = vals.get('_max_children'), vals.get('_accept_children')
    if not (isinstance(mc, ast.Constant) and isinstance(mc.value, int) and isinstance(ac, ast.Constant) and isinstance(ac.value, bool)):
        raise Refuse('initial _max_children/_accept_children')
    out.append(f'Definition initial_max_children : Z := {mc.value}.\n')
    out.append(f'Definition initial_accept_children : bool := {"true" if ac.value else "false"}.\n\n')

    out.append(tr_calculate_max_children(find_func(cls.body, '_calculate_max_children')) + '\n')
    out.append(tr_child_limits(find_func(cls.body, '_on_get_user_stats')) + '\n')
    out.append(tr_check_new_child(find_func(cls.body, '_check_if_new_child')) + '\n')
    reread = tr_add_child(find_func(cls.body, '_add_child'))
    out.append('(* _add_child reads the advertised values again before the root message (repair of F28) *)\n'
               f'Definition add_child_rereads_values : bool := {"true" if reread else "false"}.\n\n')
    out.append(tr_advertised(find_func(cls.body, '_get_advertised_branch_values')) + '\n')
    out.append(tr_take_as_parent(find_func(cls.body, '_check_if_new_parent')) + '\n')
    out.append(tr_parent_update(cls) + '\n')
    out.append(tr_effects(cls) + '\n')
    check_fingerprints(src)
    out.append(tr_helper_constants(src) + '\n')
    check_helper_fingerprints(src)

    # legacy carrier: code test
    leg = find_func(cls.body, '_on_distributed_server_search_request')
    lb = _strip(leg.body)
    if not (lb and isinstance(lb[0], ast.If) and _src(lb[0].test) == 'message.distributed_code != DistributedSearchRequest.Request.MESSAGE_ID'
            and isinstance(_strip(lb[0].body)[-1], ast.Return)):
        raise Refuse('_on_distributed_server_search_request: code test changed')
    mtree = ast.parse((src / 'aioslsk' / 'protocol' / 'messages.py').read_text())
    dsr = find_class(mtree, 'DistributedSearchRequest')
    req = find_class(ast.Module(body=dsr.body, type_ignores=[]), 'Request')
    mid = None
    for s in req.body:
        if isinstance(s, ast.AnnAssign) and isinstance(s.target, ast.Name) and s.target.id == 'MESSAGE_ID':
            v = s.value
            if isinstance(v, ast.Call) and len(v.args) == 1 and isinstance(v.args[0], ast.Constant):
                mid = v.args[0].value
    if not isinstance(mid, int):
        raise Refuse('DistributedSearchRequest.Request.MESSAGE_ID')
    out.append(f'Definition DIST_SEARCH_MESSAGE_ID : Z := {mid}.\n')
    out.append('Definition legacy_code_ok (code : Z) : bool := Z.eqb code DIST_SEARCH_MESSAGE_ID.\n')
    unk = None
    for lm in lb[1:]:
        if (isinstance(lm, ast.Assign) and isinstance(lm.value, ast.Call)
                and _src(lm.value.func) == 'DistributedSearchRequest.Request'):
            kws = {kw.arg: kw.value for kw in lm.value.keywords}
            if sorted(kws) != ['query', 'ticket', 'unknown', 'username'] or lm.value.args:
                raise Refuse('legacy carrier: fields of the rebuilt request changed')
            for f in ('username', 'ticket', 'query'):
                if _src(kws[f]) != f'message.{f}':
                    raise Refuse(f'legacy carrier: {f} is not copied from the message')
            if isinstance(kws['unknown'], ast.Constant):
                unk = kws['unknown'].value
    if not isinstance(unk, int):
        raise Refuse('legacy carrier: unknown= literal')
    out.append(f'Definition LEGACY_UNKNOWN : Z := {unk}.\n\n')

    def flag(b):
        return 'true' if b else 'false'
    d_srv = _own_filter(find_func(cls.body, '_on_server_search_request'))
    d_dst = _own_filter(find_func(cls.body, '_on_distributed_search_request'))
    d_leg = _own_filter(leg)
    s_srv = _own_filter(find_func(scls.body, '_on_server_search_request'))
    s_dst = _own_filter(find_func(scls.body, '_on_distributed_search_request'))
    s_leg = _own_filter(find_func(scls.body, '_on_distributed_server_search_request'))
    qr = _stmts(find_func(scls.body, '_query_shares_and_reply'))
    gate = 'if self._settings.users.is_blocked(username, BlockingFlag.SEARCHES): return'
    if qr[:1] != ['if not self._session: return'] or not any(x.startswith('visible, locked = self._shares_manager.query(') for x in qr):
        raise Refuse(f'_query_shares_and_reply shape: {qr[:3]}')
    qi = next(i for i, x in enumerate(qr) if x.startswith('visible, locked = self._shares_manager.query('))
    out.append('(* _query_shares_and_reply returns before the query for a user blocked for searches (forwarding does not look at it) *)\n')
    out.append(f'Definition answer_blocked_gate : bool := {"true" if gate in qr[:qi] else "false"}.\n\n')
    out.append('(* does the handler return early for searches of the logged-in user? (distributed.py = forwarding, search/manager.py = answering) *)\n')
    for nm, v in (('fwd_server_own_filtered', d_srv), ('fwd_dist_own_filtered', d_dst), ('fwd_legacy_own_filtered', d_leg),
                  ('ans_server_own_filtered', s_srv), ('ans_dist_own_filtered', s_dst), ('ans_legacy_own_filtered', s_leg)):
        out.append(f'Definition {nm} : bool := {flag(v)}.\n')
    return {'DistGen.v': ''.join(out)}


if __name__ == '__main__':
    import sys
    if len(sys.argv) > 1 and sys.argv[1] == '--helper-fingerprints':
        import json
        print(json.dumps(current_helper_fingerprints(Path('/repo/src')), indent=1))
        sys.exit(0)
    if len(sys.argv) > 1 and sys.argv[1] == '--fingerprints':
        import json
        print(json.dumps(current_fingerprints(Path('/repo/src')), indent=1))
        sys.exit(0)
    print(translate(Path(sys.argv[1] if len(sys.argv) > 1 else '/repo/src'))['DistGen.v'])
