"""T3: distributed.py -> gen/DistGen.v  (fail-closed; every accepted shape is matched explicitly).

Generated definitions
  POTENTIAL_PARENTS_CACHE_SIZE, DEFAULT_PARENT_MIN_SPEED, DEFAULT_PARENT_SPEED_RATIO   (constants.py)
  initial_max_children, initial_accept_children            (DistributedNetwork.__init__)
  calculate_max_children  upload_speed parent_speed_ratio   (_calculate_max_children; the float
        expression int(speed / ((ratio / 10) * 1024)) is turned into an exact integer quotient
        num/den by rational-expression normalisation; equal to the float result for the value
        ranges the harness checks, see checks/c13.py `float_agreement`)
  child_limits  speed parent_min_speed parent_speed_ratio   (the if/else of _on_get_user_stats:
        threshold comparison as written in the source, accept flag, max children)
  check_new_child  in_potential_parents accept n_children max_children  (_check_if_new_child:
        guards in source order with the comparison operator of the source)
  advertised  username has_parent parent_root parent_level    (_get_advertised_branch_values)
  take_as_parent  has_parent is_child                      (_check_if_new_parent: condition for _set_parent, else disconnect)
  parent_update_tells_server : bool                        (else-branches of the two branch handlers)
  legacy_code_ok code                                      (distributed code test of the legacy carrier)
  server_search_own_filtered / dist_search_own_filtered / legacy_search_own_filtered : bool
        whether the handler (in distributed.py AND search/manager.py) returns early when the
        searching user is the logged-in user
"""
import ast
from pathlib import Path
from .pyexpr import Refuse, refuse, find_class, find_func, int_const, HEADER, CMPOPS


def _strip(body):
    """drop docstrings and logger calls"""
    out = []
    for s in body:
        if isinstance(s, ast.Expr) and isinstance(s.value, ast.Constant) and isinstance(s.value.value, str):
            continue
        if (isinstance(s, ast.Expr) and isinstance(s.value, ast.Call) and isinstance(s.value.func, ast.Attribute)
                and isinstance(s.value.func.value, ast.Name) and s.value.func.value.id == 'logger'):
            continue
        out.append(s)
    return out


def _src(n):
    return ast.unparse(n)


# ---------------------------------------------------------------- rational expressions (float-free)
def _rat(e, env):
    """expression over names/ints with * and true division -> (num_text, den_text)"""
    if isinstance(e, ast.Constant) and isinstance(e.value, int) and not isinstance(e.value, bool):
        if e.value <= 0:
            refuse(e, 'non-positive literal in rational expression')
        return (str(e.value), '1')
    if isinstance(e, ast.Name):
        if e.id in env:
            return env[e.id]
        refuse(e, 'unknown name')
    if isinstance(e, ast.BinOp) and isinstance(e.op, ast.Div):
        an, ad = _rat(e.left, env)
        bn, bd = _rat(e.right, env)
        return (f'({an} * {bd})', f'({ad} * {bn})')
    if isinstance(e, ast.BinOp) and isinstance(e.op, ast.Mult):
        an, ad = _rat(e.left, env)
        bn, bd = _rat(e.right, env)
        return (f'({an} * {bn})', f'({ad} * {bd})')
    refuse(e, 'rational expression')


def tr_calculate_max_children(fn):
    if [a.arg for a in fn.args.args] != ['self', 'upload_speed', 'parent_speed_ratio'] or isinstance(fn, ast.AsyncFunctionDef):
        raise Refuse('_calculate_max_children signature')
    env = {'upload_speed': ('upload_speed', '1'), 'parent_speed_ratio': ('parent_speed_ratio', '1')}
    body = _strip(fn.body)
    for s in body[:-1]:
        if not (isinstance(s, ast.Assign) and len(s.targets) == 1 and isinstance(s.targets[0], ast.Name)):
            refuse(s, '_calculate_max_children statement')
        env[s.targets[0].id] = _rat(s.value, env)
    r = body[-1]
    if not (isinstance(r, ast.Return) and isinstance(r.value, ast.Call) and isinstance(r.value.func, ast.Name)
            and r.value.func.id == 'int' and len(r.value.args) == 1 and not r.value.keywords):
        refuse(r, '_calculate_max_children must end with `return int(<expr>)`')
    num, den = _rat(r.value.args[0], env)
    return ('(* int(num/den) for num >= 0, den > 0: truncation = floor *)\n'
            'Definition calculate_max_children (upload_speed parent_speed_ratio : Z) : Z :=\n'
            f' Z.div {num} {den}.\n')


# ---------------------------------------------------------------- integer expressions with locals
def _zexpr(e, env):
    if isinstance(e, ast.Constant) and isinstance(e.value, int) and not isinstance(e.value, bool):
        return f'({e.value})' if e.value < 0 else str(e.value)
    if isinstance(e, ast.Name) and e.id in env:
        return env[e.id]
    if isinstance(e, ast.Attribute) and _src(e) in env:
        return env[_src(e)]
    if isinstance(e, ast.BinOp) and isinstance(e.op, (ast.Add, ast.Sub, ast.Mult)):
        op = {ast.Add: 'Z.add', ast.Sub: 'Z.sub', ast.Mult: 'Z.mul'}[type(e.op)]
        return f'({op} {_zexpr(e.left, env)} {_zexpr(e.right, env)})'
    refuse(e, 'integer expression')


def _zcmp(e, env):
    if not (isinstance(e, ast.Compare) and len(e.ops) == 1):
        refuse(e, 'comparison')
    pat = CMPOPS.get(type(e.ops[0]))
    if pat is None:
        refuse(e, 'comparison operator')
    return '(' + pat.format(a=_zexpr(e.left, env), b=_zexpr(e.comparators[0], env)) + ')'


def tr_child_limits(fn):
    """_on_get_user_stats: the block
         if <session and own name>:
            speed = message.user_stats.avg_speed
            <defaulting of parent_min_speed / parent_speed_ratio>
            if speed <cmp> parent_min_speed * 1024: accept=False; max=0
            else: accept=True; max=self._calculate_max_children(speed, parent_speed_ratio)
            <send AcceptChildren(self._accept_children)>"""
    body = _strip(fn.body)
    if len(body) != 1 or not isinstance(body[0], ast.If) or body[0].orelse:
        raise Refuse('_on_get_user_stats: expected one guarded block')
    if _src(body[0].test) != 'self._session and message.username == self._session.user.name':
        raise Refuse('_on_get_user_stats guard changed: ' + _src(body[0].test))
    blk = _strip(body[0].body)
    if len(blk) != 5:
        raise Refuse(f'_on_get_user_stats block has {len(blk)} statements, expected 5')
    if _src(blk[0]) != 'speed = message.user_stats.avg_speed':
        raise Refuse('_on_get_user_stats: speed source changed')
    for st, var, const in ((blk[1], 'parent_min_speed', 'DEFAULT_PARENT_MIN_SPEED'), (blk[2], 'parent_speed_ratio', 'DEFAULT_PARENT_SPEED_RATIO')):
        want = (f'if self.{var} is None:\n    {var} = {const}\nelse:\n    {var} = self.{var}')
        got = ast.unparse(ast.If(test=st.test, body=_strip(st.body), orelse=_strip(st.orelse))) if isinstance(st, ast.If) else ''
        if got != want:
            raise Refuse(f'_on_get_user_stats: defaulting of {var} changed: {got}')
    dec = blk[3]
    if not isinstance(dec, ast.If):
        raise Refuse('_on_get_user_stats: decision is not an if')
    env = {'speed': 'speed', 'parent_min_speed': 'parent_min_speed', 'parent_speed_ratio': 'parent_speed_ratio'}
    test = _zcmp(dec.test, env)

    def branch(stmts):
        stmts = _strip(stmts)
        if len(stmts) != 2:
            raise Refuse('_on_get_user_stats: branch must assign accept and max')
        a, m = stmts
        if not (isinstance(a, ast.Assign) and _src(a.targets[0]) == 'self._accept_children' and isinstance(a.value, ast.Constant)
                and isinstance(a.value.value, bool)):
            refuse(a, 'accept assignment')
        if not (isinstance(m, ast.Assign) and _src(m.targets[0]) == 'self._max_children'):
            refuse(m, 'max assignment')
        if _src(m.value) == 'self._calculate_max_children(speed, parent_speed_ratio)':
            mx = '(calculate_max_children speed parent_speed_ratio)'
        else:
            mx = _zexpr(m.value, env)
        return 'true' if a.value.value else 'false', mx
    a1, m1 = branch(dec.body)
    a2, m2 = branch(dec.orelse)
    snd = blk[4]
    if ' '.join(_src(snd).split()) != 'await self._network.send_server_messages(AcceptChildren.Request(self._accept_children))':
        raise Refuse('_on_get_user_stats: AcceptChildren send changed: ' + _src(snd))
    return ('(* (below threshold?, accept, max children) *)\n'
            'Definition child_limits (speed parent_min_speed parent_speed_ratio : Z) : bool * bool * Z :=\n'
            f' if {test} then (true, {a1}, {m1}) else (false, {a2}, {m2}).\n')


def tr_check_new_child(fn):
    body = _strip(fn.body)
    if not body or _src(body[-1]) != 'await self._add_child(peer)':
        raise Refuse('_check_if_new_child must end with `await self._add_child(peer)`')
    env = {'len(self.children)': 'n_children', 'self._max_children': 'max_children'}
    guards = []
    for g in body[:-1]:
        if not isinstance(g, ast.If) or g.orelse:
            refuse(g, '_check_if_new_child guard')
        gb = _strip(g.body)
        if not gb or not (isinstance(gb[-1], ast.Return) and gb[-1].value is None):
            refuse(g, 'guard must end with return')
        if len(gb) == 1:
            verdict = 'CV_ignore'
        elif len(gb) == 2 and _src(gb[0]) == 'await peer.connection.disconnect(CloseReason.REQUESTED)':
            verdict = 'CV_reject'
        else:
            refuse(g, 'guard body')
        t = g.test
        if _src(t) == 'peer.username in self.potential_parents':
            cond = 'in_potential_parents'
        elif _src(t) == 'peer.username not in self.potential_parents':
            cond = '(negb in_potential_parents)'
        elif _src(t) == 'not self._accept_children':
            cond = '(negb accept_children)'
        elif _src(t) == 'self._accept_children':
            cond = 'accept_children'
        elif isinstance(t, ast.Compare):
            def ze(x):
                if isinstance(x, ast.Call) and _src(x) == 'len(self.children)':
                    return 'n_children'
                if _src(x) == 'self._max_children':
                    return 'max_children'
                return _zexpr(x, {})
            if len(t.ops) != 1 or type(t.ops[0]) not in CMPOPS:
                refuse(t, 'guard comparison')
            cond = '(' + CMPOPS[type(t.ops[0])].format(a=ze(t.left), b=ze(t.comparators[0])) + ')'
        else:
            refuse(t, 'guard test')
        guards.append((cond, verdict))
    txt = 'CV_add'
    for cond, verdict in reversed(guards):
        txt = f'if {cond} then {verdict} else\n {txt}'
    return ('Inductive child_verdict := CV_ignore | CV_reject | CV_add.\n'
            'Definition check_new_child (in_potential_parents accept_children : bool) (n_children max_children : Z) : child_verdict :=\n'
            f' {txt}.\n')


def tr_add_child(fn):
    """_add_child: append, then level always, root only when level != 0 (shape check only)."""
    body = _strip(fn.body)
    want = ['if not peer.connection:\n    return', 'self.children.append(peer)', 'root, level = self._get_advertised_branch_values()',
            'await peer.connection.send_message(DistributedBranchLevel.Request(level))',
            'if level != 0:\n    await peer.connection.send_message(DistributedBranchRoot.Request(root))']
    got = [_src(s) for s in body]
    if got != want:
        raise Refuse(f'_add_child changed: {got}')


def tr_advertised(fn):
    body = _strip(fn.body)
    if len(body) != 3 or _src(body[0]) != 'username = self._session.user.name':
        raise Refuse('_get_advertised_branch_values shape')
    env_n = {'username': 'username', 'self.parent.branch_root': 'parent_root'}
    env_z = {'self.parent.branch_level': 'parent_level'}

    def ret(r):
        if not (isinstance(r, ast.Return) and isinstance(r.value, ast.Tuple) and len(r.value.elts) == 2):
            refuse(r, 'return (root, level)')
        a, b = r.value.elts
        if _src(a) not in env_n:
            refuse(a, 'root expression')
        return f'({env_n[_src(a)]}, {_zexpr(b, env_z)})'

    def blk(stmts):
        stmts = _strip(stmts)
        if len(stmts) == 1 and isinstance(stmts[0], ast.Return):
            return ret(stmts[0])
        if len(stmts) == 1 and isinstance(stmts[0], ast.If) and stmts[0].orelse:
            i = stmts[0]
            t = i.test
            if not (isinstance(t, ast.Compare) and len(t.ops) == 1 and isinstance(t.ops[0], (ast.Eq, ast.NotEq))
                    and _src(t.left) in env_n and _src(t.comparators[0]) in env_n):
                refuse(t, 'name comparison')
            c = f'Nat.eqb {env_n[_src(t.left)]} {env_n[_src(t.comparators[0])]}'
            if isinstance(t.ops[0], ast.NotEq):
                c = f'negb ({c})'
            return f'(if {c} then {blk(i.body)} else {blk(i.orelse)})'
        raise Refuse('_get_advertised_branch_values block: ' + '; '.join(_src(s) for s in stmts))
    top = body[1]
    if not (isinstance(top, ast.If) and _src(top.test) == 'self.parent' and not top.orelse):
        raise Refuse('_get_advertised_branch_values: expected `if self.parent:`')
    return ('(* (root, level) advertised to the server and the children *)\n'
            'Definition advertised (username : nat) (has_parent : bool) (parent_root : nat) (parent_level : Z) : nat * Z :=\n'
            f' if has_parent then {blk(top.body)} else {ret(body[2])}.\n')



def tr_take_as_parent(fn):
    """_check_if_new_parent: `if <complete>: if <cond>: await self._set_parent(peer) else: await peer.connection.disconnect(...)`;
    <cond> over `not self.parent` and `peer not in self.children`."""
    body = _strip(fn.body)
    if len(body) != 1 or not isinstance(body[0], ast.If) or body[0].orelse:
        raise Refuse('_check_if_new_parent shape')
    if _src(body[0].test) != 'peer.branch_level is not None and peer.branch_root is not None':
        raise Refuse('_check_if_new_parent: completeness test changed: ' + _src(body[0].test))
    inner = _strip(body[0].body)
    if len(inner) != 1 or not isinstance(inner[0], ast.If):
        raise Refuse('_check_if_new_parent inner shape')
    i = inner[0]
    if [_src(x) for x in _strip(i.body)] != ['await self._set_parent(peer)'] or \
            [_src(x) for x in _strip(i.orelse)] != ['await peer.connection.disconnect(reason=CloseReason.REQUESTED)']:
        raise Refuse('_check_if_new_parent branches changed')

    def cond(t):
        if isinstance(t, ast.BoolOp):
            op = 'andb' if isinstance(t.op, ast.And) else 'orb'
            parts = [cond(v) for v in t.values]
            r = parts[-1]
            for q in reversed(parts[:-1]):
                r = f'({op} {q} {r})'
            return r
        m = {'not self.parent': '(negb has_parent)', 'self.parent is None': '(negb has_parent)', 'self.parent': 'has_parent',
             'peer not in self.children': '(negb is_child)', 'peer in self.children': 'is_child'}
        if _src(t) in m:
            return m[_src(t)]
        refuse(t, '_check_if_new_parent condition')
    return ('(* a peer with complete branch values becomes the parent (true) or is disconnected (false) *)\n'
            f'Definition take_as_parent (has_parent is_child : bool) : bool := {cond(i.test)}.\n')


def tr_parent_update(cls):
    """else-branch (message from the current parent) of the two branch handlers: children only, or server then children."""
    res = []
    for name in ('_on_distributed_branch_level', '_on_distributed_branch_root'):
        fn = find_func(cls.body, name)
        last = _strip(fn.body)[-1]
        if not (isinstance(last, ast.If) and _src(last.test) == 'peer != self.parent'
                and [_src(x) for x in _strip(last.body)] == ['await self._check_if_new_parent(peer)']):
            raise Refuse(f'{name}: dispatch on `peer != self.parent` changed')
        got = [_src(x) for x in _strip(last.orelse)]
        if got == ['await self._notify_children_of_branch_values()']:
            res.append(False)
        elif got == ['await self._notify_server_of_parent()', 'await self._notify_children_of_branch_values()']:
            res.append(True)
        else:
            raise Refuse(f'{name}: handling of updates from the parent changed: {got}')
    if res[0] != res[1]:
        raise Refuse('branch level and branch root handlers treat updates of the parent differently')
    return ('(* an update from the current parent is advertised to the server (then the children), or to the children only *)\n'
            f'Definition parent_update_tells_server : bool := {"true" if res[0] else "false"}.\n')

# ---------------------------------------------------------------- search carriers: own-name filters
def _own_filter(fn, user_expr='message.username') -> bool:
    """True iff the handler returns before doing anything when message.username is the session user."""
    for s in ast.walk(fn):
        if not isinstance(s, ast.If):
            continue
        test = s.test
        if isinstance(test, ast.BoolOp) and isinstance(test.op, ast.And) and len(test.values) == 2 and _src(test.values[0]) == 'self._session':
            test = test.values[1]      # `self._session and <user> == <own name>`
        if isinstance(test, ast.Compare) and len(test.ops) == 1 and isinstance(test.ops[0], ast.Eq):
            l, r = _src(test.left), _src(test.comparators[0])
            if {l, r} in ({user_expr, 'username'}, {user_expr, 'self._session.user.name'}):
                b = _strip(s.body)
                if b and isinstance(b[0], ast.Return):
                    return True
    return False


def translate(src: Path) -> dict:
    dpath = src / 'aioslsk' / 'distributed.py'
    tree = ast.parse(dpath.read_text())
    ctree = ast.parse((src / 'aioslsk' / 'constants.py').read_text())
    stree = ast.parse((src / 'aioslsk' / 'search' / 'manager.py').read_text())
    cls = find_class(tree, 'DistributedNetwork')
    scls = find_class(stree, 'SearchManager')

    out = [HEADER.format(src='src/aioslsk/distributed.py, constants.py, search/manager.py')]
    cache = int_const(ctree.body, 'POTENTIAL_PARENTS_CACHE_SIZE')
    if not (1 <= cache < 5000):
        raise Refuse('POTENTIAL_PARENTS_CACHE_SIZE out of range')
    out.append(f'Definition POTENTIAL_PARENTS_CACHE_SIZE : nat := {cache}.\n')
    for c in ('DEFAULT_PARENT_MIN_SPEED', 'DEFAULT_PARENT_SPEED_RATIO'):
        out.append(f'Definition {c} : Z := {int_const(ctree.body, c)}.\n')

    # __init__: deque(maxlen=POTENTIAL_PARENTS_CACHE_SIZE), _max_children, _accept_children
    init = find_func(cls.body, '__init__')
    vals = {}
    for s in init.body:
        if isinstance(s, ast.AnnAssign) and isinstance(s.target, ast.Attribute) and s.value is not None:
            vals[s.target.attr] = s.value
    pp = vals.get('potential_parents')
    if pp is None or ' '.join(_src(pp).split()) != 'deque(maxlen=POTENTIAL_PARENTS_CACHE_SIZE)':
        raise Refuse('potential_parents is not deque(maxlen=POTENTIAL_PARENTS_CACHE_SIZE)')
    mc, ac = vals.get('_max_children'), vals.get('_accept_children')
    if not (isinstance(mc, ast.Constant) and isinstance(mc.value, int) and isinstance(ac, ast.Constant) and isinstance(ac.value, bool)):
        raise Refuse('initial _max_children/_accept_children')
    out.append(f'Definition initial_max_children : Z := {mc.value}.\n')
    out.append(f'Definition initial_accept_children : bool := {"true" if ac.value else "false"}.\n\n')

    out.append(tr_calculate_max_children(find_func(cls.body, '_calculate_max_children')) + '\n')
    out.append(tr_child_limits(find_func(cls.body, '_on_get_user_stats')) + '\n')
    out.append(tr_check_new_child(find_func(cls.body, '_check_if_new_child')) + '\n')
    tr_add_child(find_func(cls.body, '_add_child'))
    out.append(tr_advertised(find_func(cls.body, '_get_advertised_branch_values')) + '\n')
    out.append(tr_take_as_parent(find_func(cls.body, '_check_if_new_parent')) + '\n')
    out.append(tr_parent_update(cls) + '\n')

    # legacy carrier: code test
    leg = find_func(cls.body, '_on_distributed_server_search_request')
    lb = _strip(leg.body)
    if not (lb and isinstance(lb[0], ast.If) and _src(lb[0].test) == 'message.distributed_code != DistributedSearchRequest.Request.MESSAGE_ID'
            and isinstance(_strip(lb[0].body)[-1], ast.Return)):
        raise Refuse('_on_distributed_server_search_request: code test changed')
    mtree = ast.parse((src / 'aioslsk' / 'protocol' / 'messages.py').read_text())
    dsr = find_class(mtree, 'DistributedSearchRequest')
    req = find_class(ast.Module(body=dsr.body, type_ignores=[]), 'Request')
    mid = None
    for s in req.body:
        if isinstance(s, ast.AnnAssign) and isinstance(s.target, ast.Name) and s.target.id == 'MESSAGE_ID':
            v = s.value
            if isinstance(v, ast.Call) and len(v.args) == 1 and isinstance(v.args[0], ast.Constant):
                mid = v.args[0].value
    if not isinstance(mid, int):
        raise Refuse('DistributedSearchRequest.Request.MESSAGE_ID')
    out.append(f'Definition DIST_SEARCH_MESSAGE_ID : Z := {mid}.\n')
    out.append('Definition legacy_code_ok (code : Z) : bool := Z.eqb code DIST_SEARCH_MESSAGE_ID.\n')
    unk = None
    for lm in lb[1:]:
        if (isinstance(lm, ast.Assign) and isinstance(lm.value, ast.Call)
                and _src(lm.value.func) == 'DistributedSearchRequest.Request'):
            kws = {kw.arg: kw.value for kw in lm.value.keywords}
            if sorted(kws) != ['query', 'ticket', 'unknown', 'username'] or lm.value.args:
                raise Refuse('legacy carrier: fields of the rebuilt request changed')
            for f in ('username', 'ticket', 'query'):
                if _src(kws[f]) != f'message.{f}':
                    raise Refuse(f'legacy carrier: {f} is not copied from the message')
            if isinstance(kws['unknown'], ast.Constant):
                unk = kws['unknown'].value
    if not isinstance(unk, int):
        raise Refuse('legacy carrier: unknown= literal')
    out.append(f'Definition LEGACY_UNKNOWN : Z := {unk}.\n\n')

    def flag(b):
        return 'true' if b else 'false'
    d_srv = _own_filter(find_func(cls.body, '_on_server_search_request'))
    d_dst = _own_filter(find_func(cls.body, '_on_distributed_search_request'))
    d_leg = _own_filter(leg)
    s_srv = _own_filter(find_func(scls.body, '_on_server_search_request'))
    s_dst = _own_filter(find_func(scls.body, '_on_distributed_search_request'))
    s_leg = _own_filter(find_func(scls.body, '_on_distributed_server_search_request'))
    out.append('(* does the handler return early for searches of the logged-in user? (distributed.py = forwarding, search/manager.py = answering) *)\n')
    for nm, v in (('fwd_server_own_filtered', d_srv), ('fwd_dist_own_filtered', d_dst), ('fwd_legacy_own_filtered', d_leg),
                  ('ans_server_own_filtered', s_srv), ('ans_dist_own_filtered', s_dst), ('ans_legacy_own_filtered', s_leg)):
        out.append(f'Definition {nm} : bool := {flag(v)}.\n')
    return {'DistGen.v': ''.join(out)}


if __name__ == '__main__':
    import sys
    print(translate(Path(sys.argv[1] if len(sys.argv) > 1 else '/repo/src'))['DistGen.v'])
