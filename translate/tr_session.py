"""T5: the session life cycle code -> gen/SessionGen.v (C16).

REGENERATED from the source on every run (fail closed, ``Refuse`` on anything unexpected):

* ``login_burst``: for each SessionInitializedEvent handler, in the registration order of the
  managers (client.py ``__init__``), WHICH messages are sent, under WHICH settings condition and in
  which order within the handler (network, distributed, users, rooms, interests, shares; the handlers of
  the transfer and search managers must not send).  Walked statement forms:
      await self._network.send_server_messages(M.Request(ARGS), ..., *[M.Request(x) for x in VAR])
      await self.<method of the same class>()        (walked in place)
      if [not] self._settings.<path>: <walked block>  (becomes if .. then .. else [])
      VAR = self._settings.<path>  |  a, b = self.get_listening_ports() | self.get_stats()
      for x in self._settings.<path>: messages.append(self._network.send_server_messages(M.Request(x)))
      messages = []  |  await asyncio.gather(*messages, return_exceptions=True)
      self._session = event.session | self.get_self().status = UserStatus.ONLINE | if not self._session: return
      await self.track_user(self._session.user.name, TrackingFlag.FRIEND) | await self.track_friends()
      logger.*(...) | docstrings
* ``keeps_watchdog``: the close reasons for which the CLOSING branch of
  Network._on_server_connection_state_changed does NOT stop the watchdog; ``watchdog_on_connect``: its
  start condition in the CONNECTED branch.
* booleans: ``stop_cancels_watchdog`` (Network._cancel_all_tasks), ``stop_stops_distributed``
  (SoulSeekClient.services), ``closed_resets_users`` / ``closed_resets_rooms`` / ``closed_stops_tracking`` /
  ``closed_destroys_session`` (the ConnectionStateChangedEvent listeners act on CLOSED of the server
  connection), ``state_change_resets_dist``.

SHAPE-PINNED (normalised-AST digest in translate/pins_session.json; hand-modelled in C16/Model.v):
SoulSeekClient.login / stop / _on_server_reconnected, Network.disconnect /
_server_connection_watchdog_job / get_listening_ports, DataConnection.connect / disconnect / _send /
_disconnect_detached, DistributedNetwork._notify_server_of_parent / _get_advertised_branch_values /
stop, UserManager.track_user / track_friends / track_friend, UserTrackingManager._request_tracking /
_on_state_changed / stop, BackgroundTask.start / cancel.
``python -m translate.tr_session --pin`` rewrites the pins after the hand model was re-validated.
"""
from __future__ import annotations

import ast
import hashlib
import json
import sys
from pathlib import Path

from .pyexpr import Refuse, refuse, find_class, find_func
from .tr_rooms import _Strip, _attr_chain, _is_logger, fingerprint_table

PINS = Path(__file__).with_name('pins_session.json')

PINNED = [
    ('client.py', 'SoulSeekClient', ['login', 'stop', '_on_server_reconnected']),
    ('network/network.py', 'Network', ['disconnect', '_server_connection_watchdog_job', 'get_listening_ports']),
    ('network/connection.py', 'DataConnection', ['connect', 'disconnect', '_send', '_disconnect_detached']),
    ('distributed.py', 'DistributedNetwork', ['_notify_server_of_parent', '_get_advertised_branch_values', 'stop',
                                              '_notify_children_of_branch_values', 'send_messages_to_children']),
    ('user/manager.py', 'UserManager', ['track_user', 'track_friends', 'track_friend']),
    ('user/manager.py', 'UserTrackingManager', ['_request_tracking', '_on_state_changed', 'stop']),
    ('tasks.py', 'BackgroundTask', ['*']),
    # helpers the modelled behaviour relies on
    ('events.py', 'EventBus', ['*']),
    ('events.py', 'SessionInitializedEvent', ['*']), ('events.py', 'SessionDestroyedEvent', ['*']),
    ('events.py', 'ConnectionStateChangedEvent', ['*']), ('events.py', 'ServerReconnectedEvent', ['*']),
    ('utils.py', None, ['cancel_task', 'ticket_generator', 'task_counter']),
    ('base_manager.py', 'BaseManager', ['*']),
    ('session.py', 'Session', ['*']),
    ('exceptions.py', 'InvalidSessionError', ['*']), ('exceptions.py', 'AuthenticationError', ['*']),
    ('exceptions.py', 'ConnectionFailedError', ['*']), ('exceptions.py', 'ConnectionWriteError', ['*']),
    ('settings.py', 'ReconnectSettings', ['*']), ('settings.py', 'RoomsSettings', ['*']), ('settings.py', 'InterestsSettings', ['*']),
    ('settings.py', 'CredentialsSettings', ['*']), ('settings.py', 'ListeningSettings', ['*']), ('settings.py', 'DebugSettings', ['*']),
    ('client.py', 'SoulSeekClient', ['execute', 'start', 'connect', 'register_listeners', '_on_connection_state_changed']),
    ('commands.py', 'JoinRoomCommand', ['*']),
    ('network/network.py', 'Network', ['send_server_messages', 'on_state_changed', 'initialize', 'connect_server', 'disconnect_server',
                                       'start_server_connection_watchdog', 'stop_server_connection_watchdog', 'register_listeners',
                                       'connect_listening_ports', 'disconnect_listening_ports']),
    ('network/connection.py', 'Connection', ['set_state']),
    ('network/connection.py', 'DataConnection', ['send_message', 'start_reader_task', '_message_reader_loop', '_read', 'queue_message',
                                                 '_cancel_queued_messages']),
    ('network/connection.py', 'ConnectionState', ['*']), ('network/connection.py', 'CloseReason', ['*']),
    ('network/connection.py', 'ServerConnection', ['*']),
    ('server.py', 'ServerManager', ['*']),
    ('user/model.py', 'TrackingFlag', ['*']), ('user/model.py', 'UserStatus', ['*']),
    ('user/manager.py', 'UserManager', ['stop', 'get_self', 'reset_users', '_on_state_changed', '_on_session_destroyed', 'register_listeners']),
    ('user/manager.py', 'UserTrackingManager', ['_tracking_task', '_set_tracking_state', '_request_retry', '_get_tracked_user_object',
                                                '_on_tracking_task_done', 'track_user', 'register_listeners']),
    ('room/manager.py', 'RoomManager', ['reset_rooms', '_on_state_changed', 'register_listeners']),
    ('shares/manager.py', 'SharesManager', ['get_stats', '_on_session_destroyed']),
    ('distributed.py', 'DistributedNetwork', ['_on_potential_parents', '_cancel_potential_parent_tasks', '_reset_server_values',
                                              '_on_state_changed', 'register_listeners', '_on_session_destroyed']),
] + [('protocol/messages.py', f'{m}.Request', ['*']) for m in [
    'Login', 'SetListenPort', 'CheckPrivileges', 'SetStatus', 'AddUser', 'AddInterest', 'AddHatedInterest', 'TogglePrivateRoomInvites',
    'JoinRoom', 'SharedFoldersFiles', 'BranchLevel', 'BranchRoot', 'ToggleParentSearch']] + [('protocol/messages.py', 'Login.Response', ['*'])]

SETTINGS = {
    ('rooms', 'private_room_invites'): 's_invites s', ('rooms', 'auto_join'): 's_auto_join s',
    ('rooms', 'favorites'): 's_favorites s', ('interests', 'liked'): 's_liked s', ('interests', 'hated'): 's_hated s',
    ('users', 'friends'): 's_friends s',
}
MANAGER_ORDER = ['network', 'distributed_network', 'users', 'rooms', 'interests', 'shares', 'transfers', 'peers', 'searches',
                 'server_manager']


def fingerprints(src: Path) -> dict:
    return fingerprint_table(src, PINNED)


def settings_path(e):
    ch = _attr_chain(e)
    if ch and ch[:2] == ['self', '_settings'] and tuple(ch[2:]) in SETTINGS:
        return SETTINGS[tuple(ch[2:])]
    return None


class Walker:
    """Collects, in order, the Coq list expressions of the messages a handler sends."""

    def __init__(self, cls: ast.ClassDef, fixed=None):
        self.cls = cls
        self.vars = {}      # python var -> ('settings', coq list) | ('ports', i) | ('shares', i)
        self.fixed = fixed or {}

    def walk(self, fname, depth=0):
        if depth > 3:
            raise Refuse('call depth')
        if fname in self.fixed:
            return [self.fixed[fname]]
        fn = find_func(self.cls.body, fname)
        return self.block(fn.body, depth)

    def block(self, body, depth):
        out = []
        for st in body:
            out += self.stmt(st, depth)
        return out

    def stmt(self, st, depth):
        if isinstance(st, ast.Expr) and isinstance(st.value, ast.Constant):
            return []
        if isinstance(st, ast.Expr) and isinstance(st.value, ast.Call) and _is_logger(st.value):
            return []
        # assignments
        if isinstance(st, ast.Assign) and len(st.targets) == 1:
            t, v = st.targets[0], st.value
            if _attr_chain(t) == ['self', '_session'] and _attr_chain(v) == ['event', 'session']:
                return []
            if isinstance(t, ast.Attribute) and t.attr == 'status' and isinstance(t.value, ast.Call) \
                    and _attr_chain(t.value.func) == ['self', 'get_self'] and _attr_chain(v) == ['UserStatus', 'ONLINE']:
                return []
            if isinstance(t, ast.Name):
                sp = settings_path(v)
                if sp:
                    self.vars[t.id] = ('list', sp)
                    return []
                if isinstance(v, ast.List) and not v.elts:
                    self.vars[t.id] = ('tasks',)
                    return []
            if isinstance(t, ast.Tuple) and len(t.elts) == 2 and all(isinstance(x, ast.Name) for x in t.elts) and isinstance(v, ast.Call):
                ch = _attr_chain(v.func)
                if ch == ['self', 'get_listening_ports'] and not v.args:
                    self.vars[t.elts[0].id] = ('val', 'fst ports')
                    self.vars[t.elts[1].id] = ('val', 'snd ports')
                    return []
                if ch == ['self', 'get_stats'] and not v.args:
                    self.vars[t.elts[0].id] = ('val', 'fst shares')
                    self.vars[t.elts[1].id] = ('val', 'snd shares')
                    return []
            refuse(st, 'assignment in a session handler')
        if isinstance(st, ast.If):
            t = st.test
            # if not self._session: return      (report_shares: the session was stored just before)
            if isinstance(t, ast.UnaryOp) and isinstance(t.op, ast.Not) and _attr_chain(t.operand) == ['self', '_session'] \
                    and len(st.body) == 1 and isinstance(st.body[0], ast.Return) and not st.orelse:
                return []
            neg = False
            if isinstance(t, ast.UnaryOp) and isinstance(t.op, ast.Not):
                neg, t = True, t.operand
            sp = settings_path(t)
            if sp is None or st.orelse:
                refuse(st, 'condition of a session handler')
            inner = self.block(st.body, depth)
            cond = f'negb ({sp})' if neg else sp
            return [f'(if {cond} then {cat(inner)} else [])']
        if isinstance(st, ast.For):
            sp = settings_path(st.iter)
            if not (sp and isinstance(st.target, ast.Name) and len(st.body) == 1 and not st.orelse):
                refuse(st, 'loop of a session handler')
            b = st.body[0]
            ok = (isinstance(b, ast.Expr) and isinstance(b.value, ast.Call) and isinstance(b.value.func, ast.Attribute)
                  and b.value.func.attr == 'append' and isinstance(b.value.func.value, ast.Name)
                  and self.vars.get(b.value.func.value.id) == ('tasks',) and len(b.value.args) == 1)
            if not ok:
                refuse(st, 'loop body')
            send = b.value.args[0]
            if not (isinstance(send, ast.Call) and _attr_chain(send.func) == ['self', '_network', 'send_server_messages'] and len(send.args) == 1):
                refuse(st, 'loop body send')
            ctor = self.msg_ctor(send.args[0], {st.target.id: 'x'})
            return [f'map (fun x => {ctor}) ({sp})']
        if isinstance(st, ast.Expr) and isinstance(st.value, ast.Await):
            c = st.value.value
            if not isinstance(c, ast.Call):
                refuse(st, 'await')
            ch = _attr_chain(c.func)
            if ch == ['asyncio', 'gather']:
                if len(c.args) == 1 and isinstance(c.args[0], ast.Starred) and isinstance(c.args[0].value, ast.Name) \
                        and self.vars.get(c.args[0].value.id) == ('tasks',):
                    return []
                refuse(st, 'gather')
            if ch in (['self', '_network', 'send_server_messages'], ['self', 'send_server_messages']):
                return self.sends(c, st)
            if ch == ['self', 'track_user']:
                ok = (len(c.args) == 2 and _attr_chain(c.args[0]) == ['self', '_session', 'user', 'name']
                      and _attr_chain(c.args[1]) == ['TrackingFlag', 'FRIEND'])
                if not ok:
                    refuse(st, 'track_user call')
                return ['[AddUser 0]']
            if ch == ['self', 'track_friends'] and not c.args:
                return ['map AddUser (s_friends s)']
            if ch and len(ch) == 2 and ch[0] == 'self' and not c.args and not c.keywords:
                return self.walk(ch[1], depth + 1)
            refuse(st, 'awaited call')
        refuse(st, 'statement of a session handler')

    def sends(self, c, st):
        out = []
        if c.keywords:
            refuse(st, 'send keywords')
        for a in c.args:
            if isinstance(a, ast.Starred):
                lc = a.value
                if not (isinstance(lc, ast.ListComp) and len(lc.generators) == 1 and not lc.generators[0].ifs
                        and isinstance(lc.generators[0].target, ast.Name) and isinstance(lc.generators[0].iter, ast.Name)
                        and self.vars.get(lc.generators[0].iter.id, ('',))[0] == 'list'):
                    refuse(st, 'starred send argument')
                ctor = self.msg_ctor(lc.elt, {lc.generators[0].target.id: 'x'})
                out.append(f'map (fun x => {ctor}) ({self.vars[lc.generators[0].iter.id][1]})')
            else:
                out.append(f'[{self.msg_ctor(a, {})}]')
        return out

    def val(self, e, local):
        if isinstance(e, ast.Name):
            if e.id in local:
                return local[e.id]
            if self.vars.get(e.id, ('',))[0] == 'val':
                return f'({self.vars[e.id][1]})'
        sp = settings_path(e)
        if sp:
            return f'({sp})'
        refuse(e, 'message argument')

    def msg_ctor(self, e, local):
        if not (isinstance(e, ast.Call) and isinstance(e.func, ast.Attribute) and e.func.attr == 'Request'
                and isinstance(e.func.value, ast.Name)):
            refuse(e, 'message constructor')
        m = e.func.value.id
        args, kw = e.args, {k.arg: k.value for k in e.keywords}
        if m == 'TogglePrivateRoomInvites' and len(args) == 1 and not kw:
            return f'TogglePrivateRoomInvites {self.val(args[0], local)}'
        if m == 'CheckPrivileges' and not args and not kw:
            return 'CheckPrivileges'
        if m == 'SetStatus' and len(args) == 1 and _attr_chain(args[0]) == ['UserStatus', 'ONLINE', 'value'] and not kw:
            return 'SetStatusOnline'
        if m in ('JoinRoom', 'AddInterest', 'AddHatedInterest') and len(args) == 1 and not kw:
            return f'{m} {self.val(args[0], local)}'
        if m == 'SetListenPort' and len(args) == 1 and set(kw) == {'obfuscated_port_amount', 'obfuscated_port'}:
            amt = kw['obfuscated_port_amount']
            ok = (isinstance(amt, ast.IfExp) and isinstance(amt.body, ast.Constant) and amt.body.value == 1
                  and isinstance(amt.orelse, ast.Constant) and amt.orelse.value == 0)
            if not ok:
                refuse(e, 'obfuscated_port_amount')
            t = self.val(amt.test, local)
            return f'SetListenPort {self.val(args[0], local)} (if Nat.eqb {t} 0 then 0 else 1) {self.val(kw["obfuscated_port"], local)}'
        if m == 'SharedFoldersFiles' and not args and set(kw) == {'shared_folder_count', 'shared_file_count'}:
            return f'SharedFoldersFiles {self.val(kw["shared_folder_count"], local)} {self.val(kw["shared_file_count"], local)}'
        if m == 'BranchLevel' and len(args) == 1 and isinstance(args[0], ast.Constant) and isinstance(args[0].value, int) and not kw:
            return f'BranchLevel {args[0].value}'
        if m == 'BranchRoot' and len(args) == 1 and not kw and _attr_chain(args[0]) in (['event', 'session', 'user', 'name'],
                                                                                     ['self', '_session', 'user', 'name']):
            return 'BranchRoot 0'
        if m == 'ToggleParentSearch' and len(args) == 1 and not kw:
            if isinstance(args[0], ast.Constant) and isinstance(args[0].value, bool):
                return f'ToggleParentSearch {"true" if args[0].value else "false"}'
            if _attr_chain(args[0]) == ['self', '_settings', 'debug', 'search_for_parent']:
                return 'ToggleParentSearch true'      # debug.search_for_parent is left at its default (True) by the harness
        refuse(e, f'message {m} is not part of the burst model')


def cat(items):
    return '(' + ' ++ '.join(items) + ')' if items else '[]'


def _listeners_on_closed(cls, call_chain, any_state=False):
    """does `_on_state_changed` call `call_chain` for a ServerConnection in state CLOSED (or in any state)?"""
    fn = find_func(cls.body, '_on_state_changed')
    src = ast.unparse(fn)
    target = '.'.join(call_chain) + '('
    if target not in src:
        return False
    for node in ast.walk(fn):
        if isinstance(node, ast.If):
            body_src = '\n'.join(ast.unparse(b) for b in node.body)
            test_src = ast.unparse(node.test)
            if target in body_src:
                if 'ConnectionState.CLOSED' in test_src and '==' in test_src:
                    return True
                if any_state and 'isinstance' in test_src and 'ServerConnection' in test_src and 'not' not in test_src:
                    return True
    return False


def translate(src: Path) -> dict:
    pins = json.loads(PINS.read_text())
    fp = fingerprints(src)
    diff = sorted(k for k in set(pins) | set(fp) if pins.get(k) != fp.get(k))
    if diff:
        raise Refuse('hand-modelled functions changed shape (translate/pins_session.json): ' + ', '.join(diff))
    A = src / 'aioslsk'
    P = lambda rel: ast.parse((A / rel).read_text())
    client = find_class(P('client.py'), 'SoulSeekClient')
    # ---- registration order of the managers = order of the `self.X = self.create_...()` assignments in __init__
    init = find_func(client.body, '__init__')
    order = []
    for st in init.body:
        tg = st.target if isinstance(st, ast.AnnAssign) else (st.targets[0] if isinstance(st, ast.Assign) and len(st.targets) == 1 else None)
        v = getattr(st, 'value', None)
        if tg is not None and isinstance(v, ast.Call) and (_attr_chain(v.func) or [''])[0] == 'self' \
                and (_attr_chain(v.func) or ['', ''])[-1].startswith('create_'):
            order.append(_attr_chain(tg)[1])
    if order != MANAGER_ORDER:
        raise Refuse(f'manager construction order changed: {order}')
    # ---- services
    services = None
    for st in init.body:
        tg = st.target if isinstance(st, ast.AnnAssign) else None
        if tg is not None and _attr_chain(tg) == ['self', 'services'] and isinstance(st.value, ast.List):
            services = [_attr_chain(e)[1] for e in st.value.elts]
    if services is None:
        raise Refuse('SoulSeekClient.services not found')
    stop_stops_distributed = 'distributed_network' in services
    for need in ('users', 'rooms', 'interests', 'shares', 'transfers', 'peers', 'searches', 'server_manager'):
        if need not in services:
            raise Refuse(f'service {need} is no longer stopped by stop()')

    network = find_class(P('network/network.py'), 'Network')
    dist = find_class(P('distributed.py'), 'DistributedNetwork')
    um_tree = P('user/manager.py')
    users = find_class(um_tree, 'UserManager')
    tracking = find_class(um_tree, 'UserTrackingManager')
    rooms = find_class(P('room/manager.py'), 'RoomManager')
    interests = find_class(P('interest/manager.py'), 'InterestManager')
    shares = find_class(P('shares/manager.py'), 'SharesManager')
    transfers = find_class(P('transfer/manager.py'), 'TransferManager')
    searches = find_class(P('search/manager.py'), 'SearchManager')

    H = '_on_session_initialized'
    parts = [
        ('burst_network', Walker(network).walk(H)),
        ('burst_distributed', Walker(dist, fixed={'_notify_server_of_parent': '(match parent with None => [BranchLevel 0; BranchRoot 0; ToggleParentSearch true] '
                                                                                 '| Some (lvl, root) => [BranchLevel (S lvl); BranchRoot root; ToggleParentSearch false] end)',
                                                      # sends to child connections only (repair 9a1d31a): nothing goes to the server
                                                      '_notify_children_of_branch_values': '[]'}).walk(H)),
        ('burst_users', Walker(users).walk(H)),
        ('burst_rooms', Walker(rooms).walk(H)),
        ('burst_interests', Walker(interests).walk(H)),
        ('burst_shares', Walker(shares).walk(H)),
    ]
    # the other two handlers must not send
    for cls in (transfers, searches):
        fn = find_func(cls.body, H)
        if 'send' in ast.unparse(fn):
            raise Refuse(f'{cls.name}.{H} sends messages')

    # ---- watchdog decisions
    fn = find_func(network.body, '_on_server_connection_state_changed')
    top = [st for st in fn.body if isinstance(st, ast.If)]
    if len(top) != 1:
        raise Refuse('_on_server_connection_state_changed shape')
    br_conn, rest = top[0], top[0].orelse
    if ast.unparse(br_conn.test) != 'state == ConnectionState.CONNECTED' or len(rest) != 1 or not isinstance(rest[0], ast.If) \
            or ast.unparse(rest[0].test) != 'state == ConnectionState.CLOSING' or rest[0].orelse:
        raise Refuse('_on_server_connection_state_changed branches')
    start_cond = None
    for st in br_conn.body:
        if isinstance(st, ast.If) and 'start_server_connection_watchdog' in ast.unparse(st):
            if ast.unparse(st.test) != 'self._settings.network.server.reconnect.auto' or st.orelse:
                raise Refuse('watchdog start condition')
            start_cond = 'auto'
        elif 'watchdog' in ast.unparse(st):
            raise Refuse('unexpected watchdog statement on CONNECTED')
    if start_cond is None:
        raise Refuse('watchdog is not started on CONNECTED')
    REASON = {'UNKNOWN': 'RUnknown', 'CONNECT_FAILED': 'RConnectFailed', 'REQUESTED': 'RRequested', 'READ_ERROR': 'RRead',
              'WRITE_ERROR': 'RWrite', 'TIMEOUT': 'RTimeout', 'EOF': 'REof'}
    conn_tree = P('network/connection.py')
    enum_members = [t.id for st in find_class(conn_tree, 'CloseReason').body if isinstance(st, ast.Assign) for t in st.targets if isinstance(t, ast.Name)]
    if sorted(enum_members) != sorted(REASON):
        raise Refuse(f'CloseReason members changed: {enum_members}')
    consts = {}
    for st in network.body:      # class-level tuples of close reasons
        tg = st.target if isinstance(st, ast.AnnAssign) else (st.targets[0] if isinstance(st, ast.Assign) and len(st.targets) == 1 else None)
        v = getattr(st, 'value', None)
        if isinstance(tg, ast.Name) and isinstance(v, (ast.Tuple, ast.List, ast.Set)):
            names = [(_attr_chain(e) or ['', ''])[-1] for e in v.elts if (_attr_chain(e) or [''])[0] == 'CloseReason']
            if len(names) == len(v.elts):
                consts[tg.id] = names

    def reasons_of(e):
        if isinstance(e, (ast.Tuple, ast.List, ast.Set)):
            out = []
            for x in e.elts:
                ch = _attr_chain(x)
                if not ch or ch[0] != 'CloseReason' or ch[1] not in REASON:
                    refuse(e, 'close reason collection')
                out.append(ch[1])
            return out
        ch = _attr_chain(e)
        if ch and ch[0] in ('self', 'Network') and len(ch) == 2 and ch[1] in consts:
            return consts[ch[1]]
        refuse(e, 'close reason collection')

    def test_val(t, r):
        if isinstance(t, ast.Compare) and len(t.ops) == 1 and _attr_chain(t.left) == ['close_reason']:
            op, rhs = t.ops[0], t.comparators[0]
            if isinstance(op, (ast.Eq, ast.NotEq)):
                ch = _attr_chain(rhs)
                if not ch or ch[0] != 'CloseReason' or ch[1] not in REASON:
                    refuse(t, 'close reason test')
                return (ch[1] == r) == isinstance(op, ast.Eq)
            if isinstance(op, (ast.In, ast.NotIn)):
                return (r in reasons_of(rhs)) == isinstance(op, ast.In)
        if isinstance(t, ast.BoolOp):
            vals = [test_val(v, r) for v in t.values]
            return all(vals) if isinstance(t.op, ast.And) else any(vals)
        if isinstance(t, ast.UnaryOp) and isinstance(t.op, ast.Not):
            return not test_val(t.operand, r)
        refuse(t, 'watchdog stop condition')

    def run_block(body, r):
        stopped = False
        for st in body:
            src_ = ast.unparse(st)
            if isinstance(st, ast.If):
                stopped |= run_block(st.body if test_val(st.test, r) else st.orelse, r)
            elif src_ == 'self.stop_server_connection_watchdog()':
                stopped = True
            elif 'watchdog' in src_:
                refuse(st, 'unexpected watchdog statement on CLOSING')
            elif isinstance(st, ast.Expr) and isinstance(st.value, ast.Call) and (_is_logger(st.value) or src_ == 'self.stop_upnp_job()'):
                pass
            elif isinstance(st, ast.Expr) and isinstance(st.value, ast.Constant):
                pass
            else:
                refuse(st, 'statement in the CLOSING branch')
        return stopped

    kw_cases = ' '.join(f'| {REASON[r]} => {"false" if run_block(rest[0].body, r) else "true"}' for r in REASON)
    cancel_all = ast.unparse(find_func(network.body, '_cancel_all_tasks'))
    stop_cancels_watchdog = 'self._connection_watchdog_task.cancel()' in cancel_all

    # ---- resets on CLOSED
    closed_resets_users = _listeners_on_closed(users, ['self', 'reset_users'])
    closed_resets_rooms = _listeners_on_closed(rooms, ['self', 'reset_rooms'])
    closed_stops_tracking = _listeners_on_closed(tracking, ['self', 'stop'])
    state_change_resets_dist = _listeners_on_closed(dist, ['self', '_reset_server_values'], any_state=True)
    fn = find_func(client.body, '_on_connection_state_changed')
    s_ = ast.unparse(fn)
    closed_destroys_session = ('event.state == ConnectionState.CLOSED' in s_ and 'self.session = None' in s_
                               and 'SessionDestroyedEvent(session)' in s_ and 'await self.events.emit(session_event)' in s_)

    b = lambda x: 'true' if x else 'false'
    text = ('(* GENERATED by /verif/translate/tr_session.py from client.py, network/network.py, user/manager.py, room/manager.py,\n'
            '   interest/manager.py, shares/manager.py, distributed.py -- do not edit; regenerated on every run. *)\n'
            'From Coq Require Import List Bool Arith.\nFrom Slsk Require Import C16.Types.\nImport ListNotations.\n\n'
            '(* s = settings; ports = open listening ports; shares = (folders, files); parent = advertised (level, root) of the\n'
            '   distributed parent, if any *)\n')
    B = '(s : settings) (ports shares : nat * nat) (parent : option (nat * nat))'
    for name, items in parts:
        text += f'Definition {name} {B} : list bmsg := {cat(items)}.\n'
    text += ('\n(* SessionInitializedEvent listeners in registration order: ' + ', '.join(MANAGER_ORDER) + ' *)\n'
             f'Definition login_burst {B} : list bmsg :=\n  ' + ' ++ '.join(f'{n} s ports shares parent' for n, _ in parts) + '.\n\n'
             f'Definition keeps_watchdog (r : reason) : bool := match r with {kw_cases} end.\n'
             f'Definition watchdog_on_connect (auto : bool) : bool := {start_cond}.\n'
             f'Definition stop_cancels_watchdog : bool := {b(stop_cancels_watchdog)}.\n'
             f'Definition stop_stops_distributed : bool := {b(stop_stops_distributed)}.\n'
             f'Definition closed_resets_users : bool := {b(closed_resets_users)}.\n'
             f'Definition closed_resets_rooms : bool := {b(closed_resets_rooms)}.\n'
             f'Definition closed_stops_tracking : bool := {b(closed_stops_tracking)}.\n'
             f'Definition closed_destroys_session : bool := {b(closed_destroys_session)}.\n'
             f'Definition state_change_resets_dist : bool := {b(state_change_resets_dist)}.\n')
    return {'SessionGen.v': text}


if __name__ == '__main__':
    root = Path(sys.argv[2]) if len(sys.argv) > 2 else Path('/repo/src')
    if len(sys.argv) > 1 and sys.argv[1] == '--pin':
        PINS.write_text(json.dumps(fingerprints(root), indent=1, sort_keys=True) + '\n')
        print('pinned', PINS)
    else:
        print(translate(root)['SessionGen.v'])
