"""naming.py / utils.split_remote_path / constants.PATH_SEPERATOR_PATTERN / SharesManager default chain /
TransferManager._prepare_download_path  ->  gen/NamingGen.v  (constants, guards and orders used by C09/Model.v).

Fail closed: every function the C09 model abstracts must be EXACTLY one of the statement lists accepted
below (docstrings and comments aside); a recognised variant sets a constant / flag, anything else raises
Refuse (= broken tie).

  PATH_SEPERATOR_PATTERN          re.compile('[<chars>]+')                        -> SEPARATORS
  split_remote_path               parts of re.split kept `if part [and part not in (<names>)]` -> SPLIT_DROPS
  DefaultNamingStrategy.apply     last part [fallback FALLBACK_FILENAME when there is none]    -> default_has_fallback, UNNAMED
  KeepDirectoryStrategy.apply     returns early for `len(parts) <= 1` / `== 1`; '@@' / drive guards; join(local_dir, parts[-2]) (pinned)
  DuplicateNamingStrategy.should_be_applied, NumberDuplicateStrategy.PATTERN / apply, chain_strategies  (pinned literally)
  SharesManager.__init__          naming_strategies = [Default, NumberDuplicate]  -> DEFAULT_CHAIN_CODES
  SharesManager.calculate_download_path   (pinned)
  TransferManager._prepare_download_path  choose -> makedirs -> create -> set local_path, all before the first await  -> prepare_reserves
"""
import ast
from pathlib import Path
from .pyexpr import Refuse, find_class, find_func, HEADER
from .tr_search import stmts, expect


def s_lit(s):
    return '[' + '; '.join(str(ord(c)) for c in s) + ']%N'


def class_const(cls, name):
    for n in cls.body:
        if isinstance(n, ast.Assign) and len(n.targets) == 1 and isinstance(n.targets[0], ast.Name) and n.targets[0].id == name \
                and isinstance(n.value, ast.Constant) and isinstance(n.value.value, str):
            return n.value.value
    raise Refuse(f'{cls.name}.{name} not found as a string constant')


NUMDUP_APPLY = [
    'filename, extension = os.path.splitext(local_filename)',
    'pattern = re.escape(filename) + self.PATTERN + re.escape(extension)',
    'indices = []',
    'for path_file in os.listdir(local_dir):\n    if (match := re.match(pattern, path_file)) is not None:\n        indices.append(int(match.group(1)))',
    'next_index = 1',
    'if indices:\n    possible_indices = set(range(min(indices), max(indices) + 2))\n    next_index = min(possible_indices - set(indices))',
    "new_filename = f'{filename} ({next_index}){extension}'",
    'return (local_dir, new_filename)',
]
CHAIN = [
    'path = local_dir',
    "filename = ''",
    'for strategy in strategies:\n    if strategy.should_be_applied(path, filename):\n        path, filename = strategy.apply(remote_path, path, filename)',
    'return (path, filename)',
]
KEEP_TAIL = [
    'contained_dir = remote_path_parts[-2]',
    "if contained_dir.startswith('@@'):\n    return (local_dir, local_filename)\nelif re.match('[a-zA-Z]{1}:', contained_dir) is not None:\n    return (local_dir, local_filename)",
    'return (os.path.join(local_dir, contained_dir), local_filename)',
]
PREP_TAIL = ['path, _ = os.path.split(transfer.local_path)', 'await self._shares_manager.create_directory(path)']


def translate(src: Path) -> dict:
    out = [HEADER.format(src='src/aioslsk/naming.py, utils.py, constants.py, shares/manager.py, transfer/manager.py').replace('ZArith', 'NArith')
           .replace('Open Scope Z_scope.', 'Import ListNotations.\nOpen Scope N_scope.')]
    # ---- separators
    ctree = ast.parse((src / 'aioslsk' / 'constants.py').read_text())
    pat = None
    for n in ctree.body:
        if isinstance(n, ast.Assign) and len(n.targets) == 1 and ast.unparse(n.targets[0]) == 'PATH_SEPERATOR_PATTERN':
            v = n.value
            if not (isinstance(v, ast.Call) and ast.unparse(v.func) == 're.compile' and len(v.args) == 1 and not v.keywords
                    and isinstance(v.args[0], ast.Constant) and isinstance(v.args[0].value, str)):
                raise Refuse('PATH_SEPERATOR_PATTERN is not re.compile(<literal>)')
            pat = v.args[0].value
    if pat is None or not (pat.startswith('[') and pat.endswith(']+')):
        raise Refuse(f'PATH_SEPERATOR_PATTERN is not a character class followed by +: {pat!r}')
    inner, chars, i = pat[1:-2], [], 0
    while i < len(inner):
        c = inner[i]
        if c == '\\':
            i += 1
            if i >= len(inner) or inner[i] not in '\\/':
                raise Refuse(f'PATH_SEPERATOR_PATTERN: unsupported escape in {pat!r}')
            c = inner[i]
        elif c in '^-[]':
            raise Refuse(f'PATH_SEPERATOR_PATTERN: unsupported class syntax in {pat!r}')
        chars.append(c)
        i += 1
    out.append(f'(* PATH_SEPERATOR_PATTERN = {pat!r} *)\nDefinition SEPARATORS : list N := {s_lit("".join(chars))}.\n\n')

    # ---- split_remote_path
    utree = ast.parse((src / 'aioslsk' / 'utils.py').read_text())
    sp = stmts(find_func(utree.body, 'split_remote_path'))
    drops = expect('split_remote_path', sp, [
        (['.', '..'], ["return [part for part in re.split(PATH_SEPERATOR_PATTERN, path) if part and part not in ('.', '..')]"]),
        ([], ['return [part for part in re.split(PATH_SEPERATOR_PATTERN, path) if part]']),
    ])
    out.append('(* split_remote_path: parts of re.split(PATH_SEPERATOR_PATTERN, path) that are non-empty and not one of these *)\n'
               f'Definition SPLIT_DROPS : list (list N) := [{"; ".join(s_lit(d) for d in drops)}].\n\n')

    # ---- strategies
    ntree = ast.parse((src / 'aioslsk' / 'naming.py').read_text())
    dflt = find_class(ntree, 'DefaultNamingStrategy')
    fb = expect('DefaultNamingStrategy.apply', stmts(find_func(dflt.body, 'apply')), [
        (True, ['remote_path_parts = split_remote_path(remote_path)', 'if not remote_path_parts:\n    return (local_dir, self.FALLBACK_FILENAME)',
                'return (local_dir, remote_path_parts[-1])']),
        (False, ['return (local_dir, split_remote_path(remote_path)[-1])']),
    ])
    name = class_const(dflt, 'FALLBACK_FILENAME') if fb else 'unnamed'
    out.append('(* DefaultNamingStrategy.apply: last part of split_remote_path [FALLBACK_FILENAME when there is none, else IndexError] *)\n'
               f'Definition default_has_fallback : bool := {"true" if fb else "false"}.\nDefinition UNNAMED : list N := {s_lit(name)}.\n\n')
    keep = find_class(ntree, 'KeepDirectoryStrategy')
    head = ['remote_path_parts = split_remote_path(remote_path)']
    le = expect('KeepDirectoryStrategy.apply', stmts(find_func(keep.body, 'apply')), [
        (True, head + ['if len(remote_path_parts) <= 1:\n    return (local_dir, local_filename)'] + KEEP_TAIL),
        (False, head + ['if len(remote_path_parts) == 1:\n    return (local_dir, local_filename)'] + KEEP_TAIL),
    ])
    out.append("(* KeepDirectoryStrategy.apply: unchanged for `len(parts) <= 1` [`== 1`: IndexError on no part]; unchanged for '@@...' and\n"
               '   drive letters; else os.path.join(local_dir, parts[-2]) (pinned) *)\n'
               f'Definition keepdir_guard_le : bool := {"true" if le else "false"}.\n\n')
    dup = find_class(ntree, 'DuplicateNamingStrategy')
    expect('DuplicateNamingStrategy.should_be_applied', stmts(find_func(dup.body, 'should_be_applied')),
           [(True, ['return os.path.exists(os.path.join(local_dir, local_filename))'])])
    base = find_class(ntree, 'NamingStrategy')
    expect('NamingStrategy.should_be_applied', stmts(find_func(base.body, 'should_be_applied')), [(True, ['return True'])])
    for cls in (dflt, keep):
        if [n.name for n in cls.body if isinstance(n, ast.FunctionDef)] != ['apply']:
            raise Refuse(f'{cls.name} defines other methods than apply')
    num = find_class(ntree, 'NumberDuplicateStrategy')
    if class_const(num, 'PATTERN') != ' \\((\\d+)\\)' or [b.id for b in num.bases if isinstance(b, ast.Name)] != ['DuplicateNamingStrategy']:
        raise Refuse('NumberDuplicateStrategy.PATTERN / base class changed')
    bounded = list(NUMDUP_APPLY)
    bounded[5] = ('if indices:\n    taken_indices = set(indices)\n    next_index = min(taken_indices)\n'
                  '    while next_index in taken_indices:\n        next_index += 1')
    nb = expect('NumberDuplicateStrategy.apply', stmts(find_func(num.body, 'apply')), [(False, NUMDUP_APPLY), (True, bounded)])
    out.append('(* NumberDuplicateStrategy.apply computes the lowest free index above the smallest one by walking the taken indices (true)\n'
               '   or by materialising set(range(min, max + 2)) (false: same value, memory proportional to the SPAN of the indices) *)\n'
               f'Definition numdup_bounded : bool := {"true" if nb else "false"}.\n\n')
    if [n.name for n in num.body if isinstance(n, ast.FunctionDef)] != ['apply']:
        raise Refuse('NumberDuplicateStrategy defines other methods than apply')
    expect('chain_strategies', stmts(find_func(ntree.body, 'chain_strategies')), [(True, CHAIN)])
    out.append("(* pinned literally: NumberDuplicateStrategy (PATTERN ' \\((\\d+)\\)', prefix re.match, lowest gap above the smallest index,\n"
               "   f'{filename} ({next_index}){extension}'), DuplicateNamingStrategy.should_be_applied (os.path.exists of the join), chain_strategies *)\n\n")

    # ---- what `\d` matches and int() converts in a str pattern: the Unicode decimal digits of THIS interpreter
    import sys
    import unicodedata
    zeros = [c for c in range(sys.maxunicode + 1) if unicodedata.category(chr(c)) == 'Nd' and unicodedata.digit(chr(c), -1) == 0]
    for z in zeros:
        if any(unicodedata.category(chr(z + k)) != 'Nd' or unicodedata.digit(chr(z + k), -1) != k for k in range(10)):
            raise Refuse(f'decimal digits at U+{z:04X} are not a block of ten consecutive code points')
    nd = sum(1 for c in range(sys.maxunicode + 1) if unicodedata.category(chr(c)) == 'Nd')
    if nd != 10 * len(zeros) or 48 not in zeros:
        raise Refuse('Unicode decimal digits are not exactly the blocks found')
    out.append(f'(* code points of the digit ZERO of every Unicode decimal-digit block (category Nd, unicodedata {unicodedata.unidata_version}):\n'
               '   \\d in a str pattern matches z .. z+9 and int() reads them as 0 .. 9 *)\n'
               f'Definition DIGIT_ZEROS : list N := [{"; ".join(str(z) for z in zeros)}]%N.\n\n')

    # ---- default chain and calculate_download_path
    stree = ast.parse((src / 'aioslsk' / 'shares' / 'manager.py').read_text())
    smc = find_class(stree, 'SharesManager')
    init = find_func(smc.body, '__init__')
    chains = [ast.unparse(n.value) for n in ast.walk(init) if isinstance(n, ast.Assign) and ast.unparse(n.targets[0]) == 'self.naming_strategies']
    codes = {'DefaultNamingStrategy()': 0, 'KeepDirectoryStrategy()': 1, 'NumberDuplicateStrategy()': 2}
    if len(chains) != 1:
        raise Refuse('SharesManager.naming_strategies assignment not found')
    lst = ast.parse(chains[0], mode='eval').body
    if not isinstance(lst, ast.List) or any(ast.unparse(e) not in codes for e in lst.elts):
        raise Refuse(f'SharesManager.naming_strategies is not a list of shipped strategies: {chains[0]}')
    out.append('(* SharesManager.naming_strategies: 0 = Default, 1 = KeepDirectory, 2 = NumberDuplicate *)\n'
               f'Definition DEFAULT_CHAIN_CODES : list N := [{"; ".join(str(codes[ast.unparse(e)]) for e in lst.elts)}]%N.\n\n')
    expect('SharesManager.calculate_download_path', stmts(find_func(smc.body, 'calculate_download_path')),
           [(True, ['download_dir = self.get_download_directory()', 'return chain_strategies(self.naming_strategies, remote_path, download_dir)'])])
    expect('SharesManager.get_download_directory', stmts(find_func(smc.body, 'get_download_directory')),
           [(True, ['download_dir = self._settings.shares.download', 'return os.path.abspath(download_dir)'])])

    # ---- _prepare_download_path
    ttree = ast.parse((src / 'aioslsk' / 'transfer' / 'manager.py').read_text())
    tmc = find_class(ttree, 'TransferManager')
    CALC = 'download_path, file_path = self._shares_manager.calculate_download_path(transfer.remote_path)'
    res = expect('_prepare_download_path', stmts(find_func(tmc.body, '_prepare_download_path')), [
        (True, ["if transfer.local_path is None:\n    " + CALC + "\n    local_path = os.path.join(download_path, file_path)\n"
                "    os.makedirs(download_path, exist_ok=True)\n    with open(local_path, 'ab'):\n        pass\n    transfer.local_path = local_path"] + PREP_TAIL),
        (False, ["if transfer.local_path is None:\n    " + CALC + "\n    transfer.local_path = os.path.join(download_path, file_path)"] + PREP_TAIL),
    ])
    out.append('(* _prepare_download_path: path chosen once (local_path is None); [makedirs + creation of the empty file + local_path set,\n'
               '   all before the first await]; then create_directory (awaited) *)\n'
               f'Definition prepare_reserves : bool := {"true" if res else "false"}.\n')
    return {'NamingGen.v': ''.join(out)}


if __name__ == '__main__':
    import sys
    print(translate(Path(sys.argv[1] if len(sys.argv) > 1 else '/repo/src'))['NamingGen.v'])
