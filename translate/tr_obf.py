"""T3 (obfuscation): protocol/obfuscation.py -> gen/ObfGen.v

Translated (fail-closed): the integer expression of ``rotate_key`` (the only arithmetic of the
obfuscation layer) via translate/pyexpr.py, the constant KEY_SIZE, and the loop constants of
``encode``/``decode`` that the hand model in C01/Model.v takes as parameters:

  OBF_ROT          rot_bits passed by ``encode`` to rotate_key before each block       (31)
  OBF_ROT_DEFAULT  default of the rot_bits parameter                                   (31)
  OBF_TABLE_START / OBF_TABLE_MAX   ``range(START, START - key_amount, -1)`` and the cap
                   ``min(ceil(message_len / KEY_SIZE), MAX)`` in ``decode``             (31, 32)

The statement structure of encode/decode themselves (two loops) is hand-modelled
(obf_encode / obf_decode) and tied by correspondence for all lengths 0..600; here their source
is only matched against the exact statement list the model was written from, so that ANY edit of
these two functions is reported as a broken tie instead of being silently ignored.
"""
import ast
from pathlib import Path
from .pyexpr import ClassCtx, MethodSig, Refuse, Tr, find_func, int_const, HEADER, refuse


def _strip_doc(body):
    return [s for s in body if not (isinstance(s, ast.Expr) and isinstance(s.value, ast.Constant) and isinstance(s.value.value, str))]


def _match(node, pattern: str) -> bool:
    return ast.unparse(node).strip() == pattern


def translate(src: Path) -> dict:
    path = src / 'aioslsk' / 'protocol' / 'obfuscation.py'
    tree = ast.parse(path.read_text())
    key_size = int_const(tree.body, 'KEY_SIZE')
    if key_size != 4:
        raise Refuse(f'KEY_SIZE = {key_size}: the model is written for 4-byte keys')

    # ---- rotate_key
    fn = find_func(tree.body, 'rotate_key')
    args = [a.arg for a in fn.args.args]
    if args != ['key', 'rot_bits'] or len(fn.args.defaults) != 1 or fn.decorator_list:
        raise Refuse(f'rotate_key signature {args}')
    dflt = fn.args.defaults[0]
    if not (isinstance(dflt, ast.Constant) and isinstance(dflt.value, int) and not isinstance(dflt.value, bool)):
        refuse(dflt, 'rotate_key default')
    body = _strip_doc(fn.body)
    if len(body) < 2:
        raise Refuse('rotate_key body too short')
    first, last = body[0], body[-1]
    # key_i = int.from_bytes(key, 'little')
    if not (isinstance(first, ast.Assign) and len(first.targets) == 1 and isinstance(first.targets[0], ast.Name)
            and _match(first.value, "int.from_bytes(key, 'little')")):
        refuse(first, 'rotate_key: first statement must be <name> = int.from_bytes(key, \'little\')')
    int_name = first.targets[0].id
    # return <name>.to_bytes(4, 'little')
    if not (isinstance(last, ast.Return) and isinstance(last.value, ast.Call) and isinstance(last.value.func, ast.Attribute)
            and last.value.func.attr == 'to_bytes' and isinstance(last.value.func.value, ast.Name)
            and [ast.unparse(a) for a in last.value.args] == ['4', "'little'"] and not last.value.keywords):
        refuse(last, 'rotate_key: last statement must be return <name>.to_bytes(4, \'little\')')
    ret_name = last.value.func.value.id
    # middle: plain integer assignments, translated by pyexpr; the function returns ret_name
    mid = body[1:-1]
    for s in mid:
        if not (isinstance(s, ast.Assign) and len(s.targets) == 1 and isinstance(s.targets[0], ast.Name)):
            refuse(s, 'rotate_key: only simple integer assignments are accepted')
        if s.targets[0].id in ('key',):
            refuse(s, 'rotate_key: assignment to the bytes parameter')
    pseudo = ast.FunctionDef(
        name='rotr32',
        args=ast.arguments(posonlyargs=[], args=[ast.arg(arg='self'), ast.arg(arg=int_name), ast.arg(arg='rot_bits')],
                           kwonlyargs=[], kw_defaults=[], defaults=[]),
        body=list(mid) + [ast.Return(value=ast.Name(id=ret_name, ctx=ast.Load()))], decorator_list=[])
    ast.fix_missing_locations(pseudo)
    ctx = ClassCtx(record='unit', ctor='tt', fields=[], consts={})
    sig = MethodSig('rotr32', [(int_name, 'int'), ('rot_bits', 'int')], 'int', coq_name='rotr32')
    tr = Tr(ctx, sig)
    text = tr.block(list(pseudo.body))       # "(self, e)" possibly under lets
    if sig.uses_clock:
        raise Refuse('rotate_key reads the clock')
    out = [HEADER.format(src='src/aioslsk/protocol/obfuscation.py')]
    out.append(f'Definition KEY_SIZE : Z := {key_size}.\n')
    out.append(f'Definition OBF_ROT_DEFAULT : Z := {dflt.value}.\n\n')
    out.append('(* rotate_key on the integer value of the key (int.from_bytes(key, \'little\') ... .to_bytes(4, \'little\')) *)\n')
    out.append(f'Definition rotr32 (l_{int_name} l_rot_bits : Z) : Z :=\n snd (let self := tt in {text}).\n\n')

    # ---- encode / decode: exact statement lists the hand model was written from
    enc = find_func(tree.body, 'encode')
    dec = find_func(tree.body, 'decode')
    enc_src = [ast.unparse(s) for s in _strip_doc(enc.body)]
    dec_src = [ast.unparse(s) for s in _strip_doc(dec.body)]
    enc_expect_shape = [
        'if key is None:\n    key = generate_key()',
        'orig_key = bytes(key)',
        'enc_message = bytearray()',
        'for idx, byt in enumerate(data):\n    if idx % KEY_SIZE == 0:\n        key = rotate_key(key, rot_bits={ROT})\n    enc_message.append(key[idx % KEY_SIZE] ^ byt)',
        'return orig_key + bytes(enc_message)',
    ]
    dec_expect_shape = [
        'key = data[:KEY_SIZE]',
        'message = bytearray(data[KEY_SIZE:])',
        'message_len = len(message)',
        'key_amount = min(ceil(message_len / KEY_SIZE), {MAX})',
        'full_key = bytearray()',
        'for rot_bits in range({START}, {START} - key_amount, -1):\n    full_key.extend(rotate_key(key, rot_bits=rot_bits))',
        'full_key_len = len(full_key)',
        'for idx in range(message_len):\n    message[idx] ^= full_key[idx % full_key_len]',
        'return bytes(message)',
    ]
    rot = _extract_int(enc_src, enc_expect_shape, 'encode', ['ROT'])
    tab = _extract_int(dec_src, dec_expect_shape, 'decode', ['MAX', 'START'])
    if [a.arg for a in enc.args.args] != ['data', 'key'] or [a.arg for a in dec.args.args] != ['data']:
        raise Refuse('encode/decode signature changed')
    out.append('(* loop constants of encode / decode (the loops themselves: C01/Model.v obf_encode / obf_decode) *)\n')
    out.append(f'Definition OBF_ROT : Z := {rot["ROT"]}.\n')
    out.append(f'Definition OBF_TABLE_START : Z := {tab["START"]}.\n')
    out.append(f'Definition OBF_TABLE_MAX : Z := {tab["MAX"]}.\n')
    return {'ObfGen.v': ''.join(out)}


def _extract_int(actual, shape, what, names):
    """Match statement texts against templates with {NAME} integer holes; all occurrences of a
    hole must carry the same literal."""
    import re
    if len(actual) != len(shape):
        raise Refuse(f'{what}: {len(actual)} statements, the model was written from {len(shape)}: {actual}')
    found = {}
    for a, s in zip(actual, shape):
        pat = re.escape(s)
        for n in names:
            pat = pat.replace(re.escape('{' + n + '}'), f'(?P<{n}__X>\\d+)')
        # repeated holes: rename successive groups
        cnt = {}

        def ren(m):
            n = m.group(1)
            cnt[n] = cnt.get(n, 0) + 1
            return f'(?P<{n}__{cnt[n]}>'
        pat = re.sub(r'\(\?P<(\w+?)__X>', ren, pat)
        m = re.fullmatch(pat, a)
        if not m:
            raise Refuse(f'{what}: statement changed: {a!r} (expected shape {s!r})')
        for g, v in m.groupdict().items():
            n = g.split('__')[0]
            if n in found and found[n] != int(v):
                raise Refuse(f'{what}: inconsistent constant {n}: {found[n]} vs {v}')
            found[n] = int(v)
    for n in names:
        if n not in found:
            raise Refuse(f'{what}: constant {n} not found')
    return found


if __name__ == '__main__':
    import sys
    print(translate(Path(sys.argv[1] if len(sys.argv) > 1 else '/repo/src'))['ObfGen.v'])
