"""Shares / entitlement decisions: what is declarative or straight-line in shares/manager.py,
shares/model.py, transfer/manager.py, search/manager.py is REGENERATED into gen/SharesGen.v (the model
of C07/C08 is built on these definitions, so a changed comparison / order / argument changes the
statements being proved); the procedural rest that the hand model abstracts is SHAPE-PINNED by a
normalised-AST fingerprint (docstrings and logging calls removed): any edit there is a broken tie.

Regenerated
  mode                     DirectoryShareMode members
  gen_dir_locked           decision table of SharesManager.is_directory_locked
  (is_item_locked must delegate to is_directory_locked(item.shared_directory, username))
  areason, reason_order, gen_first_reason, should_change_is_neq     TransferManager._evaluate_aborted_state
  parents_sorted_by_length, parent_pick      _get_parent_directories + the index used by add/remove_shared_directory
  include_sets_intersected, wildcard_sets_united, cap_ge, phrase_lowered     SharesManager.query
  queue_/request_ blocked_check_first, *_lookup_with_user, add_upload_lookup_with_user,
  cache_lookup_checks_lock, search_gate_first          which checks exist, in which order, with which arguments
Refuses (raises) on any shape outside the ones listed in the code below.
"""
import ast
import hashlib
from pathlib import Path


class Refuse(Exception):
    pass


def _strip(node):
    """Remove docstrings and logger.* calls (not decision relevant) from a function, in place."""
    for n in ast.walk(node):
        body = getattr(n, 'body', None)
        if isinstance(body, list):
            new = []
            for st in body:
                if isinstance(st, ast.Expr) and isinstance(st.value, ast.Constant) and isinstance(st.value.value, str):
                    continue
                if isinstance(st, ast.Expr) and isinstance(st.value, ast.Call) and ast.unparse(st.value.func).startswith('logger.'):
                    continue
                new.append(st)
            n.body = new or [ast.Pass()]
    return node


def _func(tree, name, cls=None):
    scope = tree
    if cls:
        scope = next((n for n in ast.walk(tree) if isinstance(n, ast.ClassDef) and n.name == cls), None)
        if scope is None:
            raise Refuse(f'class {cls} not found')
    for n in ast.walk(scope):
        if isinstance(n, (ast.FunctionDef, ast.AsyncFunctionDef)) and n.name == name:
            return _strip(n)
    raise Refuse(f'function {name} not found')


def fingerprint(fn) -> str:
    return hashlib.sha256(ast.dump(fn, include_attributes=False).encode()).hexdigest()[:16]


# normalised-AST fingerprints of the functions the hand model abstracts (docstrings / logging stripped)
PINS = {
    ('shares/manager.py', None, 'scan_directory'): '',
    ('shares/manager.py', 'SharesManager', 'scan_directory_files'): '',
    ('shares/manager.py', 'SharesManager', 'add_shared_directory'): '',
    ('shares/manager.py', 'SharesManager', 'remove_shared_directory'): '',
    ('shares/manager.py', 'SharesManager', '_move_items'): '',
    ('shares/manager.py', 'SharesManager', 'update_shared_directory'): '',
    ('shares/manager.py', 'SharesManager', 'load_from_settings'): '',
    ('shares/manager.py', 'SharesManager', 'rebuild_term_map'): '',
    ('shares/manager.py', 'SharesManager', '_build_term_map'): '',
    ('shares/manager.py', 'SharesManager', '_add_item_to_term_map'): '',
    ('shares/manager.py', 'SharesManager', '_cleanup_term_map'): '',
    ('shares/manager.py', 'SharesManager', 'get_shared_directory'): '',
    ('shares/manager.py', 'SharesManager', 'get_shared_item_cache'): '',
    ('shares/manager.py', 'SharesManager', 'get_shared_item'): '',
    ('shares/manager.py', 'SharesManager', 'find_shared_item'): '',
    ('shares/manager.py', 'SharesManager', 'find_shared_item_cache'): '',
    ('shares/manager.py', 'SharesManager', 'get_stats'): '',
    ('shares/manager.py', 'SharesManager', 'query'): '',
    ('shares/manager.py', 'SharesManager', 'get_shared_directories_for_user'): '',
    ('shares/manager.py', 'SharesManager', 'create_shares_reply'): '',
    ('shares/manager.py', 'SharesManager', 'create_directory_reply'): '',
    ('shares/manager.py', 'SharesManager', '_get_child_directories'): '',
    ('shares/model.py', 'SharedDirectory', 'is_parent_of'): '',
    ('shares/model.py', 'SharedDirectory', 'is_child_of'): '',
    ('shares/model.py', 'SharedDirectory', 'get_items_for_directory'): '',
    ('shares/model.py', 'SharedDirectory', 'get_item_by_remote_path'): '',
    ('shares/model.py', 'SharedItem', 'get_absolute_path'): '',
    ('shares/model.py', 'SharedItem', 'get_remote_path'): '',
    ('shares/model.py', 'SharedItem', 'get_remote_directory_path'): '',
    ('shares/model.py', 'SharedItem', 'get_query_path'): '',
    ('transfer/manager.py', 'TransferManager', 'manage_shares_changed'): '',
    ('transfer/manager.py', 'TransferManager', '_management_job'): '',
    ('transfer/manager.py', 'TransferManager', 'request_management_cycle'): '',
    ('transfer/manager.py', 'TransferManager', '_on_peer_transfer_queue'): '',
    ('transfer/manager.py', 'TransferManager', '_on_peer_transfer_request'): '',
    ('transfer/manager.py', 'TransferManager', 'find_transfer'): '',
    ('search/manager.py', 'SearchManager', '_query_shares_and_reply'): '',
    ('peer.py', 'PeerManager', '_on_peer_shares_request'): '',
    ('peer.py', 'PeerManager', '_on_peer_directory_contents_req'): '',
    ('settings.py', 'UsersSettings', 'is_blocked'): '',
}
# PINNED VALUES (filled in below; `python -m translate.tr_shares --pins <src>` prints the current ones)
PINNED = {
    "shares/model.py:SharedDirectory:<fields>": "7a34ed63770a061a",
    "shares/model.py:SharedItem:<fields>": "8714d012fb814bea",
    "shares/manager.py::scan_directory": "078262426961804c",
    "shares/manager.py:SharesManager:scan_directory_files": "7855eeca14d55849",
    "shares/manager.py:SharesManager:add_shared_directory": "960fe55b58fd5416",
    "shares/manager.py:SharesManager:remove_shared_directory": "f0a66dfaccc9d2d7",
    "shares/manager.py:SharesManager:_move_items": "911d1b2a9cadd82a",
    "shares/manager.py:SharesManager:update_shared_directory": "d08bd0563a0ba7c4",
    "shares/manager.py:SharesManager:load_from_settings": "bd170cedee218822",
    "shares/manager.py:SharesManager:rebuild_term_map": "1f5434051d761149",
    "shares/manager.py:SharesManager:_build_term_map": "9e64ed31ae6fd85e",
    "shares/manager.py:SharesManager:_add_item_to_term_map": "24f9657d1172fedc",
    "shares/manager.py:SharesManager:_cleanup_term_map": "adaa994f70f66690",
    "shares/manager.py:SharesManager:get_shared_directory": "29a9eb2ce1730189",
    "shares/manager.py:SharesManager:get_shared_item_cache": "f581d4193ffdf524",
    "shares/manager.py:SharesManager:get_shared_item": "bdaa20c812d5a9de",
    "shares/manager.py:SharesManager:find_shared_item": "419653bec49eace7",
    "shares/manager.py:SharesManager:find_shared_item_cache": "81821e857cac8854",
    "shares/manager.py:SharesManager:get_stats": "cb8aedd8e6883b6e",
    "shares/manager.py:SharesManager:query": "489b19c511ad3604",
    "shares/manager.py:SharesManager:get_shared_directories_for_user": "b2e3911d408202f7",
    "shares/manager.py:SharesManager:create_shares_reply": "6a30ec88c2cd00ec",
    "shares/manager.py:SharesManager:create_directory_reply": "74404b9ae2541657",
    "shares/manager.py:SharesManager:_get_child_directories": "17d74dd34bae4e56",
    "shares/model.py:SharedDirectory:is_parent_of": "ad8e75ffc63a3958",
    "shares/model.py:SharedDirectory:is_child_of": "2ab80471cc286060",
    "shares/model.py:SharedDirectory:get_items_for_directory": "0c4f75bbdfccf2ed",
    "shares/model.py:SharedDirectory:get_item_by_remote_path": "8e508d201892b163",
    "shares/model.py:SharedItem:get_absolute_path": "b0922fbf1df1a1a7",
    "shares/model.py:SharedItem:get_remote_path": "17f4a86e3fefb397",
    "shares/model.py:SharedItem:get_remote_directory_path": "8bf3efbbae59fb7c",
    "shares/model.py:SharedItem:get_query_path": "2cea1b9759e8be9e",
    "transfer/manager.py:TransferManager:manage_shares_changed": "cf96df5c70a068dc",
    "transfer/manager.py:TransferManager:_management_job": "511c0bd20e6c805d",
    "transfer/manager.py:TransferManager:request_management_cycle": "68d2f5e1543226b0",
    "transfer/manager.py:TransferManager:_on_peer_transfer_queue": "84679e966e5c27d4",
    "transfer/manager.py:TransferManager:_on_peer_transfer_request": "42dacca75daae0e6",
    "transfer/manager.py:TransferManager:find_transfer": "e50bcb0db9d0f0cb",
    "search/manager.py:SearchManager:_query_shares_and_reply": "5ba0ea7d4528653b",
    "peer.py:PeerManager:_on_peer_shares_request": "0ca30368de45999d",
    "peer.py:PeerManager:_on_peer_directory_contents_req": "6fcd0806655f4a80",
    "settings.py:UsersSettings:is_blocked": "242b5fbfe177ab96"
}


def current_pins(src: Path) -> dict:
    out = {}
    trees = {}
    for (f, cls, name) in PINS:
        if f not in trees:
            trees[f] = ast.parse((src / 'aioslsk' / f).read_text())
        out[f'{f}:{cls or ""}:{name}'] = fingerprint(_func(trees[f], name, cls))
    return out


# HELPERS the modelled behaviour relies on although they are outside the anchored functions: event delivery, the background
# task loop, message classes consumed / emitted, state transitions used by the cycle, settings classes, the settings watcher,
# reason strings, exceptions caught.  (file, class or None, function or '<class>' for the whole class body)
HELPERS = [
    ('events.py', 'EventBus', '<class>'),
    ('events.py', None, 'on_message'), ('events.py', None, 'build_message_map'),
    ('events.py', 'SharedDirectoryChangeEvent', '<class>'), ('events.py', 'FriendListChangedEvent', '<class>'),
    ('events.py', 'BlockListChangedEvent', '<class>'), ('events.py', 'ScanCompleteEvent', '<class>'),
    ('tasks.py', 'BackgroundTask', '<class>'),
    ('exceptions.py', 'FileError', '<class>'), ('exceptions.py', 'FileNotFoundError', '<class>'),
    ('exceptions.py', 'FileNotSharedError', '<class>'), ('exceptions.py', 'SharedDirectoryError', '<class>'),
    ('settings.py', 'UsersSettings', '<class>'), ('settings.py', 'SharesSettings', '<class>'),
    ('settings.py', 'SharedDirectorySettingEntry', '<class>'), ('settings.py', 'SearchReceiveSettings', '<class>'),
    ('settings.py', None, 'translate_blocked_users'),
    ('user/model.py', 'BlockingFlag', '<class>'),
    ('user/manager.py', 'UserManager', '_management_job'),
    ('shares/utils.py', None, 'normalize_remote_path'), ('shares/utils.py', None, 'create_term_pattern'),
    ('shares/utils.py', None, 'convert_item_to_file_data'), ('shares/utils.py', None, 'convert_items_to_file_data'),
    ('shares/model.py', 'DirectoryShareMode', '<class>'), ('shares/model.py', 'SharedItem', '__getstate__'),
    ('shares/cache.py', 'SharesShelveCache', '<class>'), ('shares/manager.py', 'SharesManager', 'read_cache'), ('shares/manager.py', 'SharesManager', 'write_cache'),
    ('shares/manager.py', 'SharesManager', 'load_data'),
    ('shares/model.py', 'SharedItem', 'get_remote_directory_path_parts'), ('shares/model.py', 'SharedDirectory', 'get_remote_path'),
    ('search/model.py', 'SearchQuery', '<class>'),
    ('search/manager.py', 'SearchManager', '_on_excluded_search_phrases'), ('search/manager.py', 'SearchManager', '_on_file_search'),
    ('search/manager.py', 'SearchManager', '_on_server_search_request'), ('search/manager.py', 'SearchManager', '_on_distributed_search_request'),
    ('transfer/model.py', 'FailReason', '<class>'), ('transfer/model.py', 'AbortReason', '<class>'),
    ('transfer/model.py', 'TransferDirection', '<class>'),
    ('transfer/model.py', 'Transfer', '__eq__'), ('transfer/model.py', 'Transfer', 'is_upload'),
    ('transfer/model.py', 'Transfer', 'cancel_tasks'), ('transfer/model.py', 'Transfer', 'transition'),
    ('transfer/state.py', None, '_with_state_lock'), ('transfer/state.py', 'TransferState', 'init_from_state'),
    ('transfer/state.py', 'VirginState', 'queue'), ('transfer/state.py', 'QueuedState', 'abort'), ('transfer/state.py', 'QueuedState', 'fail'),
    ('transfer/state.py', 'InitializingState', 'abort'), ('transfer/state.py', 'InitializingState', 'fail'), ('transfer/state.py', 'InitializingState', 'queue'),
    ('transfer/state.py', 'UploadingState', 'abort'), ('transfer/state.py', 'UploadingState', 'fail'),
    ('transfer/state.py', 'IncompleteState', 'abort'), ('transfer/state.py', 'IncompleteState', 'fail'), ('transfer/state.py', 'IncompleteState', 'queue'),
    ('transfer/state.py', 'PausedState', 'abort'), ('transfer/state.py', 'PausedState', 'fail'), ('transfer/state.py', 'PausedState', 'queue'),
    ('transfer/state.py', 'AbortedState', 'queue'), ('transfer/state.py', 'FailedState', 'queue'), ('transfer/state.py', 'CompleteState', 'queue'),
    ('transfer/manager.py', 'TransferManager', 'register_listeners'), ('transfer/manager.py', 'TransferManager', '_request_shares_cycle'),
    ('transfer/manager.py', 'TransferManager', 'add'), ('transfer/manager.py', 'TransferManager', 'abort'),
    ('transfer/manager.py', 'TransferManager', 'remove'), ('transfer/manager.py', '_RequestFlag', '<class>'),
    ('protocol/messages.py', 'PeerTransferQueue', '<class>'), ('protocol/messages.py', 'PeerTransferQueueFailed', '<class>'),
    ('protocol/messages.py', 'PeerTransferRequest', '<class>'), ('protocol/messages.py', 'PeerTransferReply', '<class>'),
    ('protocol/messages.py', 'PeerSearchReply', '<class>'), ('protocol/messages.py', 'FileSearch', '<class>'),
    ('protocol/messages.py', 'ExcludedSearchPhrases', '<class>'), ('protocol/messages.py', 'PeerSharesRequest', '<class>'),
    ('protocol/messages.py', 'PeerSharesReply', '<class>'), ('protocol/messages.py', 'PeerDirectoryContentsRequest', '<class>'),
    ('protocol/messages.py', 'PeerDirectoryContentsReply', '<class>'), ('protocol/messages.py', 'SharedFoldersFiles', '<class>'),
    ('protocol/primitives.py', 'FileData', '<class>'), ('protocol/primitives.py', 'DirectoryData', '<class>'),
]
HELPER_PINNED = {
    "events.py:EventBus:<class>": "b371fcbed0a9560c",
    "events.py::on_message": "5173700ab2c456a4",
    "events.py::build_message_map": "d65dbd546a64746a",
    "events.py:SharedDirectoryChangeEvent:<class>": "f719a821b5b85e3f",
    "events.py:FriendListChangedEvent:<class>": "8363980e139e39e5",
    "events.py:BlockListChangedEvent:<class>": "0a693be26867629f",
    "events.py:ScanCompleteEvent:<class>": "8deaf6ea4a67e7d7",
    "tasks.py:BackgroundTask:<class>": "660c782121a8d911",
    "exceptions.py:FileError:<class>": "616b860b42052f46",
    "exceptions.py:FileNotFoundError:<class>": "541c3c2d03caaebd",
    "exceptions.py:FileNotSharedError:<class>": "7682221b88a7c980",
    "exceptions.py:SharedDirectoryError:<class>": "bacc20956ab9a1ce",
    "settings.py:UsersSettings:<class>": "9d41ae5a665b0216",
    "settings.py:SharesSettings:<class>": "5334a3a53df608d1",
    "settings.py:SharedDirectorySettingEntry:<class>": "d175eca20478dea0",
    "settings.py:SearchReceiveSettings:<class>": "5de2b37b5a5ea976",
    "settings.py::translate_blocked_users": "f228c5be9bc7e473",
    "user/model.py:BlockingFlag:<class>": "0df64ab028aaf8c1",
    "user/manager.py:UserManager:_management_job": "49c6db81fb26983f",
    "shares/utils.py::normalize_remote_path": "40bb3eef82a44659",
    "shares/utils.py::create_term_pattern": "b596b10506ef7080",
    "shares/utils.py::convert_item_to_file_data": "a23b05b9cbcb7961",
    "shares/utils.py::convert_items_to_file_data": "ca3d100ac4e4ee7c",
    "shares/model.py:DirectoryShareMode:<class>": "f5ed6402abd7d089",
    "shares/model.py:SharedItem:__getstate__": "d85c0e36c66a20ca",
    "shares/cache.py:SharesShelveCache:<class>": "bd77cebe18a94631",
    "shares/manager.py:SharesManager:read_cache": "fad0a9318b445eac",
    "shares/manager.py:SharesManager:write_cache": "42e5955bd4ae84f6",
    "shares/manager.py:SharesManager:load_data": "3b918376385eb4bd",
    "shares/model.py:SharedItem:get_remote_directory_path_parts": "afe1c09e82e87919",
    "shares/model.py:SharedDirectory:get_remote_path": "5a7565009756e275",
    "search/model.py:SearchQuery:<class>": "ec8a4b7118ee93a0",
    "search/manager.py:SearchManager:_on_excluded_search_phrases": "3e7101f39275ff6c",
    "search/manager.py:SearchManager:_on_file_search": "aa02a06cf4fa3ae7",
    "search/manager.py:SearchManager:_on_server_search_request": "6b50a889ab8c6fde",
    "search/manager.py:SearchManager:_on_distributed_search_request": "b2bea97cfc375631",
    "transfer/model.py:FailReason:<class>": "c5460732f494b95d",
    "transfer/model.py:AbortReason:<class>": "6f4a95d2a498a268",
    "transfer/model.py:TransferDirection:<class>": "583105cb357b85b0",
    "transfer/model.py:Transfer:__eq__": "7739672f9d110acd",
    "transfer/model.py:Transfer:is_upload": "70facbf38e48d532",
    "transfer/model.py:Transfer:cancel_tasks": "2ade513fde56d714",
    "transfer/model.py:Transfer:transition": "28ea3f099a8f979e",
    "transfer/state.py::_with_state_lock": "0b1cc35578005e6c",
    "transfer/state.py:TransferState:init_from_state": "fc7210006e11dcd2",
    "transfer/state.py:VirginState:queue": "7b896d589c6e0c5f",
    "transfer/state.py:QueuedState:abort": "57e4deb7033150a2",
    "transfer/state.py:QueuedState:fail": "64c5aac39982dd30",
    "transfer/state.py:InitializingState:abort": "57e4deb7033150a2",
    "transfer/state.py:InitializingState:fail": "64c5aac39982dd30",
    "transfer/state.py:InitializingState:queue": "fbbe751e2e2f8959",
    "transfer/state.py:UploadingState:abort": "23ffa03c8699bd24",
    "transfer/state.py:UploadingState:fail": "8d34fbc420458515",
    "transfer/state.py:IncompleteState:abort": "57e4deb7033150a2",
    "transfer/state.py:IncompleteState:fail": "64c5aac39982dd30",
    "transfer/state.py:IncompleteState:queue": "71e81cd7b15fb171",
    "transfer/state.py:PausedState:abort": "57e4deb7033150a2",
    "transfer/state.py:PausedState:fail": "64c5aac39982dd30",
    "transfer/state.py:PausedState:queue": "71e81cd7b15fb171",
    "transfer/state.py:AbortedState:queue": "c832f81c7bb7777b",
    "transfer/state.py:FailedState:queue": "038876b360ff11bb",
    "transfer/state.py:CompleteState:queue": "04db928e5f2874c3",
    "transfer/manager.py:TransferManager:register_listeners": "16e99ff5dd0a6c8a",
    "transfer/manager.py:TransferManager:_request_shares_cycle": "c0ba804f97c4d6fb",
    "transfer/manager.py:TransferManager:add": "d358a291175a4632",
    "transfer/manager.py:TransferManager:abort": "9e1e83da6477f961",
    "transfer/manager.py:TransferManager:remove": "9922282ff99de931",
    "transfer/manager.py:_RequestFlag:<class>": "6dfa512e9687fe7c",
    "protocol/messages.py:PeerTransferQueue:<class>": "88766ec586d797b3",
    "protocol/messages.py:PeerTransferQueueFailed:<class>": "3bd7d2ae62f985a8",
    "protocol/messages.py:PeerTransferRequest:<class>": "c05c8cca6031fa01",
    "protocol/messages.py:PeerTransferReply:<class>": "ec2cd6847de496ac",
    "protocol/messages.py:PeerSearchReply:<class>": "d1948ae8d50e426d",
    "protocol/messages.py:FileSearch:<class>": "191890dc592aba60",
    "protocol/messages.py:ExcludedSearchPhrases:<class>": "533e684e5e38f6b5",
    "protocol/messages.py:PeerSharesRequest:<class>": "2027c269ba96a34e",
    "protocol/messages.py:PeerSharesReply:<class>": "aacae5ded1a65110",
    "protocol/messages.py:PeerDirectoryContentsRequest:<class>": "629533ccbd6947ee",
    "protocol/messages.py:PeerDirectoryContentsReply:<class>": "430e0a16e1f593ba",
    "protocol/messages.py:SharedFoldersFiles:<class>": "df490cc96d8c578b",
    "protocol/primitives.py:FileData:<class>": "f6ea2fca45251379",
    "protocol/primitives.py:DirectoryData:<class>": "9bb69884897f4567"
}


def _class(tree, name):
    c = next((n for n in ast.walk(tree) if isinstance(n, ast.ClassDef) and n.name == name), None)
    if c is None:
        raise Refuse(f'class {name} not found')
    return _strip(c)


def helper_pins(src: Path) -> dict:
    out, trees = {}, {}
    for (f, cls, name) in HELPERS:
        if f not in trees:
            trees[f] = ast.parse((src / 'aioslsk' / f).read_text())
        node = _class(trees[f], cls) if name == '<class>' else _func(trees[f], name, cls)
        out[f'{f}:{cls or ""}:{name}'] = fingerprint(node)
    return out


def field_pins(src: Path) -> dict:
    """dataclass decorator + field declarations (which fields take part in eq / hash) of SharedDirectory and SharedItem"""
    tree = ast.parse((src / 'aioslsk' / 'shares' / 'model.py').read_text())
    out = {}
    for cls in ('SharedDirectory', 'SharedItem'):
        c = next((n for n in ast.walk(tree) if isinstance(n, ast.ClassDef) and n.name == cls), None)
        if c is None:
            raise Refuse(f'class {cls} not found')
        text = '|'.join([ast.unparse(d) for d in c.decorator_list] + [ast.unparse(st) for st in c.body if isinstance(st, ast.AnnAssign)])
        out[f'shares/model.py:{cls}:<fields>'] = hashlib.sha256(text.encode()).hexdigest()[:16]
    return out


def _calls(fn, attr):
    return [n for n in ast.walk(fn) if isinstance(n, ast.Call) and isinstance(n.func, ast.Attribute) and n.func.attr == attr]


def translate(src: Path) -> dict:
    b = lambda x: 'true' if x else 'false'
    shm = ast.parse((src / 'aioslsk' / 'shares' / 'manager.py').read_text())
    shmod = ast.parse((src / 'aioslsk' / 'shares' / 'model.py').read_text())
    trm = ast.parse((src / 'aioslsk' / 'transfer' / 'manager.py').read_text())
    sem = ast.parse((src / 'aioslsk' / 'search' / 'manager.py').read_text())

    # ---- DirectoryShareMode
    enum = next(n for n in ast.walk(shmod) if isinstance(n, ast.ClassDef) and n.name == 'DirectoryShareMode')
    members = [ast.unparse(st.targets[0]) for st in enum.body if isinstance(st, ast.Assign)]
    if members != ['EVERYONE', 'FRIENDS', 'USERS']:
        raise Refuse(f'DirectoryShareMode members changed: {members}')
    coq_mode = {'EVERYONE': 'Everyone', 'FRIENDS': 'Friends', 'USERS': 'Users'}

    # ---- is_directory_locked: if/elif chain on directory.share_mode == DirectoryShareMode.X returning `username not in <set>`
    f = _func(shm, 'is_directory_locked', 'SharesManager')
    if [a.arg for a in f.args.args] != ['self', 'directory', 'username']:
        raise Refuse('is_directory_locked signature')
    arms = {}
    SETS = {'self._settings.users.friends': 'negb is_friend', 'directory.users': 'negb in_users'}

    def arm_value(st):
        if not isinstance(st, ast.Return):
            raise Refuse('is_directory_locked: arm is not a return')
        v = st.value
        if isinstance(v, ast.Constant) and isinstance(v.value, bool):
            return b(v.value)
        if isinstance(v, ast.Compare) and len(v.ops) == 1 and ast.unparse(v.left) == 'username' and ast.unparse(v.comparators[0]) in SETS:
            base = SETS[ast.unparse(v.comparators[0])]
            if isinstance(v.ops[0], ast.NotIn):
                return base
            if isinstance(v.ops[0], ast.In):
                return base.replace('negb ', '')
        raise Refuse('is_directory_locked: unexpected return ' + ast.unparse(st))

    if len(f.body) != 2 or not isinstance(f.body[0], ast.If) or not isinstance(f.body[1], ast.Return):
        raise Refuse('is_directory_locked: expected an if/elif chain followed by a return')
    st = f.body[0]
    while True:
        t = st.test
        if not (isinstance(t, ast.Compare) and len(t.ops) == 1 and isinstance(t.ops[0], ast.Eq)
                and ast.unparse(t.left) == 'directory.share_mode' and ast.unparse(t.comparators[0]).startswith('DirectoryShareMode.')):
            raise Refuse('is_directory_locked: unexpected test ' + ast.unparse(t))
        m = ast.unparse(t.comparators[0]).split('.')[1]
        if m not in coq_mode or m in arms or len(st.body) != 1:
            raise Refuse('is_directory_locked: arm ' + m)
        arms[m] = arm_value(st.body[0])
        if len(st.orelse) == 1 and isinstance(st.orelse[0], ast.If):
            st = st.orelse[0]
        elif not st.orelse:
            break
        else:
            raise Refuse('is_directory_locked: unexpected else branch')
    default = arm_value(f.body[1])
    dl = ['Definition gen_dir_locked (m : mode) (is_friend in_users : bool) : bool :=\n  match m with\n']
    for m in members:
        dl.append(f'  | {coq_mode[m]} => {arms.get(m, default)}\n')
    dl.append('  end.\n')

    f = _func(shm, 'is_item_locked', 'SharesManager')
    if ast.unparse(f.body[0]) != 'return self.is_directory_locked(item.shared_directory, username)' or len(f.body) != 1:
        raise Refuse('is_item_locked no longer delegates to is_directory_locked(item.shared_directory, username)')

    # ---- _get_parent_directories and its users
    f = _func(shm, '_get_parent_directories', 'SharesManager')
    LC = '[directory for directory in self._shared_directories if directory != shared_directory and directory.is_parent_of(shared_directory)]'
    body = [ast.unparse(st) for st in f.body]
    if body == ['parent_dirs = ' + LC, 'return sorted(parent_dirs, key=lambda d: len(d.absolute_path))'] or \
            body == [f'return sorted({LC}, key=lambda d: len(d.absolute_path))']:
        parents_sorted = True
    elif body in (['parent_dirs = ' + LC, 'return parent_dirs'], ['return ' + LC]):
        parents_sorted = False          # registration order
    else:
        raise Refuse('_get_parent_directories: ' + ' ; '.join(body))
    picks = set()
    for name in ('add_shared_directory', 'remove_shared_directory'):
        fn = _func(shm, name, 'SharesManager')
        got = [ast.unparse(n.value) for n in ast.walk(fn) if isinstance(n, ast.Assign) and ast.unparse(n.targets[0]) == 'parent']
        if got not in (['parents[-1]'], ['parents[0]']):
            raise Refuse(f'{name}: parent selection changed: {got}')
        picks.add(got[0])
    if len(picks) != 1:
        raise Refuse('add/remove_shared_directory pick different parents')
    pick_last = picks == {'parents[-1]'}

    # ---- query: set operators, cap comparison, phrase comparison
    f = _func(shm, 'query', 'SharesManager')
    aug = {ast.unparse(n.target): n for n in ast.walk(f) if isinstance(n, ast.AugAssign)}
    if set(aug) != {'found_items', 'wildcard_items'}:
        raise Refuse(f'query: augmented assignments changed: {sorted(aug)}')

    def setop(n):
        if isinstance(n.op, ast.BitAnd):
            return True
        if isinstance(n.op, ast.BitOr):
            return False
        raise Refuse('query: set operator ' + ast.unparse(n))
    include_and = setop(aug['found_items'])
    wildcard_or = not setop(aug['wildcard_items'])
    caps = [n for n in ast.walk(f) if isinstance(n, ast.Compare) and ast.unparse(n.left) == 'len(to_keep)']
    if len(caps) != 1 or ast.unparse(caps[0].comparators[0]) != 'self._settings.searches.receive.max_results':
        raise Refuse('query: cap test changed')
    if isinstance(caps[0].ops[0], ast.GtE):
        cap_ge = True
    elif isinstance(caps[0].ops[0], ast.Gt):
        cap_ge = False
    else:
        raise Refuse('query: cap operator')
    phr = [ast.unparse(n) for n in ast.walk(f) if isinstance(n, ast.Compare) and 'excl_phrase' in ast.unparse(n.left)]
    if phr == ['excl_phrase.lower() in found_item.get_query_path().lower()']:
        phrase_lowered = True
    elif phr == ['excl_phrase in found_item.get_query_path().lower()']:
        phrase_lowered = False
    else:
        raise Refuse(f'query: phrase test changed: {phr}')

    # ---- _evaluate_aborted_state
    f = _func(trm, '_evaluate_aborted_state', 'TransferManager')
    inner = {n.name: ast.unparse(n.body[-1]) for n in f.body if isinstance(n, ast.FunctionDef)}
    want = {'_is_abort_requested': 'return transfer.abort_reason == AbortReason.REQUESTED',
            '_is_blocked': 'return self._settings.users.is_blocked(transfer.username, BlockingFlag.UPLOADS)',
            '_is_not_shared': 'return not bool(self._shares_manager.find_shared_item_cache(transfer.remote_path, transfer.username))'}
    if inner != want:
        raise Refuse(f'_evaluate_aborted_state: conditions changed: {inner}')
    cond = next((n for n in f.body if isinstance(n, ast.Assign) and ast.unparse(n.targets[0]) == 'conditions'), None)
    if cond is None or not isinstance(cond.value, ast.Tuple):
        raise Refuse('_evaluate_aborted_state: conditions tuple')
    PRED = {'_is_abort_requested': 'Requested', '_is_blocked': 'Blocked', '_is_not_shared': 'NotShared'}
    REAS = {'AbortReason.REQUESTED': 'Requested', 'AbortReason.BLOCKED': 'Blocked', 'AbortReason.FILE_NOT_SHARED': 'NotShared'}
    order = []
    for e in cond.value.elts:
        fn, rs = ast.unparse(e.elts[0]), ast.unparse(e.elts[1])
        if PRED.get(fn) is None or REAS.get(rs) != PRED[fn]:
            raise Refuse(f'_evaluate_aborted_state: condition {fn} paired with {rs}')
        order.append(PRED[fn])
    if sorted(order) != ['Blocked', 'NotShared', 'Requested']:
        raise Refuse(f'_evaluate_aborted_state: conditions {order}')
    rest = [ast.unparse(n) for n in f.body if not isinstance(n, ast.FunctionDef) and n is not cond]
    if rest != ['abort_reason = None',
                'for condition, reason in conditions:\n    if condition(upload):\n        abort_reason = reason\n        break',
                'aborted = upload.state.VALUE == TransferState.ABORTED', 'should_change = aborted != bool(abort_reason)',
                'return (should_change, abort_reason)']:
        raise Refuse('_evaluate_aborted_state: evaluation loop changed')

    # ---- handlers: which checks, which order, which arguments
    def handler_facts(name, blocked_test):
        fn = _func(trm, name, 'TransferManager')
        tests = [(i, st) for i, st in enumerate(fn.body) if isinstance(st, ast.If) and ast.unparse(st.test) == blocked_test]
        ft = next((i for i, st in enumerate(fn.body) if isinstance(st, ast.Assign) and ast.unparse(st.targets[0]) == 'transfer'
                   and 'find_transfer' in ast.unparse(st.value)), None)
        if ft is None or len(tests) > 1:
            raise Refuse(f'{name}: find_transfer / block test shape')
        first = bool(tests) and tests[0][0] < ft and isinstance(tests[0][1].body[-1], ast.Return)
        fs = [tuple(ast.unparse(a) for a in c.args) for c in _calls(fn, 'find_shared_item')]
        if len(fs) != 1 or fs[0] not in (('filename', 'username'), ('filename',)):
            raise Refuse(f'{name}: find_shared_item calls {fs}')
        au = [tuple(ast.unparse(a) for a in c.args) for c in _calls(fn, '_add_upload')]
        if au != [('username', 'filename')]:
            raise Refuse(f'{name}: _add_upload calls {au}')
        return first, len(fs[0]) == 2
    q_first, q_user = handler_facts('_on_peer_transfer_queue', 'self._settings.users.is_blocked(username, BlockingFlag.UPLOADS)')
    r_first, r_user = handler_facts('_on_peer_transfer_request',
                                    'self._settings.users.is_blocked(username, BlockingFlag.UPLOADS) and direction == TransferDirection.UPLOAD')
    f = _func(trm, '_add_upload', 'TransferManager')
    gs = [tuple(ast.unparse(a) for a in c.args) for c in _calls(f, 'get_shared_item')]
    if gs not in ([('remote_path', 'username')], [('remote_path',)]):
        raise Refuse(f'_add_upload: get_shared_item calls {gs}')
    add_user = len(gs[0]) == 2
    f = _func(shm, 'get_shared_item_cache', 'SharesManager')
    locks = [ast.unparse(n.test) for n in ast.walk(f) if isinstance(n, ast.If) and 'is_item_locked' in ast.unparse(n.test)]
    if locks == ['username and self.is_item_locked(item, username)']:
        cache_lock = True
    elif locks == []:
        cache_lock = False
    else:
        raise Refuse(f'get_shared_item_cache: lock test {locks}')
    f = _func(sem, '_query_shares_and_reply', 'SearchManager')
    gate = [i for i, st in enumerate(f.body) if isinstance(st, ast.If)
            and ast.unparse(st.test) == 'self._settings.users.is_blocked(username, BlockingFlag.SEARCHES)' and isinstance(st.body[-1], ast.Return)]
    qcall = [i for i, st in enumerate(f.body) if 'self._shares_manager.query(' in ast.unparse(st)]
    if len(qcall) != 1 or len(gate) > 1:
        raise Refuse('_query_shares_and_reply: shape')
    search_gate = bool(gate) and gate[0] < qcall[0]
    qargs = next(ast.unparse(c) for c in _calls(f, 'query'))
    if qargs != 'self._shares_manager.query(query, username=username, excluded_search_phrases=self.excluded_search_phrases)':
        raise Refuse('_query_shares_and_reply: query arguments changed: ' + qargs)

    # ---- fingerprints of the procedural rest
    cur = current_pins(src)
    cur.update(field_pins(src))
    diff = [k for k in cur if PINNED.get(k) != cur[k]]
    if diff:
        raise Refuse('source of hand-modelled functions changed (normalised-AST fingerprint): ' + ', '.join(sorted(diff)))
    hp = helper_pins(src)
    diff = [k for k in hp if HELPER_PINNED.get(k) != hp[k]]
    if diff:
        raise Refuse('source of a HELPER the model relies on changed (normalised-AST fingerprint): ' + ', '.join(sorted(diff)))

    # ---- reason strings / enum values the observations are decoded with
    tmod = ast.parse((src / 'aioslsk' / 'transfer' / 'model.py').read_text())

    def consts(cls):
        c = next(n for n in ast.walk(tmod) if isinstance(n, ast.ClassDef) and n.name == cls)
        return {ast.unparse(st.targets[0]): st.value.value for st in c.body if isinstance(st, ast.Assign) and isinstance(st.value, ast.Constant)}
    fr, ar, td = consts('FailReason'), consts('AbortReason'), consts('TransferDirection')
    if (fr.get('FILE_NOT_SHARED'), fr.get('CANCELLED'), fr.get('QUEUED'), fr.get('COMPLETE')) != ('File not shared.', 'Cancelled', 'Queued', 'Complete') \
            or ar != {'REQUESTED': 'Requested', 'BLOCKED': 'Blocked', 'FILE_NOT_SHARED': 'File not shared'} or td != {'UPLOAD': 0, 'DOWNLOAD': 1}:
        raise Refuse(f'reason strings / direction values changed: {fr} {ar} {td}')
    um = ast.parse((src / 'aioslsk' / 'user' / 'model.py').read_text())
    bf = next(n for n in ast.walk(um) if isinstance(n, ast.ClassDef) and n.name == 'BlockingFlag')
    flags = {ast.unparse(st.targets[0]): ast.unparse(st.value) for st in bf.body if isinstance(st, ast.Assign)}
    if (flags.get('SEARCHES'), flags.get('SHARES'), flags.get('UPLOADS'), flags.get('NONE')) != ('4', '8', '32', '0') or 'ALL' not in flags:
        raise Refuse(f'BlockingFlag values changed: {flags}')

    out = ['(* GENERATED by translate/tr_shares.py from shares/manager.py, shares/model.py, transfer/manager.py, search/manager.py -- do not edit *)\n',
           'From Coq Require Import List Bool.\nImport ListNotations.\n\n',
           '(* DirectoryShareMode *)\nInductive mode := ' + ' | '.join(coq_mode[m] for m in members) + '.\n\n',
           '(* SharesManager.is_directory_locked; is_friend = username in settings.users.friends, in_users = username in directory.users *)\n',
           ''.join(dl), '\n',
           '(* TransferManager._evaluate_aborted_state: the conditions in the order they are tried *)\n',
           'Inductive areason := Requested | Blocked | NotShared.\n',
           f'Definition reason_order : list areason := [{"; ".join(order)}].\n',
           'Definition gen_first_reason (requested blocked not_shared : bool) : option areason :=\n'
           '  find (fun r => match r with Requested => requested | Blocked => blocked | NotShared => not_shared end) reason_order.\n\n',
           '(* _get_parent_directories sorts by path length; add/remove_shared_directory take parents[-1] *)\n',
           f'Definition parents_sorted_by_length : bool := {b(parents_sorted)}.\nDefinition parent_pick_last : bool := {b(pick_last)}.\n\n',
           '(* SharesManager.query *)\n',
           f'Definition include_sets_intersected : bool := {b(include_and)}.\nDefinition wildcard_sets_united : bool := {b(wildcard_or)}.\n'
           f'Definition cap_ge : bool := {b(cap_ge)}.\nDefinition phrase_lowered : bool := {b(phrase_lowered)}.\n\n',
           '(* which entitlement checks the request handlers make, in which order, with which arguments *)\n',
           f'Definition queue_blocked_check_first : bool := {b(q_first)}.\nDefinition request_blocked_check_first : bool := {b(r_first)}.\n'
           f'Definition queue_existing_lookup_with_user : bool := {b(q_user)}.\nDefinition request_existing_lookup_with_user : bool := {b(r_user)}.\n'
           f'Definition add_upload_lookup_with_user : bool := {b(add_user)}.\nDefinition cache_lookup_checks_lock : bool := {b(cache_lock)}.\n'
           f'Definition search_gate_first : bool := {b(search_gate)}.\n']
    return {'SharesGen.v': ''.join(out)}


if __name__ == '__main__':
    import sys
    import json
    print(json.dumps(current_pins(Path(sys.argv[-1])), indent=1))
