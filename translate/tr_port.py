"""T3: Network.select_port (network/network.py) and the connect timeouts of constants.py -> gen/PortGen.v.

Dedicated fail-closed matcher.  Accepted shape of select_port(self, port, obfuscated_port):
  docstring; `prefer_obfuscated = self._settings.network.peer.obfuscate`; then one if/elif/else tree whose
  tests are truthiness tests of the names port / obfuscated_port / prefer_obfuscated combined with and/or/not,
  and whose leaves are `return <port|obfuscated_port>, <True|False>`.
Anything else raises Refuse.  Truthiness of an int name n is `negb (Z.eqb n 0)`.
"""
import ast
from pathlib import Path
from .pyexpr import Refuse, refuse, find_class, find_func, const_eval, HEADER

INTS = {'port', 'obfuscated_port'}
BOOLS = {'prefer_obfuscated'}


def cond(e) -> str:
    if isinstance(e, ast.Name):
        if e.id in INTS:
            return f'(negb (Z.eqb {e.id} 0))'
        if e.id in BOOLS:
            return e.id
        refuse(e, 'unknown name in condition')
    if isinstance(e, ast.BoolOp):
        op = 'andb' if isinstance(e.op, ast.And) else 'orb'
        parts = [cond(v) for v in e.values]
        t = parts[-1]
        for p in reversed(parts[:-1]):
            t = f'({op} {p} {t})'
        return t
    if isinstance(e, ast.UnaryOp) and isinstance(e.op, ast.Not):
        return f'(negb {cond(e.operand)})'
    refuse(e, 'condition')


def block(stmts) -> str:
    stmts = [s for s in stmts if not (isinstance(s, ast.Expr) and isinstance(s.value, ast.Constant))]
    if len(stmts) != 1:
        raise Refuse(f'select_port: expected exactly one statement in a branch, got {len(stmts)}')
    s = stmts[0]
    if isinstance(s, ast.Return):
        v = s.value
        if not (isinstance(v, ast.Tuple) and len(v.elts) == 2 and isinstance(v.elts[0], ast.Name) and v.elts[0].id in INTS
                and isinstance(v.elts[1], ast.Constant) and isinstance(v.elts[1].value, bool)):
            refuse(s, 'return shape')
        return f'({v.elts[0].id}, {"true" if v.elts[1].value else "false"})'
    if isinstance(s, ast.If):
        if not s.orelse:
            refuse(s, 'if without else (control could fall through)')
        return f'(if {cond(s.test)}\n then {block(s.body)}\n else {block(s.orelse)})'
    refuse(s, 'statement')


def float_const(tree, name):
    for n in tree.body:
        tgt = None
        if isinstance(n, ast.AnnAssign) and isinstance(n.target, ast.Name) and n.value is not None:
            tgt, val = n.target.id, n.value
        elif isinstance(n, ast.Assign) and len(n.targets) == 1 and isinstance(n.targets[0], ast.Name):
            tgt, val = n.targets[0].id, n.value
        if tgt == name:
            v = const_eval(val)
            if v != int(v) or not (0 < v < 100000):
                raise Refuse(f'{name} = {v!r}: expected a positive whole number of seconds')
            return int(v)
    raise Refuse(f'constant {name} not found')


def translate(src: Path) -> dict:
    net = ast.parse((src / 'aioslsk' / 'network' / 'network.py').read_text())
    cls = find_class(net, 'Network')
    fn = find_func(cls.body, 'select_port')
    if isinstance(fn, ast.AsyncFunctionDef) or [a.arg for a in fn.args.args] != ['self', 'port', 'obfuscated_port'] \
            or fn.args.vararg or fn.args.kwarg or fn.args.kwonlyargs or fn.decorator_list:
        raise Refuse('select_port signature')
    body = [s for s in fn.body if not (isinstance(s, ast.Expr) and isinstance(s.value, ast.Constant))]
    if len(body) != 2:
        raise Refuse('select_port: expected `prefer_obfuscated = ...` followed by one if-tree')
    a = body[0]
    if not (isinstance(a, ast.Assign) and len(a.targets) == 1 and isinstance(a.targets[0], ast.Name)
            and a.targets[0].id == 'prefer_obfuscated'
            and ast.unparse(a.value) == 'self._settings.network.peer.obfuscate'):
        refuse(a, 'select_port preference read')
    tree = block([body[1]])

    # the attempts use these timeouts: PeerConnection.connect(timeout=PEER_CONNECT_TIMEOUT) and
    # asyncio.wait(..., timeout=PEER_INDIRECT_CONNECT_TIMEOUT)
    conn = ast.parse((src / 'aioslsk' / 'network' / 'connection.py').read_text())
    pc = find_class(conn, 'PeerConnection')
    cfn = find_func(pc.body, 'connect')
    if ast.unparse(cfn.args) != 'self, timeout: float=PEER_CONNECT_TIMEOUT' or \
            ast.unparse(cfn.body[-1]) != 'await super().connect(timeout=timeout)':
        raise Refuse('PeerConnection.connect no longer passes PEER_CONNECT_TIMEOUT')
    ind = find_func(cls.body, '_make_indirect_connection')
    waits = [n for n in ast.walk(ind) if isinstance(n, ast.Call) and ast.unparse(n.func) == 'asyncio.wait']
    if len(waits) != 1 or {k.arg: ast.unparse(k.value) for k in waits[0].keywords} != \
            {'timeout': 'PEER_INDIRECT_CONNECT_TIMEOUT', 'return_when': 'asyncio.FIRST_COMPLETED'}:
        raise Refuse('_make_indirect_connection: the wait for pierce / CannotConnect changed')
    # the address lookup of the direct attempt: is the reply awaited under a timeout?  (finding F26)
    gpa = find_func(cls.body, '_get_peer_address')
    src_gpa = ast.unparse(gpa)
    lookup_timeout = ('wait_for_server_message' in src_gpa) or ('atimeout' in src_gpa) or ('wait_for' in src_gpa)
    if not lookup_timeout and 'await self.create_server_response_future' not in src_gpa:
        raise Refuse('_get_peer_address: unknown way of awaiting the reply')
    consts = ast.parse((src / 'aioslsk' / 'constants.py').read_text())
    out = [HEADER.format(src='src/aioslsk/network/network.py (select_port, shapes of the attempt coroutines), connection.py, constants.py')]
    out.append('Definition select_port (prefer_obfuscated : bool) (port obfuscated_port : Z) : Z * bool :=\n ' + tree + '.\n\n')
    for name in ('PEER_CONNECT_TIMEOUT', 'PEER_INDIRECT_CONNECT_TIMEOUT', 'DISCONNECT_TIMEOUT'):
        out.append(f'Definition {name} : Z := {float_const(consts, name)}.\n')
    out.append(f'(* _get_peer_address awaits the GetPeerAddress reply {"under a timeout" if lookup_timeout else "WITHOUT any timeout"} *)\n')
    out.append(f'Definition LOOKUP_HAS_TIMEOUT : bool := {"true" if lookup_timeout else "false"}.\n')
    lt = 0
    if lookup_timeout:
        lt = 10  # default of wait_for_server_message
        for nd in ast.walk(gpa):
            if isinstance(nd, ast.keyword) and nd.arg == 'timeout':
                v = nd.value
                lt = float_const(consts, v.id) if isinstance(v, ast.Name) else int(const_eval(v))
            if isinstance(nd, ast.Call) and ast.unparse(nd.func) in ('atimeout', 'asyncio.timeout') and nd.args:
                v = nd.args[0]
                lt = float_const(consts, v.id) if isinstance(v, ast.Name) else int(const_eval(v))
    out.append(f'Definition LOOKUP_TIMEOUT : Z := {lt}.\n')

    # ---- clean-up shapes of the attempt coroutines (each flag: is the construct present?)
    def handlers_for_cancel(fn):
        """except-handlers of `fn` that catch asyncio.CancelledError (or BaseException), re-raise, and their bodies"""
        hs = []
        for nd in ast.walk(fn):
            if isinstance(nd, ast.ExceptHandler) and nd.type is not None:
                names = [ast.unparse(t) for t in (nd.type.elts if isinstance(nd.type, ast.Tuple) else [nd.type])]
                if any(n in ('asyncio.CancelledError', 'CancelledError', 'BaseException') for n in names):
                    if any(isinstance(x, ast.Raise) and x.exc is None for x in nd.body):
                        hs.append(nd)
        return hs

    def calls(nodes, attr):
        return [c for n in nodes for c in ast.walk(n) if isinstance(c, ast.Call) and isinstance(c.func, ast.Attribute) and c.func.attr == attr]

    dc = find_class(conn, 'DataConnection')
    dconnect = find_func(dc.body, 'connect')
    connect_closes = any(calls(h.body, 'disconnect') for h in handlers_for_cancel(dconnect))
    # does connect() look at the state again after open_connection returned? (C10-N1)
    direct = find_func(cls.body, '_make_direct_connection')
    attempt_closes = any(calls(h.body, 'disconnect') for h in handlers_for_cancel(direct))
    # _make_indirect_connection: send + wait inside a try whose finally cancels the futures
    cleanup = False
    for nd in ast.walk(ind):
        if isinstance(nd, ast.Try) and nd.finalbody and calls(nd.finalbody, 'cancel'):
            inside = [ast.unparse(c.func) for c in ast.walk(ast.Module(body=nd.body, type_ignores=[])) if isinstance(c, ast.Call)]
            if 'asyncio.wait' in inside and 'self.server_connection.send_message' in inside:
                cleanup = True
    race = find_func(cls.body, '_create_peer_connection_race')
    race_cancels = any(calls(h.body, 'cancel') for h in handlers_for_cancel(race))
    # the winner path (cancel + await the loser, disconnect a second success): is it inside a try whose CancelledError handler
    # disconnects what the request already holds?
    race_winner_covered = False
    for nd in ast.walk(race):
        if isinstance(nd, ast.Try) and 'await asyncio.gather(*pending, return_exceptions=True)' in ast.unparse(ast.Module(body=nd.body, type_ignores=[])) \
                and 'pending_task.cancel()' in ast.unparse(ast.Module(body=nd.body, type_ignores=[])):
            for h in nd.handlers:
                if h.type is not None and any(n in ('asyncio.CancelledError', 'BaseException') for n in [ast.unparse(t) for t in (h.type.elts if isinstance(h.type, ast.Tuple) else [h.type])]) \
                        and calls(h.body, 'disconnect') and any(isinstance(x, ast.Raise) and x.exc is None for x in h.body):
                    race_winner_covered = True
    # ... and disconnects a connection that one of the attempts had produced in that very moment
    race_cancel_closes = any(calls(h.body, 'cancel') and calls(h.body, 'disconnect') and 'isinstance(result, PeerConnection)' in ast.unparse(ast.Module(body=h.body, type_ignores=[]))
                             for h in handlers_for_cancel(race))
    race_src = ast.unparse(race)
    race_second = ('if len(connections) > 1:\n' in race_src and 'await connections[1].disconnect(CloseReason.REQUESTED)' in race_src
                   and 'return connections[0]' in race_src and 'connections.append(done_task.result())' in race_src)
    loser_cancelled = 'pending_task.cancel()' in race_src and 'await asyncio.gather(*pending, return_exceptions=True)' in race_src
    resp = find_func(cls.body, '_handle_connect_to_peer')
    resp_catches = False
    for nd in ast.walk(resp):
        if isinstance(nd, ast.ExceptHandler) and nd.type is not None and calls(nd.body, 'send_message'):
            names = [ast.unparse(t) for t in (nd.type.elts if isinstance(nd.type, ast.Tuple) else [nd.type])]
            if 'CannotConnect.Request' in ast.unparse(ast.Module(body=nd.body, type_ignores=[])):
                covers_connect = any(n in ('NetworkError', 'Exception', 'ConnectionFailedError') for n in names)
                covers_write = any(n in ('NetworkError', 'Exception', 'ConnectionWriteError') for n in names)
                if not covers_connect:
                    raise Refuse('_handle_connect_to_peer: CannotConnect handler does not cover a failed connect')
                resp_catches = covers_write
    # the PierceFirewall write must be inside the same try as the connect
    ind_closes_arrived = any(calls(h.body, 'disconnect') and 'expected_connection_future' in ast.unparse(ast.Module(body=h.body, type_ignores=[]))
                             for h in handlers_for_cancel(ind))
    opa = find_func(cls.body, 'on_peer_accepted')
    pierce_checks_done = any(isinstance(c, ast.Call) and ast.unparse(c) == 'connection_future.done()' for c in ast.walk(opa))
    # DataConnection._send: how is the connection closed when the write fails?  directly (the failing segment reports
    # CLOSING itself) or from a shielded task of its own (reported one scheduling step later; survives the sender's cancellation)
    dsend = find_func(dc.body, '_send')
    send_handlers = [h for h in ast.walk(dsend) if isinstance(h, ast.ExceptHandler)]
    if len(send_handlers) != 2:
        raise Refuse('_send: expected the TimeoutError and the Exception handler')
    kinds = set()
    for h in send_handlers:
        cs = [c.func.attr for c in ast.walk(ast.Module(body=h.body, type_ignores=[]))
              if isinstance(c, ast.Call) and isinstance(c.func, ast.Attribute) and c.func.attr in ('disconnect', '_disconnect_detached')]
        if len(cs) != 1 or not any(isinstance(x, ast.Raise) for x in h.body):
            raise Refuse('_send: a failure handler must close the connection once and raise')
        kinds.add(cs[0])
    if len(kinds) != 1:
        raise Refuse('_send: the two failure handlers close the connection differently')
    send_detached = kinds == {'_disconnect_detached'}
    if send_detached:
        dd = ast.unparse(find_func(dc.body, '_disconnect_detached'))
        if 'asyncio.shield' not in dd or 'self.disconnect(reason)' not in dd or 'ensure_future' not in dd:
            raise Refuse('_disconnect_detached: expected await asyncio.shield(asyncio.ensure_future(self.disconnect(reason)))')
    # exceptions.py + _create_peer_connection_fallback: does every way a direct attempt fails (ConnectionFailedError from connect(),
    # ConnectionWriteError from the PeerInit write, PeerConnectionError from the lookup) reach the handler that starts the indirect attempt?
    exc_tree = ast.parse((src / 'aioslsk' / 'exceptions.py').read_text())
    bases = {n.name: [ast.unparse(b) for b in n.bases] for n in exc_tree.body if isinstance(n, ast.ClassDef)}

    def descends(name, anc, seen=()):
        if name == anc:
            return True
        return any(descends(b, anc, seen + (name,)) for b in bases.get(name, []) if b not in seen)
    fb = find_func(cls.body, '_create_peer_connection_fallback')
    fb_try = [n for n in fb.body if isinstance(n, ast.Try)]
    if len(fb_try) != 1 or len(fb_try[0].handlers) != 1 or 'self._make_direct_connection(' not in ast.unparse(ast.Module(body=fb_try[0].body, type_ignores=[])) \
            or 'self._make_indirect_connection(' not in ast.unparse(ast.Module(body=fb_try[0].handlers[0].body, type_ignores=[])):
        raise Refuse('_create_peer_connection_fallback: expected try: direct / except <errors>: indirect')
    h0 = fb_try[0].handlers[0]
    caught = [ast.unparse(t) for t in (h0.type.elts if isinstance(h0.type, ast.Tuple) else [h0.type])] if h0.type is not None else ['BaseException']
    falls_back = all(any(c in ('Exception', 'BaseException') or descends(e, c) for c in caught)
                     for e in ('ConnectionFailedError', 'ConnectionWriteError', 'PeerConnectionError'))
    # Network._on_connect_to_peer: is every relayed ConnectToPeer request handed to _handle_connect_to_peer?
    octp = find_func(cls.body, '_on_connect_to_peer')
    ob = [st for st in octp.body if not (isinstance(st, ast.Expr) and isinstance(st.value, ast.Constant))]
    tail = [ast.unparse(st).split('(')[0] for st in ob[-3:]]
    if tail != ['task = asyncio.create_task', 'task.add_done_callback', 'self._create_peer_connection_tasks.append'] \
            or 'self._handle_connect_to_peer(message)' not in ast.unparse(ob[-3]):
        raise Refuse('_on_connect_to_peer: the task creation changed')
    handles_all = len(ob) == 3
    flags = [
        ('DIRECT_FAILURES_FALL_BACK', falls_back, 'fallback mode: every failure of the direct attempt (connect, PeerInit write, address lookup) is caught by the handler that starts the indirect attempt (exception hierarchy of exceptions.py)'),
        ('RESPONDER_HANDLES_EVERY_REQUEST', handles_all, '_on_connect_to_peer starts _handle_connect_to_peer for every ConnectToPeer request (no earlier return / condition)'),
        ('SEND_FAILURE_DISCONNECT_DETACHED', send_detached, 'DataConnection._send closes the connection from a shielded task of its own when the write fails'),
        ('INDIRECT_CLOSES_ARRIVED_ON_CANCEL', ind_closes_arrived, '_make_indirect_connection cancelled after the pierce connection arrived disconnects that connection'),
        ('PIERCE_IGNORES_DONE_WAITER', pierce_checks_done, 'on_peer_accepted treats a PeerPierceFirewall for an already cancelled waiter as an unknown ticket'),
        ('CONNECT_CLOSES_ON_CANCEL', connect_closes, 'DataConnection.connect: except CancelledError -> disconnect(); raise'),
        ('ATTEMPT_CLOSES_ON_CANCEL', attempt_closes, '_make_direct_connection: except CancelledError -> connection.disconnect(); raise'),
        ('INDIRECT_CLEANUP_ALWAYS', cleanup, '_make_indirect_connection: send + wait inside try/finally that cancels the waiter futures'),
        ('RACE_CANCELS_LOSER', loser_cancelled, 'race mode cancels and awaits the pending attempt when one succeeded'),
        ('RACE_DISCONNECTS_SECOND', race_second, 'race mode disconnects a second simultaneous success'),
        ('RACE_CANCELS_ON_CANCEL', race_cancels, 'race mode: except CancelledError around asyncio.wait cancels the attempt tasks'),
        ('RACE_CANCEL_COVERS_WINNER_PATH', race_winner_covered, 'race mode: a cancellation of the request while it awaits the cancelled loser / disconnects a second success closes the connection(s) it already holds'),
        ('RACE_CANCEL_DISCONNECTS_FINISHED', race_cancel_closes, 'race mode: that handler disconnects the connection of an attempt that had just finished'),
        ('RESPONDER_REPORTS_WRITE_FAILURE', resp_catches, '_handle_connect_to_peer: a failed PeerPierceFirewall write leads to CannotConnect'),
    ]
    for name, val, doc in flags:
        out.append(f'(* {doc} *)\nDefinition {name} : bool := {"true" if val else "false"}.\n')
    return {'PortGen.v': ''.join(out)}


if __name__ == '__main__':
    import sys
    print(translate(Path(sys.argv[1] if len(sys.argv) > 1 else '/repo/src'))['PortGen.v'])
