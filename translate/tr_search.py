"""Effects of the search-request life cycle -> gen/SearchGen.v (flags and guards used by C18/Model.v).

Fail closed: each function the C18 model abstracts must consist of EXACTLY one of the statement
lists accepted below (docstrings and comments aside).  A recognised variant sets a flag / emits a
guard expression; anything else raises Refuse (= broken tie, reported by the check).

  SearchManager.remove_request              pops the request [and cancels its timer]        -> remove_cancels_timer
  SearchManager._timeout_search_request     [guard: still the registered request] del, emit -> timeout_guarded
  SearchManager._attach_request_timer_and_emit   register; Timer iff <request_timeout CMP K>; emit Sent -> attach_with_timer
  SearchManager._wishlist_job (loop body)   ticket; send; request; Timer iff `timeout`; register; start; emit -> wish_with_timer
  SearchManager._on_peer_search_reply       lookup -> store -> emit with no await in between; disconnect afterwards (pinned)
  tasks.Timer.start/cancel/runner/reschedule     pinned;   Timer._unset_task  [only its own task]  -> unset_only_own
"""
import ast
from pathlib import Path
from .pyexpr import Refuse, find_class, find_func, HEADER, CMPOPS


def stmts(fn):
    body = [s for s in fn.body if not (isinstance(s, ast.Expr) and isinstance(s.value, ast.Constant) and isinstance(s.value.value, str))]
    return [ast.unparse(s) for s in body]


def expect(name, got, variants):
    for flag, want in variants:
        if got == want:
            return flag
    raise Refuse(f'{name} is none of the accepted shapes:\n' + '\n'.join(got))


TICKET = 'ticket = request if isinstance(request, int) else request.ticket'
REPLY = [
    'search_result = SearchResult(ticket=message.ticket, username=message.username, has_free_slots=message.has_slots_free, '
    'avg_speed=message.avg_speed, queue_size=message.queue_size, shared_items=message.results, locked_results=message.locked_results or [])',
    "try:\n    query = self.requests[message.ticket]\nexcept KeyError:\n    logger.warning('search reply ticket does not match any search request : %d', message.ticket)\n"
    "else:\n    if self._settings.searches.send.store_results:\n        query.results.append(search_result)\n"
    "    await self._event_bus.emit(SearchResultEvent(query, search_result))",
    'await connection.disconnect(reason=CloseReason.REQUESTED)',
]
WISH_LOOP = [
    'ticket = next(self._ticket_generator)',
    'await self._network.send_server_messages(WishlistSearch.Request(ticket, item.query))',
    'request = SearchRequest(ticket, item.query, search_type=SearchType.WISHLIST)',
    'request.timer = Timer(timeout=timeout, callback=partial(self._timeout_search_request, request)) if timeout else None',
    'self.requests[ticket] = request',
    'if request.timer:\n    request.timer.start()',
    'await self._event_bus.emit(SearchRequestSentEvent(request))',
]


def translate(src: Path) -> dict:
    mtree = ast.parse((src / 'aioslsk' / 'search' / 'manager.py').read_text())
    sm = find_class(mtree, 'SearchManager')
    out = [HEADER.format(src='src/aioslsk/search/manager.py, tasks.py')]

    rm = expect('remove_request', stmts(find_func(sm.body, 'remove_request')), [
        (True, [TICKET, 'removed_request = self.requests.pop(ticket)', 'if removed_request.timer:\n    removed_request.timer.cancel()']),
        (False, [TICKET, 'self.requests.pop(ticket)']),
    ])
    out.append(f'(* remove_request: requests.pop(ticket){"; then the popped request timer is cancelled" if rm else ""} *)\n'
               f'Definition remove_cancels_timer : bool := {"true" if rm else "false"}.\n\n')

    EMITR = 'await self._event_bus.emit(SearchRequestRemovedEvent(request))'
    tg = expect('_timeout_search_request', stmts(find_func(sm.body, '_timeout_search_request')), [
        (True, ['if self.requests.get(request.ticket) is not request:\n    return', 'del self.requests[request.ticket]', EMITR]),
        (False, ['del self.requests[request.ticket]', EMITR]),
    ])
    out.append('(* _timeout_search_request: [return unless the request is still the registered one;] del requests[ticket]; emit Removed *)\n'
               f'Definition timeout_guarded : bool := {"true" if tg else "false"}.\n\n')

    at = find_func(sm.body, '_attach_request_timer_and_emit')
    body = [s for s in at.body if not (isinstance(s, ast.Expr) and isinstance(s.value, ast.Constant))]
    if len(body) != 3 or ast.unparse(body[0]) != 'self.requests[request.ticket] = request' or \
            ast.unparse(body[2]) != 'await self._event_bus.emit(SearchRequestSentEvent(request))':
        raise Refuse('_attach_request_timer_and_emit: expected register; if ...: Timer+start; emit Sent')
    iff = body[1]
    want_body = ('request.timer = Timer(timeout=self._settings.searches.send.request_timeout, callback=partial(self._timeout_search_request, request))',
                 'request.timer.start()')
    if not (isinstance(iff, ast.If) and not iff.orelse and tuple(ast.unparse(s) for s in iff.body) == want_body):
        raise Refuse('_attach_request_timer_and_emit: timer block changed')
    t = iff.test
    if not (isinstance(t, ast.Compare) and len(t.ops) == 1 and ast.unparse(t.left) == 'self._settings.searches.send.request_timeout'
            and isinstance(t.comparators[0], ast.Constant) and isinstance(t.comparators[0].value, int)
            and not isinstance(t.comparators[0].value, bool) and type(t.ops[0]) in CMPOPS):
        raise Refuse('_attach_request_timer_and_emit: timer condition is not `request_timeout <cmp> <int>`')
    k = t.comparators[0].value
    cond = CMPOPS[type(t.ops[0])].format(a='tau', b=f'({k})' if k < 0 else str(k))
    out.append(f'(* _attach_request_timer_and_emit: requests[ticket] = request; Timer(...).start() iff `{ast.unparse(t)}`; emit Sent *)\n'
               f'Definition attach_with_timer (tau : Z) : bool := {cond}.\n\n')

    wj = find_func(sm.body, '_wishlist_job')
    loops = [n for n in wj.body if isinstance(n, ast.For)]
    if len(loops) != 1 or [ast.unparse(s) for s in loops[0].body] != WISH_LOOP or ast.unparse(loops[0].iter) != 'enabled_items':
        raise Refuse('_wishlist_job: loop body changed:\n' + '\n'.join(ast.unparse(s) for l in loops for s in l.body))
    out.append('(* _wishlist_job: Timer iff `timeout` is truthy (non-zero) *)\n'
               'Definition wish_with_timer (tau : Z) : bool := negb (Z.eqb tau 0).\n\n')

    got = stmts(find_func(sm.body, '_on_peer_search_reply'))
    if got != REPLY:
        raise Refuse('_on_peer_search_reply changed (lookup -> store -> emit must not be separated by an await; disconnect afterwards):\n' + '\n'.join(got))
    out.append('(* _on_peer_search_reply: lookup by ticket, store, emit in ONE segment; the connection is closed afterwards (pinned) *)\n'
               'Definition reply_is_one_segment : bool := true.\n\n')

    ttree = ast.parse((src / 'aioslsk' / 'tasks.py').read_text())
    tm = find_class(ttree, 'Timer')
    expect('Timer.start', stmts(find_func(tm.body, 'start')),
           [(True, ['self._task = asyncio.create_task(self.runner())', 'self._task.add_done_callback(self._unset_task)'])])
    expect('Timer.cancel', stmts(find_func(tm.body, 'cancel')),
           [(True, ['if self._task is None:\n    return None', 'task = self._task', 'self._task.cancel()', 'self._task = None', 'return task'])])
    expect('Timer.runner', stmts(find_func(tm.body, 'runner')), [(True, ['await asyncio.sleep(self.timeout)', 'await self.callback()'])])
    expect('Timer.reschedule', stmts(find_func(tm.body, 'reschedule')),
           [(True, ['self.timeout = self.timeout if timeout is None else timeout', 'self.cancel()', 'self.start()'])])
    uo = expect('Timer._unset_task', stmts(find_func(tm.body, '_unset_task')), [
        (True, ['if self._task is task:\n    self._task = None']),
        (False, ['self._task = None']),
    ])
    names = sorted(n.name for n in tm.body if isinstance(n, (ast.FunctionDef, ast.AsyncFunctionDef)))
    if names != ['__init__', '_unset_task', 'cancel', 'reschedule', 'runner', 'start']:
        raise Refuse(f'Timer has other methods: {names}')
    out.append('(* Timer.start/cancel/runner/reschedule are pinned literally; _unset_task clears the handle [only when it is its own task] *)\n'
               f'Definition unset_only_own : bool := {"true" if uo else "false"}.\n')
    return {'SearchGen.v': ''.join(out)}


if __name__ == '__main__':
    import sys
    print(translate(Path(sys.argv[1] if len(sys.argv) > 1 else '/repo/src'))['SearchGen.v'])
