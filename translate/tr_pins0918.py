"""Helpers the C09 / C18 models rely on without modelling them line by line: pinned by a normalised-AST fingerprint
(docstrings dropped, `ast.dump` without positions).  An edit of any of them is a broken tie (the check then runs its
longer directed search, which includes scenarios exercising these helpers).  Reference values: translate/pins_c09.json,
translate/pins_c18.json (rewrite with `python -m translate.tr_pins0918 --update` after reviewing a change).

Not pinned: stdlib / third-party code (asyncio, aiofiles, pydantic, re, os)."""
import ast
import hashlib
import json
import sys
from pathlib import Path
from .pyexpr import Refuse

HERE = Path(__file__).parent

# file -> names; 'Class' pins the whole class, 'Class.method' one method, 'func' a module-level function, '=NAME' an assignment
SPEC = {
    'c18': {
        'aioslsk/events.py': ['EventBus', 'on_message', 'build_message_map', 'SearchRequestSentEvent', 'SearchRequestRemovedEvent',
                              'SearchResultEvent', 'MessageReceivedEvent', 'SessionInitializedEvent', 'SessionDestroyedEvent', 'Event', 'InternalEvent'],
        'aioslsk/tasks.py': ['BackgroundTask', 'Timer.__init__'],
        'aioslsk/base_manager.py': ['BaseManager'],
        'aioslsk/search/model.py': ['SearchRequest', 'SearchResult', 'SearchType'],
        'aioslsk/search/manager.py': ['SearchManager.__init__', 'SearchManager.register_listeners', 'SearchManager.search', 'SearchManager.search_room',
                                      'SearchManager.search_user', 'SearchManager._wishlist_job', 'SearchManager._get_wishlist_request_timeout',
                                      'SearchManager._on_message_received', 'SearchManager._on_wish_list_interval', 'SearchManager._on_session_initialized',
                                      'SearchManager._on_session_destroyed', 'SearchManager._on_state_changed', 'SearchManager.stop'],
        'aioslsk/settings.py': ['SearchSendSettings', 'SearchSettings', 'WishlistSettingEntry'],
        'aioslsk/protocol/messages.py': ['PeerSearchReply', 'WishlistInterval', 'FileSearch', 'RoomSearch', 'UserSearch', 'WishlistSearch'],
        'aioslsk/network/connection.py': ['CloseReason'],
        'aioslsk/session.py': ['Session'],
    },
    'c09': {
        'aioslsk/naming.py': ['NamingStrategy', 'DuplicateNamingStrategy'],
        'aioslsk/shares/manager.py': ['SharesManager.create_directory', 'SharesManager.get_download_directory', 'SharesManager.calculate_download_path'],
        'aioslsk/transfer/manager.py': ['TransferManager._download_file', 'TransferManager._calculate_offset', 'TransferManager._initialize_download',
                                        'TransferManager._prepare_download_path'],
        'aioslsk/transfer/model.py': ['Transfer.__init__', 'TransferDirection', 'Transfer.is_download', 'Transfer.is_upload', 'Transfer.reset_local_vars',
                                      'Transfer.reset_progress_vars'],
        'aioslsk/transfer/state.py': ['CompleteState', 'AbortedState', 'FailedState', 'IncompleteState'],
        'aioslsk/settings.py': ['SharesSettings'],
        'aioslsk/exceptions.py': ['ConnectionReadError', 'NetworkError', 'AioSlskException'],
    },
}


def _strip(node):
    for n in ast.walk(node):
        b = getattr(n, 'body', None)
        if isinstance(b, list) and b and isinstance(b[0], ast.Expr) and isinstance(b[0].value, ast.Constant) and isinstance(b[0].value.value, str) \
                and isinstance(n, (ast.FunctionDef, ast.AsyncFunctionDef, ast.ClassDef, ast.Module)):
            n.body = b[1:] or [ast.Pass()]
    return node


def _find(tree, name):
    parts = name.split('.')
    body = tree.body
    node = None
    for p in parts:
        node = next((n for n in body if isinstance(n, (ast.ClassDef, ast.FunctionDef, ast.AsyncFunctionDef)) and n.name == p), None)
        if node is None:
            raise Refuse(f'pinned helper {name} not found')
        body = getattr(node, 'body', [])
    return node


def fingerprints(src: Path, which: str) -> dict:
    out = {}
    for rel, names in SPEC[which].items():
        tree = ast.parse((src / rel).read_text())
        for name in names:
            node = _strip(_find(tree, name))
            out[f'{rel}:{name}'] = hashlib.sha256(ast.dump(node, annotate_fields=False).encode()).hexdigest()[:16]
    return out


def check(src: Path, which: str):
    pins = json.loads((HERE / f'pins_{which}.json').read_text())
    fp = fingerprints(src, which)
    diff = sorted(k for k in set(pins) | set(fp) if pins.get(k) != fp.get(k))
    if diff:
        raise Refuse(f'helpers the {which.upper()} model relies on changed (translate/pins_{which}.json): ' + ', '.join(diff))


if __name__ == '__main__':
    root = Path('/repo/src')
    for w in SPEC:
        fp = fingerprints(root, w)
        if '--update' in sys.argv:
            (HERE / f'pins_{w}.json').write_text(json.dumps(fp, indent=1, sort_keys=True) + '\n')
        print(w, len(fp), 'helpers')
