"""T3/T2-style translator for C10: structure of the connection life cycle in network/connection.py and of the
registry handling in network/network.py -> gen/C10LifeGen.v, consumed by theories/C10/Model.v.

Regenerated (the C10 theorems are re-proved against these on every run):
  * the order of the ConnectionState enum                      -> RANK_<STATE>
  * Connection._CLOSING_STATES (what `_is_closing` means)      -> CLOSING_STATE_<STATE>
  * the idempotence guard of DataConnection.disconnect         -> GUARD_<STATE>
  * the state on which Network unregisters a peer connection   -> REGISTRY_REMOVE_ON_<STATE>
  * presence of constructs, each with the behaviour the model gives to its absence:
      ACCEPT_CONNECTED_BEFORE_HANDLER, CONNECT_RECHECKS_STATE, CONNECT_FAILURE_CATCHES_ALL, CONNECT_CLOSES_ON_CANCEL, ATTEMPT_CLOSES_ON_CANCEL,
      DISCONNECT_CLOSED_IN_FINALLY, READER_RECHECKS_CLOSING, SEND_SKIPS_WHEN_CLOSING, SEND_FAILURE_DISCONNECT_DETACHED
Shape-checked, fail closed (Refuse = broken tie): everything else the model relies on in those functions: the order
CONNECTING / open_connection / CONNECTED in connect(), the failure handler of connect(), CLOSING before writer.close()
and wait_closed() under DISCONNECT_TIMEOUT in disconnect(), the four handlers of _read() each closing the connection,
the reader loop condition and its EOF return, set_state assigning state/_is_closing before notifying, registration before
the first await in the three places a peer connection is created, removal through remove_peer_connection.

`fingerprints(src)` returns normalised-AST digests (docstrings and log calls removed) of the functions the C10/C11 models
abstract; checks compare them with pinned/c10c11_shapes.json.
"""
import ast
import hashlib
import json
from pathlib import Path
from .pyexpr import Refuse, find_class, find_func, HEADER

STATES = ['UNINITIALIZED', 'CONNECTING', 'CONNECTED', 'CLOSING', 'CLOSED']


def is_log(st) -> bool:
    if isinstance(st, ast.Expr) and isinstance(st.value, ast.Constant):
        return True
    if isinstance(st, ast.Expr) and isinstance(st.value, ast.Call):
        f = st.value.func
        if isinstance(f, ast.Attribute) and isinstance(f.value, ast.Name) and f.value.id in ('adapter', 'logger'):
            return True
    return False


class _Strip(ast.NodeTransformer):
    def generic_visit(self, node):
        super().generic_visit(node)
        for fld in ('body', 'orelse', 'finalbody'):
            b = getattr(node, fld, None)
            if isinstance(b, list):
                nb = [s for s in b if not is_log(s)]
                if not nb and b and fld == 'body':
                    nb = [ast.Pass()]
                setattr(node, fld, nb)
        return node


def norm(fn):
    """function definition with docstrings, comments and log calls removed"""
    import copy
    f = _Strip().visit(copy.deepcopy(fn))
    return f


def body(fn):
    return norm(fn).body


def U(n) -> str:
    return ast.unparse(n).strip()


def state_tuple(node, what):
    """(ConnectionState.A, ConnectionState.B, ...) -> set of names"""
    if not isinstance(node, (ast.Tuple, ast.List, ast.Set)):
        raise Refuse(f'{what}: expected a tuple of ConnectionState members')
    out = set()
    for e in node.elts:
        if not (isinstance(e, ast.Attribute) and isinstance(e.value, ast.Name) and e.value.id == 'ConnectionState' and e.attr in STATES):
            raise Refuse(f'{what}: unexpected element {U(e)}')
        out.add(e.attr)
    return out


def expect(cond, msg):
    if not cond:
        raise Refuse(msg)


def handler_names(h):
    if h.type is None:
        return ['<bare>']
    return [U(t) for t in (h.type.elts if isinstance(h.type, ast.Tuple) else [h.type])]


def translate(src: Path) -> dict:
    conn = ast.parse((src / 'aioslsk' / 'network' / 'connection.py').read_text())
    net = ast.parse((src / 'aioslsk' / 'network' / 'network.py').read_text())
    out = [HEADER.format(src='src/aioslsk/network/connection.py, network.py (structure of the connection life cycle)')]
    out.append('Open Scope nat_scope.\n')

    # ---- ConnectionState: declaration order = auto() values
    cs = find_class(conn, 'ConnectionState')
    members = []
    for st in cs.body:
        if isinstance(st, ast.Assign) and len(st.targets) == 1 and isinstance(st.targets[0], ast.Name):
            expect(U(st.value) == 'auto()', f'ConnectionState.{st.targets[0].id} is not auto()')
            members.append(st.targets[0].id)
    expect(sorted(members) == sorted(STATES), f'ConnectionState members changed: {members}')
    for i, m in enumerate(members):
        out.append(f'Definition RANK_{m} : nat := {i}.\n')

    # ---- Connection: _CLOSING_STATES and set_state
    base = find_class(conn, 'Connection')
    closing = None
    for st in base.body:
        tgt = st.target if isinstance(st, ast.AnnAssign) else (st.targets[0] if isinstance(st, ast.Assign) and len(st.targets) == 1 else None)
        if isinstance(tgt, ast.Name) and tgt.id == '_CLOSING_STATES':
            closing = state_tuple(st.value, '_CLOSING_STATES')
    expect(closing is not None, '_CLOSING_STATES not found')
    for m in STATES:
        out.append(f'Definition CLOSING_STATE_{m} : bool := {"true" if m in closing else "false"}.\n')
    ss = [U(s) for s in body(find_func(base.body, 'set_state'))]
    expect(ss == ['self.state = state', 'self._is_closing = state in self._CLOSING_STATES',
                  'await self.network.on_state_changed(state, self, close_reason=close_reason)'],
           f'Connection.set_state changed: {ss}')

    # ---- ListeningConnection.accept: CONNECTED before or after the init handler
    lc = find_class(conn, 'ListeningConnection')
    acc = [U(s) for s in body(find_func(lc.body, 'accept'))]
    try:
        i_state = acc.index('await connection.set_state(ConnectionState.CONNECTED)')
        i_hand = acc.index('await self.network.on_peer_accepted(connection)')
        i_rw = acc.index('connection._reader, connection._writer = (reader, writer)')
    except ValueError:
        raise Refuse(f'ListeningConnection.accept changed: {acc}')
    expect(i_rw < min(i_state, i_hand) and sum(1 for s in acc if 'set_state' in s) == 1, 'accept: order of stream assignment / set_state')
    out.append(f'Definition ACCEPT_CONNECTED_BEFORE_HANDLER : bool := {"true" if i_state < i_hand else "false"}.\n')

    dc = find_class(conn, 'DataConnection')

    # ---- DataConnection.connect
    cb = body(find_func(dc.body, 'connect'))
    expect(len(cb) == 2 and U(cb[0]) == 'await self.set_state(ConnectionState.CONNECTING)' and isinstance(cb[1], ast.Try),
           'connect: expected set_state(CONNECTING) followed by one try statement')
    tr = cb[1]
    tb = [U(s) for s in tr.body]
    expect(len(tr.body) == 1 and isinstance(tr.body[0], ast.AsyncWith) and 'atimeout(timeout)' in tb[0]
           and 'await asyncio.open_connection(self.hostname, self.port)' in tb[0], f'connect: try body changed: {tb}')
    closes_on_cancel = False
    failure_ok = False
    catches_all = False
    for h in tr.handlers:
        names = handler_names(h)
        hb = [U(s) for s in h.body]
        if any(n in ('asyncio.CancelledError', 'BaseException') for n in names):
            expect(hb[-1] == 'raise', 'connect: the CancelledError handler must re-raise')
            closes_on_cancel = 'await self.disconnect(CloseReason.CONNECT_FAILED)' in hb
        elif set(names) <= {'Exception', 'OSError', 'asyncio.TimeoutError', 'TimeoutError', 'ConnectionError'}:
            expect(hb[0] == 'await self.disconnect(CloseReason.CONNECT_FAILED)' and hb[-1].startswith('raise ConnectionFailedError('),
                   f'connect: failure handler changed: {hb}')
            expect(not failure_ok, 'connect: more than one failure handler')
            failure_ok = True
            catches_all = 'Exception' in names
            expect(any(n in ('OSError', 'Exception') for n in names), 'connect: the failure handler does not cover OSError')
        else:
            raise Refuse(f'connect: unexpected handler {names}')
    expect(failure_ok, 'connect: no handler for Exception / TimeoutError')
    ob = tr.orelse
    ou = [U(s) for s in ob]
    expect(ou[-1] == 'await self.set_state(ConnectionState.CONNECTED)', f'connect: else branch must end with set_state(CONNECTED): {ou}')
    rechecks = False
    if isinstance(ob[0], ast.If):
        expect(U(ob[0].test) == 'self.state != ConnectionState.CONNECTING' and not ob[0].orelse
               and [U(s) for s in ob[0].body][0] == 'writer.close()' and U(ob[0].body[-1]).startswith('raise ConnectionFailedError('),
               f'connect: state re-check changed: {U(ob[0])}')
        rechecks = True
        rest = ou[1:]
    else:
        rest = ou
    streams_assigned = any(s.startswith('self._reader, self._writer =') for s in rest) or 'self._reader, self._writer = await' in tb[0]
    expect(streams_assigned and sum(1 for s in rest if 'set_state' in s) == 1, f'connect: else branch changed: {ou}')
    out.append(f'Definition CONNECT_CLOSES_ON_CANCEL : bool := {"true" if closes_on_cancel else "false"}.\n')
    out.append(f'Definition CONNECT_RECHECKS_STATE : bool := {"true" if rechecks else "false"}.\n')
    out.append('(* does the failure handler of connect() cover every exception open_connection can raise (OverflowError for a port\n'
               '   > 65535, UnicodeError for a host name that cannot be encoded, ...) or only OSError / timeout? *)\n')
    out.append(f'Definition CONNECT_FAILURE_CATCHES_ALL : bool := {"true" if catches_all else "false"}.\n')

    # ---- DataConnection.disconnect
    db = body(find_func(dc.body, 'disconnect'))
    expect(isinstance(db[0], ast.If) and isinstance(db[0].test, ast.Compare) and U(db[0].test.left) == 'self.state'
           and len(db[0].test.ops) == 1 and isinstance(db[0].test.ops[0], ast.In) and [U(s) for s in db[0].body] == ['return'] and not db[0].orelse,
           'disconnect: the idempotence guard must come first')
    guard = state_tuple(db[0].test.comparators[0], 'disconnect guard')
    for m in STATES:
        out.append(f'Definition GUARD_{m} : bool := {"true" if m in guard else "false"}.\n')
    rest = db[1:]
    ru = [U(s) for s in rest]
    expect(ru[0] == 'await self.set_state(ConnectionState.CLOSING, close_reason=reason)' and ru[1] == 'self._cancel_queued_messages()',
           f'disconnect: after the guard expected set_state(CLOSING); _cancel_queued_messages(): {ru[:2]}')
    expect(isinstance(rest[2], ast.Try), 'disconnect: expected the try statement')
    t = rest[2]
    tb = U(ast.Module(body=t.body, type_ignores=[]))
    expect('self._writer.close()' in tb and 'await self._writer.wait_closed()' in tb and 'atimeout(DISCONNECT_TIMEOUT)' in tb
           and tb.index('self._writer.close()') < tb.index('wait_closed'), 'disconnect: try body changed')
    expect(all('set_state' not in U(s) for s in t.body), 'disconnect: set_state inside the try body')
    expect(len(t.handlers) == 1 and handler_names(t.handlers[0]) == ['Exception'] and all('raise' not in U(s) for s in t.handlers[0].body),
           'disconnect: expected a single swallowing `except Exception`')
    closed_stmt = 'await self.set_state(ConnectionState.CLOSED, close_reason=reason)'
    clears = ['self._reader_task = None', 'self._reader = None', 'self._writer = None']
    fin = [U(s) for s in t.finalbody]
    after = ru[3:]
    if fin:
        expect(fin == [closed_stmt] + clears and not after, f'disconnect: finally clause changed: {fin} {after}')
        in_finally = True
    else:
        expect(after == [closed_stmt] + clears, f'disconnect: statements after the try changed: {after}')
        in_finally = False
    out.append(f'Definition DISCONNECT_CLOSED_IN_FINALLY : bool := {"true" if in_finally else "false"}.\n')

    # ---- reader loop
    rb = body(find_func(dc.body, '_message_reader_loop'))
    expect(len(rb) == 1 and isinstance(rb[0], ast.While) and U(rb[0].test) == 'not self._is_closing', 'reader loop: `while not self._is_closing`')
    w = rb[0]
    expect(len(w.body) == 1 and isinstance(w.body[0], ast.Try) and U(w.body[0].body[0]) == 'message = await self.receive_message_object()',
           'reader loop: body changed')
    hs = {tuple(handler_names(h)): [U(s) for s in h.body] for h in w.body[0].handlers}
    expect(set(hs) == {('ConnectionReadError',), ('MessageDeserializationError',)} and all(v == ['pass'] for v in hs.values()),
           f'reader loop: handlers changed: {hs}')
    ob = w.body[0].orelse
    expect(U(ob[0]) == 'if not message:\n    return', 'reader loop: EOF must end the loop')
    rechecks_closing = False
    if isinstance(ob[1], ast.If) and U(ob[1].test) == 'self._is_closing':
        expect([U(s) for s in ob[1].body] == ['pass'] and [U(s) for s in ob[1].orelse] == ['await self._perform_message_callback(message)'],
               'reader loop: re-check changed')
        rechecks_closing = True
    else:
        expect(U(ob[1]) == 'await self._perform_message_callback(message)', 'reader loop: delivery statement changed')
    out.append(f'Definition READER_RECHECKS_CLOSING : bool := {"true" if rechecks_closing else "false"}.\n')

    # ---- _read: every failure path closes the connection
    rd = body(find_func(dc.body, '_read'))
    expect(len(rd) == 1 and isinstance(rd[0], ast.Try), '_read shape')
    want = {'asyncio.IncompleteReadError': ['CloseReason.READ_ERROR', 'CloseReason.EOF'], 'asyncio.TimeoutError': ['CloseReason.TIMEOUT'],
            'Exception': ['CloseReason.READ_ERROR']}
    seen = {}
    for h in rd[0].handlers:
        nm = handler_names(h)
        expect(len(nm) == 1 and nm[0] in want, f'_read: unexpected handler {nm}')
        reasons = [U(c.args[0]) for c in ast.walk(ast.Module(body=h.body, type_ignores=[]))
                   if isinstance(c, ast.Call) and U(c.func) == 'self.disconnect']
        seen[nm[0]] = reasons
    expect(seen == want, f'_read: handlers close with {seen}')
    eb = U(ast.Module(body=rd[0].orelse, type_ignores=[]))
    expect('await self.disconnect(CloseReason.EOF)' in eb and 'return data' in eb, '_read: else branch changed')

    # ---- send_message / _send
    sm = body(find_func(dc.body, 'send_message'))
    skips = isinstance(sm[0], ast.If) and U(sm[0].test) == 'self._is_closing' and [U(s) for s in sm[0].body] == ['return']
    expect(U(sm[-2]) == 'await self._send(data, timeout=10)', 'send_message: tail changed')
    out.append(f'Definition SEND_SKIPS_WHEN_CLOSING : bool := {"true" if skips else "false"}.\n')
    sd = body(find_func(dc.body, '_send'))
    expect(isinstance(sd[0], ast.If) and U(sd[0].test) == 'not self._writer' and U(sd[0].body[-1]).startswith('raise ConnectionWriteError('),
           '_send: missing-writer guard changed')
    expect(isinstance(sd[1], ast.Try) and U(sd[1].body[0]) == 'self._writer.write(data)', '_send: write must come first')
    kinds = set()
    for h in sd[1].handlers:
        cs_ = [c.func.attr for c in ast.walk(ast.Module(body=h.body, type_ignores=[]))
               if isinstance(c, ast.Call) and isinstance(c.func, ast.Attribute) and c.func.attr in ('disconnect', '_disconnect_detached')]
        expect(len(cs_) == 1 and U(h.body[-1]).startswith('raise ConnectionWriteError('), '_send: failure handler changed')
        kinds.add(cs_[0])
    expect(len(sd[1].handlers) == 2 and len(kinds) == 1, '_send: handlers changed')
    detached = kinds == {'_disconnect_detached'}
    if detached:
        dd = [U(s) for s in body(find_func(dc.body, '_disconnect_detached'))]
        expect(dd == ['await asyncio.shield(asyncio.ensure_future(self.disconnect(reason)))'], f'_disconnect_detached changed: {dd}')
    out.append(f'Definition SEND_FAILURE_DISCONNECT_DETACHED : bool := {"true" if detached else "false"}.\n')

    # ---- network.py: registry
    nw = find_class(net, 'Network')
    ch = body(find_func(nw.body, '_on_peer_connection_state_changed'))
    expect(len(ch) == 1 and isinstance(ch[0], ast.If) and not ch[0].orelse and [U(s) for s in ch[0].body] == ['self.remove_peer_connection(connection)']
           and isinstance(ch[0].test, ast.Compare) and U(ch[0].test.left) == 'state' and isinstance(ch[0].test.ops[0], ast.Eq),
           '_on_peer_connection_state_changed changed')
    rem = ch[0].test.comparators[0]
    expect(isinstance(rem, ast.Attribute) and U(rem.value) == 'ConnectionState' and rem.attr in STATES, 'registry removal state')
    for m in STATES:
        out.append(f'Definition REGISTRY_REMOVE_ON_{m} : bool := {"true" if m == rem.attr else "false"}.\n')
    rp = [U(s) for s in body(find_func(nw.body, 'remove_peer_connection'))]
    expect(rp == ['if connection in self.peer_connections:\n    self.peer_connections.remove(connection)'], f'remove_peer_connection changed: {rp}')
    osc = U(ast.Module(body=body(find_func(nw.body, 'on_state_changed')), type_ignores=[]))
    expect(osc.index('_on_peer_connection_state_changed') < osc.index('ConnectionStateChangedEvent('), 'on_state_changed: registry before the event')
    opa = body(find_func(nw.body, 'on_peer_accepted'))
    expect(U(opa[0]) == 'self.peer_connections.append(connection)', 'on_peer_accepted: registration must come first')

    def registered_before_connect(fn, var):
        seq = [U(s) for s in body(fn)]
        i = seq.index(f'self.peer_connections.append({var})') if f'self.peer_connections.append({var})' in seq else -1
        expect(i >= 0 and not any('await' in s for s in seq[:i] if '_get_peer_address' not in s), f'{fn.name}: registration before connect changed')
        tail = U(ast.Module(body=body(fn)[i + 1:], type_ignores=[]))
        expect(f'await {var}.connect()' in tail, f'{fn.name}: connect after registration')
        closes = False
        for nd in ast.walk(fn):
            if isinstance(nd, ast.ExceptHandler) and nd.type is not None and any(n in ('asyncio.CancelledError', 'BaseException') for n in handler_names(nd)):
                hb = [U(s) for s in nd.body]
                if any(s.startswith(f'await {var}.disconnect(') for s in hb) and hb[-1] == 'raise':
                    closes = True
        return closes
    a1 = registered_before_connect(find_func(nw.body, '_make_direct_connection'), 'connection')
    a2 = registered_before_connect(find_func(nw.body, '_handle_connect_to_peer'), 'peer_connection')
    expect(a1 == a2, 'the two attempt coroutines treat cancellation differently')
    out.append(f'Definition ATTEMPT_CLOSES_ON_CANCEL : bool := {"true" if a1 else "false"}.\n')
    return {'C10LifeGen.v': ''.join(out)}


PINNED = [
    ('connection.py', 'Connection', ['set_state']),
    ('connection.py', 'ListeningConnection', ['accept']),
    ('connection.py', 'DataConnection', ['connect', 'disconnect', 'start_reader_task', 'stop_reader_task', '_message_reader_loop', '_read',
                                         'receive_message', 'receive_message_object', 'queue_message', '_send', '_disconnect_detached',
                                         'send_message', '_perform_message_callback', '_cancel_queued_messages']),
    ('connection.py', 'PeerConnection', ['connect', 'set_connection_state']),
    ('connection.py', 'ServerConnection', ['connect']),
    ('network.py', 'Network', ['select_port', 'create_peer_connection', '_create_peer_connection_fallback', '_create_peer_connection_race',
                               '_get_peer_address', '_remove_response_future', '_remove_connection_future', 'create_server_response_future',
                               'wait_for_server_message', 'remove_peer_connection', '_on_connect_to_peer', '_make_direct_connection',
                               '_make_indirect_connection', '_handle_connect_to_peer', '_finalize_peer_connection', 'on_state_changed',
                               '_on_peer_connection_state_changed', 'on_peer_accepted', 'on_message_received', 'connect_server']),
]


# HELPERS the modelled behaviour relies on without being anchored: (file under aioslsk/, [items]); an item is `Class` (whole class
# definition: enums, dataclasses, exceptions, settings), `Class.method` or a module-level `function`
HELPERS = [
    ('events.py', ['on_message', 'build_message_map', 'EventBus.__init__', 'EventBus.register', 'EventBus.unregister', 'EventBus.emit',
                   'EventBus.emit_sync', 'EventBus._get_listeners_for_event', 'EventBus._remove_callback', 'Event',
                   'ConnectionStateChangedEvent', 'PeerInitializedEvent', 'MessageReceivedEvent']),
    ('utils.py', ['ticket_generator', 'task_counter']),
    ('log_utils.py', ['ConnectionLoggerAdapter']),
    ('exceptions.py', ['AioSlskException', 'NetworkError', 'PeerConnectionError', 'ConnectionFailedError', 'ListeningConnectionFailedError',
                       'ConnectionReadError', 'ConnectionWriteError', 'MessageSerializationError', 'MessageDeserializationError']),
    ('settings.py', ['PeerSettings', 'ListeningSettings']),
    ('network/connection.py', ['PeerConnectionType', 'ConnectionState', 'CloseReason', 'PeerConnectionState', 'Connection.__init__',
                               'ListeningConnection.__init__', 'ListeningConnection.connect', 'ListeningConnection.disconnect',
                               'DataConnection.__init__', 'DataConnection._read_message', 'DataConnection.encode_message_data',
                               'DataConnection.decode_message_data', 'DataConnection.serialize_message', 'DataConnection._increase_read_timeout',
                               'DataConnection.queue_messages', 'ServerConnection.__init__', 'ServerConnection.deserialize_message',
                               'PeerConnection.__init__', 'PeerConnection.deserialize_message']),
    ('network/network.py', ['PeerConnectMode', 'ExpectedResponse.__init__', 'ExpectedResponse.matches', 'PeerFuture', 'Network.__init__',
                            'Network.create_server_connection', 'Network.create_listening_connections', 'Network.connect_listening_ports',
                            'Network.disconnect', 'Network.get_peer_connection', 'Network.get_peer_connections', 'Network.get_active_peer_connections',
                            'Network.register_response_future', 'Network._handle_connect_to_peer_callback', 'Network._cancel_all_tasks',
                            'Network.send_server_messages', 'Network.queue_server_messages']),
    ('protocol/messages.py', ['PeerInit', 'PeerPierceFirewall', 'ConnectToPeer', 'CannotConnect', 'GetPeerAddress']),
    ('constants.py', None),     # whole module (only assignments)
]


def _digest(node) -> str:
    dump = ast.dump(norm(node), annotate_fields=False, include_attributes=False)
    return hashlib.sha256(dump.encode()).hexdigest()[:16]


def _lookup(tree, item):
    parts = item.split('.')
    body = tree.body
    node = None
    for i, part in enumerate(parts):
        node = None
        for n in body:
            if isinstance(n, (ast.ClassDef, ast.FunctionDef, ast.AsyncFunctionDef)) and n.name == part:
                node = n
            elif isinstance(n, ast.Assign) and any(isinstance(t, ast.Name) and t.id == part for t in n.targets):
                node = n
            elif isinstance(n, ast.AnnAssign) and isinstance(n.target, ast.Name) and n.target.id == part:
                node = n
        if node is None:
            raise Refuse(f'helper {item} not found')
        body = getattr(node, 'body', [])
    return node


def fingerprints(src: Path) -> dict:
    out = {}
    for fname, cls, funcs in PINNED:
        tree = ast.parse((src / 'aioslsk' / 'network' / fname).read_text())
        c = find_class(tree, cls)
        for f in funcs:
            out[f'{cls}.{f}'] = _digest(find_func(c.body, f))
    for fname, items in HELPERS:
        tree = ast.parse((src / 'aioslsk' / fname).read_text())
        if items is None:
            out[f'helper:{fname}'] = _digest(tree)
            continue
        for item in items:
            out[f'helper:{fname}:{item}'] = _digest(_lookup(tree, item))
    # which methods / class attributes the connection classes define at all (identity semantics: no __eq__ / __hash__ ...)
    tree = ast.parse((src / 'aioslsk' / 'network' / 'connection.py').read_text())
    for cls in ('Connection', 'ListeningConnection', 'DataConnection', 'ServerConnection', 'PeerConnection'):
        c = find_class(tree, cls)
        names = sorted(n.name for n in c.body if isinstance(n, (ast.FunctionDef, ast.AsyncFunctionDef))) + ['bases:' + ','.join(ast.unparse(b) for b in c.bases)]
        out[f'members:{cls}'] = hashlib.sha256('|'.join(names).encode()).hexdigest()[:16]
    return out


if __name__ == '__main__':
    import sys
    root = Path(sys.argv[1] if len(sys.argv) > 1 else '/repo/src')
    if len(sys.argv) > 2 and sys.argv[2] == '--pin':
        p = Path(__file__).resolve().parent.parent / 'pinned' / 'c10c11_shapes.json'
        p.write_text(json.dumps(fingerprints(root), indent=1, sort_keys=True))
        print('pinned', p)
    else:
        print(translate(root)['C10LifeGen.v'])
