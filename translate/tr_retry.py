"""T3: retry / timeout constants and the failure -> retry-delay table -> gen/RetryGen.v

Sources (parsed with ``ast``; nothing is imported or executed):

* ``user/manager.py``: module constants ``RETRY_TIMEOUT_NET_ERROR``, ``RETRY_TIMEOUT_NON_EXISTING_USER``;
  ``UserTrackingManager._request_tracking`` — which constant every failure branch returns (send raised,
  TimeoutError, other exception, ``not response.exists``) and that success returns ``None``; the ``timeout=`` of its
  ``wait_for_server_message`` call; ``_request_retry`` (sleep(timeout), then a request with ``TrackingFlag(0)`` marked ``retry=True``);
  the default ``retry_timeout`` of ``_set_tracking_state``; the numeric values of ``TrackingFlag`` members
  (``user/model.py``).
* ``constants.py``: ``DEFAULT_COMMAND_TIMEOUT``; ``client.py``: ``execute``/``__call__`` use it as the default.
* ``network/network.py``: default ``timeout`` of ``wait_for_server_message`` / ``wait_for_peer_message``.

Anything that does not have exactly the expected shape raises ``Refuse`` (fail closed).
"""
from __future__ import annotations

import ast
from pathlib import Path

from .pyexpr import Refuse, find_class, find_func, HEADER


def _module_const(tree, name):
    for n in tree.body:
        tgt = val = None
        if isinstance(n, ast.Assign) and len(n.targets) == 1:
            tgt, val = n.targets[0], n.value
        elif isinstance(n, ast.AnnAssign):
            tgt, val = n.target, n.value
        if isinstance(tgt, ast.Name) and tgt.id == name:
            if isinstance(val, ast.Constant) and isinstance(val.value, (int, float)) and not isinstance(val.value, bool):
                v = val.value
                if float(v) != int(v) or not (0 < v < 100000):
                    raise Refuse(f'{name}: value {v!r} is not a positive integral number of seconds')
                return int(v)
            raise Refuse(f'{name}: not a numeric literal: {ast.dump(val)[:120]}')
    raise Refuse(f'{name} not found')


def _body(fn):
    return [s for s in fn.body if not (isinstance(s, ast.Expr) and isinstance(s.value, ast.Constant))]


def _default_of(fn, arg):
    args = fn.args.args
    defaults = [None] * (len(args) - len(fn.args.defaults)) + list(fn.args.defaults)
    for a, d in zip(args, defaults):
        if a.arg == arg:
            if d is None:
                raise Refuse(f'{fn.name}: parameter {arg} has no default')
            return d
    raise Refuse(f'{fn.name}: no parameter {arg}')


def _ret_first(ret, consts):
    """`return X, ...` -> name of the constant X, or None for the literal None."""
    if not (isinstance(ret, ast.Return) and isinstance(ret.value, ast.Tuple) and len(ret.value.elts) == 3):
        raise Refuse(f'_request_tracking: unexpected return shape: {ast.unparse(ret)[:120]}')
    e = ret.value.elts[0]
    if isinstance(e, ast.Constant) and e.value is None:
        return None
    if isinstance(e, ast.Name) and e.id in consts:
        return e.id
    raise Refuse(f'_request_tracking: retry delay is neither None nor a known constant: {ast.unparse(e)}')


def translate(src: Path) -> dict:
    base = src / 'aioslsk'
    um = ast.parse((base / 'user' / 'manager.py').read_text())
    consts = {n: _module_const(um, n) for n in ('RETRY_TIMEOUT_NET_ERROR', 'RETRY_TIMEOUT_NON_EXISTING_USER')}
    cm = ast.parse((base / 'constants.py').read_text())
    dct = _module_const(cm, 'DEFAULT_COMMAND_TIMEOUT')

    utm = find_class(um, 'UserTrackingManager')

    # ---- _request_tracking: try send / except Exception -> return C1 ; try wait / except TimeoutError -> C2 /
    #      except Exception -> C3 ; if not response.exists: return C4 ; return None
    rt = find_func(utm.body, '_request_tracking')
    b = _body(rt)
    if not (len(b) == 5 and isinstance(b[0], ast.Assign) and isinstance(b[1], ast.Try) and isinstance(b[2], ast.Try)
            and isinstance(b[3], ast.If) and isinstance(b[4], ast.Return)):
        raise Refuse('_request_tracking: statement structure changed')
    if ast.unparse(b[0]) != 'username = tracked_user.user.name':
        raise Refuse('_request_tracking: first statement changed')
    t1, t2 = b[1], b[2]
    if not (len(t1.body) == 1 and ast.unparse(t1.body[0]) == 'await self._network.send_server_messages(AddUser.Request(username))'
            and len(t1.handlers) == 1 and ast.unparse(t1.handlers[0].type) == 'Exception' and not t1.orelse and not t1.finalbody
            and len(t1.handlers[0].body) == 1):
        raise Refuse('_request_tracking: send block changed')
    d_send = _ret_first(t1.handlers[0].body[0], consts)
    if not (len(t2.body) == 1 and isinstance(t2.body[0], ast.Assign) and isinstance(t2.body[0].value, ast.Await)
            and isinstance(t2.body[0].value.value, ast.Call)
            and ast.unparse(t2.body[0].value.value.func) == 'self._network.wait_for_server_message'
            and len(t2.handlers) == 2 and not t2.orelse and not t2.finalbody):
        raise Refuse('_request_tracking: wait block changed')
    call = t2.body[0].value.value
    if [ast.unparse(a) for a in call.args] != ['AddUser.Response']:
        raise Refuse('_request_tracking: awaited message class changed')
    kws = {k.arg: k.value for k in call.keywords}
    if set(kws) != {'fields', 'timeout'} or ast.unparse(kws['fields']) != "{'username': username}":
        raise Refuse('_request_tracking: wait_for_server_message arguments changed')
    if not (isinstance(kws['timeout'], ast.Constant) and isinstance(kws['timeout'].value, int)):
        raise Refuse('_request_tracking: timeout is not an int literal')
    wait_timeout = kws['timeout'].value
    h1, h2 = t2.handlers
    if ast.unparse(h1.type) != 'TimeoutError' or ast.unparse(h2.type) != 'Exception' or len(h1.body) != 1 or len(h2.body) != 1:
        raise Refuse('_request_tracking: exception handlers changed')
    d_timeout = _ret_first(h1.body[0], consts)
    d_exc = _ret_first(h2.body[0], consts)
    if ast.unparse(b[3].test) != 'not response.exists' or len(b[3].body) != 1 or b[3].orelse:
        raise Refuse('_request_tracking: existence test changed')
    d_notex = _ret_first(b[3].body[0], consts)
    d_ok = _ret_first(b[4], consts)
    for nm, d in (('send failure', d_send), ('timeout', d_timeout), ('wait error', d_exc), ('not exists', d_notex)):
        if d is None:
            raise Refuse(f'_request_tracking: {nm} no longer schedules a retry')
    if d_ok is not None:
        raise Refuse('_request_tracking: success returns a retry delay')

    # ---- _request_retry: sleep(timeout); TrackingRequest(tracked_user.add_flag, TrackingFlag(0)); put_nowait
    rr = _body(find_func(utm.body, '_request_retry'))
    want = ['await asyncio.sleep(timeout)',
            'request = TrackingRequest(tracked_user.add_flag, TrackingFlag(0), retry=True)',
            'tracked_user.queue.put_nowait(request)']
    if [ast.unparse(s) for s in rr] != want:
        raise Refuse('_request_retry changed: ' + ' ; '.join(ast.unparse(s) for s in rr)[:300])

    # ---- _set_tracking_state default retry_timeout
    sts = find_func(utm.body, '_set_tracking_state')
    dflt = _default_of(sts, 'retry_timeout')
    if not (isinstance(dflt, ast.Name) and dflt.id in consts):
        raise Refuse('_set_tracking_state: default retry_timeout changed')
    set_default = dflt.id

    # ---- TrackingFlag members (auto() in declaration order => 1, 2, 4)
    mm = ast.parse((base / 'user' / 'model.py').read_text())
    tf = find_class(mm, 'TrackingFlag')
    if [ast.unparse(x) for x in tf.bases] != ['Flag']:
        raise Refuse('TrackingFlag is no longer a Flag')
    members = []
    for s in _body(tf):
        if isinstance(s, ast.Assign) and len(s.targets) == 1 and isinstance(s.targets[0], ast.Name):
            if ast.unparse(s.value) != 'auto()':
                raise Refuse(f'TrackingFlag.{s.targets[0].id} is not auto()')
            members.append(s.targets[0].id)
        else:
            raise Refuse('TrackingFlag: unexpected statement ' + ast.unparse(s)[:80])
    if members != ['REQUESTED', 'TRANSFER', 'FRIEND']:
        raise Refuse(f'TrackingFlag members changed: {members}')

    # ---- client.execute / __call__ default timeout; network wait defaults
    cl = ast.parse((base / 'client.py').read_text())
    sc = find_class(cl, 'SoulSeekClient')
    for fn in ('execute', '__call__'):
        d = _default_of(find_func(sc.body, fn), 'timeout')
        if not (isinstance(d, ast.Name) and d.id == 'DEFAULT_COMMAND_TIMEOUT'):
            raise Refuse(f'SoulSeekClient.{fn}: default timeout is not DEFAULT_COMMAND_TIMEOUT')
    nw = ast.parse((base / 'network' / 'network.py').read_text())
    nc = find_class(nw, 'Network')
    wd = {}
    for fn in ('wait_for_server_message', 'wait_for_peer_message'):
        d = _default_of(find_func(nc.body, fn), 'timeout')
        if not (isinstance(d, ast.Constant) and isinstance(d.value, int) and 0 < d.value < 100000):
            raise Refuse(f'Network.{fn}: default timeout is not an int literal')
        wd[fn] = d.value

    out = [HEADER.format(src='src/aioslsk/user/manager.py, user/model.py, constants.py, client.py, network/network.py')]
    out.append('(* seconds *)\n')
    for n, v in consts.items():
        out.append(f'Definition {n} : Z := {v}.\n')
    out.append(f'Definition DEFAULT_COMMAND_TIMEOUT : Z := {dct}.\n')
    out.append(f'Definition TRACKING_RESPONSE_TIMEOUT : Z := {wait_timeout}.\n')
    out.append(f'Definition WAIT_SERVER_DEFAULT_TIMEOUT : Z := {wd["wait_for_server_message"]}.\n')
    out.append(f'Definition WAIT_PEER_DEFAULT_TIMEOUT : Z := {wd["wait_for_peer_message"]}.\n')
    out.append(f'Definition SET_STATE_DEFAULT_RETRY : Z := {set_default}.\n\n')
    out.append('(* TrackingFlag bits (auto() in declaration order) *)\n')
    for i, m in enumerate(members):
        out.append(f'Definition FLAG_{m} : nat := {1 << i}%nat.\n')
    out.append('\n(* outcome of one _request_tracking attempt and the delay it returns (None = tracked) *)\n')
    out.append('Inductive attempt : Type := ASendFail | ANoAnswer | AWaitError | ANotExists | AExists.\n')
    out.append('Definition retry_delay (a : attempt) : option Z :=\n  match a with\n')
    out.append(f'  | ASendFail => Some {d_send}\n  | ANoAnswer => Some {d_timeout}\n  | AWaitError => Some {d_exc}\n'
               f'  | ANotExists => Some {d_notex}\n  | AExists => None\n  end.\n')
    return {'RetryGen.v': ''.join(out)}


if __name__ == '__main__':
    import sys
    print(translate(Path(sys.argv[1] if len(sys.argv) > 1 else '/repo/src'))['RetryGen.v'])
