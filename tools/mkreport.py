#!/venv/bin/python
"""Generate the findings / seeded-changes / theorem tables of DESIGN.md section 8 into REPORT.md."""
import json
import re
from pathlib import Path

V = Path(__file__).resolve().parent.parent
out = ['# Generated report (tools/mkreport.py): findings, theorems, seeded changes\n']
out.append('## Findings\n')
out.append('| property | key | status | what |\n|---|---|---|---|')
for f in sorted((V / 'findings').glob('C*.json')):
    d = json.loads(f.read_text())
    for e in d.get('fixed', []):
        out.append(f"| {f.stem} | `{e['key']}` | fixed: {e.get('commit','?')} | {e['what'][:300].replace('|','/')} |")
    for e in d.get('known', []):
        why = e.get('why_not_fixed', '')
        out.append(f"| {f.stem} | `{e['key']}` | known | {e['what'][:300].replace('|','/')} — *not repaired:* {why[:200].replace('|','/')} |")
out.append('\n## Property theorems (coq/theories/Cxx/Props.v)\n')
for p in sorted((V / 'coq' / 'theories').glob('C*/Props.v')):
    thms = re.findall(r'(?m)^\s*Theorem\s+([A-Za-z0-9_\']+)', p.read_text())
    out.append(f"* **{p.parent.name}** ({len(thms)}): " + ', '.join(f'`{t}`' for t in thms))
out.append('\n## Seeded changes\n')
out.append('| id | property | breaks | needs | caught by |\n|---|---|---|---|---|')
for d in sorted((V / 'seeded').glob('*')):
    mf = d / 'meta.json'
    if not mf.exists():
        continue
    m = json.loads(mf.read_text())
    cb = m.get('caught_by')
    if isinstance(cb, dict):
        cb = ', '.join(v.replace('.json', '') for v in cb.get('violations', []))
    out.append(f"| {d.name} | {m['property']} | {(m.get('breaks') or '')[:220].replace('|','/')} | {(m.get('needs_to_manifest') or '')[:160].replace('|','/')} | {(cb or 'NOT CAUGHT / pending')[:260].replace('|','/')} |")
(V / 'REPORT.md').write_text('\n'.join(out) + '\n')
print('written REPORT.md', len(out), 'lines')
