#!/venv/bin/python
"""Lead-only: merge a builder's phase-2 result.  tools/merge_phase2.py <grp>

1. applies each diff of /tmp/v2_<grp>/FIXES.txt to /repo as its own commit ("fix: ..."), after checking it applies;
2. copies the modified / new tracked-able files of /tmp/v2_<grp> (except evidence/, replays/, build output) into /verif;
3. fills the "commit" field of fixed entries in the copied findings files."""
import json
import re
import shutil
import subprocess
import sys
from pathlib import Path

grp = sys.argv[1]
src = Path(f'/tmp/v2_{grp}')
V = Path('/verif')
fixes = []
for ln in (src / 'FIXES.txt').read_text().splitlines():
    if '|' in ln:
        d, subj = [x.strip() for x in ln.split('|', 1)]
        fixes.append((d, subj))
commits = {}
orig = subprocess.run(['git', '-C', '/repo', 'rev-parse', 'HEAD'], capture_output=True, text=True).stdout.strip()
skip = set(sys.argv[2:])      # diff stems already committed by another group
for d, subj in fixes:
    if Path(d).stem in skip:
        print('skipped (already committed):', d)
        continue
    diff = src / d
    if not diff.exists():
        diff = V / d
    ap = subprocess.run(['git', '-C', '/repo', 'apply', str(diff)], capture_output=True, text=True)
    if ap.returncode != 0:
        print('DOES NOT APPLY:', d, ap.stderr[:400])
        subprocess.run(['git', '-C', '/repo', 'reset', '-q', '--hard', orig], check=True)
        sys.exit(1)
    if not subj.startswith('fix:'):
        subj = 'fix: ' + subj
    subprocess.run(['git', '-C', '/repo', 'commit', '-qam', subj], check=True)
    h = subprocess.run(['git', '-C', '/repo', 'rev-parse', '--short', 'HEAD'], capture_output=True, text=True).stdout.strip()
    commits[Path(d).stem] = h
    print('committed', h, subj)
st = subprocess.run(['git', '-C', str(src), 'status', '--short', '--untracked-files=all'], capture_output=True, text=True).stdout
for ln in st.splitlines():
    path = ln[3:].strip()
    if path.startswith(('evidence/', 'replays/', 'build/', 'FIXES.txt')) or path.endswith(('.vo', '.glob', '.aux', '.vok', '.vos')):
        continue
    if ln.startswith(' D') or ln.startswith('D '):
        (V / path).unlink(missing_ok=True)
        print('deleted', path)
        continue
    (V / path).parent.mkdir(parents=True, exist_ok=True)
    shutil.copy2(src / path, V / path)
    print('copied', path)
for f in (V / 'findings').glob('C*.json'):
    d = json.loads(f.read_text())
    ch = False
    for e in d.get('fixed', []):
        c = e.get('commit', '')
        if not c or '<' in c or 'lead' in c:
            m = re.match(r'(C\d+-N\d+|F\d+[a-z]?)', e['key'])
            k = m.group(1) if m else None
            cand = [h for name, h in commits.items() if k and name.startswith(k)] or ([commits[k]] if k in commits else [])
            if not cand and k:
                cand = [h for name, h in commits.items() if name.startswith(k.rstrip('abc'))]
            if cand:
                e['commit'] = ' '.join(cand)
                ch = True
    if ch:
        f.write_text(json.dumps(d, indent=1) + '\n')
        print('filled commits in', f.name)
print(commits)
