#!/venv/bin/python
"""Confirm a seeded change produced by a sub-agent and keep it under /verif/seeded/<ID>-m<k>/.

  tools/seedconfirm.py /tmp/seed/out_C20/m1 [--e2e]

Confirms in a fresh scratch worktree of /repo HEAD: demo exits 0 without the patch, non-zero with it;
the patch applies; the unit suite (and with --e2e the e2e suite, under a lock) still passes with it."""
import argparse
import json
import os
import shutil
import subprocess
import sys
from pathlib import Path

V = Path(__file__).resolve().parent.parent
ap = argparse.ArgumentParser()
ap.add_argument('dir')
ap.add_argument('--e2e', action='store_true')
ap.add_argument('--tag', default='')
a = ap.parse_args()
d = Path(a.dir).resolve()
meta = json.loads((d / 'meta.json').read_text())
prop = meta['property']
name = f'{prop}-{a.tag}{d.name}'
wt = Path(f'/tmp/sc_{name}')
subprocess.run(['git', '-C', '/repo', 'worktree', 'remove', '--force', str(wt)], capture_output=True)
subprocess.run(['git', '-C', '/repo', 'worktree', 'add', '-f', str(wt), 'HEAD'], check=True, capture_output=True)
ran = []
ok = True
try:
    env = dict(os.environ, PYTHONPATH=str(wt / 'src'), PYTHONHASHSEED='0')

    def demo():
        return subprocess.run(['/venv/bin/python', str(d / 'demo.py')], cwd=wt, env=env, capture_output=True, text=True, timeout=900).returncode
    r0 = demo()
    ran.append(f'demo.py on unchanged worktree: exit {r0}')
    ap_ = subprocess.run(['git', '-C', str(wt), 'apply', str(d / 'patch.diff')], capture_output=True, text=True)
    ran.append(f'git apply patch.diff: exit {ap_.returncode}')
    if ap_.returncode != 0:
        ap_ = subprocess.run(['git', '-C', str(wt), 'apply', '-3', str(d / 'patch.diff')], capture_output=True, text=True)
        conflict = '<<<<<<<' in subprocess.run(['git', '-C', str(wt), 'diff'], capture_output=True, text=True).stdout
        ran.append(f'git apply -3 patch.diff: exit {ap_.returncode} conflict={conflict}')
        if conflict:
            ap_.returncode = 1
        elif ap_.returncode == 0:
            # keep the rebased patch
            rebased = subprocess.run(['git', '-C', str(wt), 'diff', 'HEAD'], capture_output=True, text=True).stdout
            (d / 'patch.rebased.diff').write_text(rebased)
    if ap_.returncode != 0:
        ok = False
    else:
        r1 = demo()
        ran.append(f'demo.py with patch: exit {r1}')
        t = subprocess.run(['/venv/bin/python', '-m', 'pytest', '-q', '-p', 'no:cacheprovider', '-x', 'tests/unit'], cwd=wt, env=env,
                           capture_output=True, text=True, timeout=1800)
        ran.append(f'pytest tests/unit with patch: exit {t.returncode} ({t.stdout.strip().splitlines()[-1] if t.stdout.strip() else ""})')
        ok = (r0 == 0 and r1 != 0 and t.returncode == 0)
        touched = (d / 'patch.diff').read_text()
        if ok and (a.e2e or any(x in touched for x in ('network/', 'transfer/', 'client.py', 'distributed.py', 'search/manager', 'peer.py', 'user/manager', 'room/manager'))):
            e = subprocess.run(['flock', '/tmp/seed/e2e.lock', '/venv/bin/python', '-m', 'pytest', '-q', '-p', 'no:cacheprovider', '--timeout=900', '-ra', 'tests/e2e'],
                               cwd=wt, env=env, capture_output=True, text=True, timeout=3600)
            ran.append(f'pytest tests/e2e with patch: exit {e.returncode} ({e.stdout.strip().splitlines()[-1] if e.stdout.strip() else ""})')
            if e.returncode != 0:
                # the e2e suite binds fixed local ports; other jobs on this machine can collide with it: retry once
                failed = [l for l in e.stdout.splitlines() if l.startswith(('FAILED', 'ERROR'))]
                ran.append('   failing: ' + '; '.join(failed)[:600])
                e = subprocess.run(['flock', '/tmp/seed/e2e.lock', '/venv/bin/python', '-m', 'pytest', '-q', '-p', 'no:cacheprovider', '--timeout=900', '-ra', 'tests/e2e'],
                                   cwd=wt, env=env, capture_output=True, text=True, timeout=3600)
                failed = [l for l in e.stdout.splitlines() if l.startswith(('FAILED', 'ERROR'))]
                ran.append(f'pytest tests/e2e with patch (retry): exit {e.returncode} ({e.stdout.strip().splitlines()[-1] if e.stdout.strip() else ""}) ' + '; '.join(failed)[:600])
            ok = ok and e.returncode == 0
finally:
    subprocess.run(['git', '-C', '/repo', 'worktree', 'remove', '--force', str(wt)], capture_output=True)
print(name, 'CONFIRMED' if ok else 'REJECTED')
for r in ran:
    print('  ', r)
if ok:
    out = V / 'seeded' / name
    out.mkdir(parents=True, exist_ok=True)
    if (d / 'patch.rebased.diff').exists():
        shutil.copy(d / 'patch.diff', out / 'patch.orig.diff')
        shutil.copy(d / 'patch.rebased.diff', out / 'patch.diff')
    else:
        shutil.copy(d / 'patch.diff', out / 'patch.diff')
    shutil.copy(d / 'demo.py', out / 'demo.py')
    m = {'property': prop, 'breaks': meta.get('summary'), 'needs_to_manifest': meta.get('needs_to_manifest'),
         'origin': 'fresh sub-agent given only the property text and a scratch worktree', 'confirmed_by': ran, 'caught_by': None}
    (out / 'meta.json').write_text(json.dumps(m, indent=1) + '\n')
sys.exit(0 if ok else 1)
