#!/venv/bin/python
"""Assemble MANIFEST.json and known_findings.json from per-property fragments
(meta/Cxx.json, findings/Cxx.json).  Run by hand after editing a fragment; never at check time."""
import json
import sys
from pathlib import Path

V = Path(__file__).resolve().parent.parent
props = [json.loads(l) for l in (V / 'properties.jsonl').read_text().splitlines() if l.strip()]
ids = [p['id'] for p in props]

ready = set((V / 'meta' / 'READY').read_text().split())
checks, na = [], []
for pid in ids:
    f = V / 'meta' / f'{pid}.json'
    if not f.exists() or pid not in ready:
        na.append({'property_id': pid, 'reason': 'check not built yet in this round (machinery under construction; see DESIGN.md section 3 for the planned design)'})
        continue
    m = json.loads(f.read_text())
    if m.get('not_applicable'):
        na.append({'property_id': pid, 'reason': m['not_applicable']})
        continue
    checks.append({
        'property_id': pid,
        'quick_cmd': f'./check {pid} --tier quick',
        'thorough_cmd': f'./check {pid} --tier thorough',
        'evidence_file': f'/verif/evidence/{pid}.json',
        'replay_cmd_template': f'./check {pid} --replay {{path}}',
        'engine': 'coq-proof+correspondence',
        'level_claimed': {'category': m.get('category', 'proof'), 'text': m['level_text'], 'design_ref': m.get('design_ref', f'DESIGN.md section 3, {pid}')},
        'level_note': m['level_note'],
        'technique': m['technique'],
    })

manifest = {
    'version': 1,
    'setup_cmd': './setup.sh',
    'hooks': {
        'guard': 'AIOSLSK_VERIF',
        'enable': 'no source hooks are needed: the harness injects fake transports, clocks and executors from outside (AIOSLSK_VERIF is reserved and unused)',
        'baseline_off_cmd': 'cd /repo && /venv/bin/python -m pytest -ra -q -p no:cacheprovider --timeout=900 --continue-on-collection-errors',
        'source_commits': [],
        'add_only': True,
    },
    'engines': [{
        'name': 'coq-proof+correspondence', 'path': '/verif/check',
        'serves_properties': [c['property_id'] for c in checks],
        'kind_free_text': 'Coq 8.16.1 theorems over Gallina models; models regenerated from /repo by fail-closed Python-ast translators (/verif/translate) '
                          'or hand-written and tied by a correspondence check that runs the real code (fake transports, virtual-time asyncio loop) and the '
                          'model (vm_compute inside coqc) on the same inputs/histories; monitors evaluate the property text on implementation traces to find concrete failing inputs',
    }],
    'checks': checks,
    'not_applicable': na,
    'notes': 'See DESIGN.md. known_findings.json lists recorded defects (KNOWN-FINDING lines) and fixed ones.',
}
(V / 'MANIFEST.json').write_text(json.dumps(manifest, indent=1) + '\n')

known, fixed = [], []
for pid in ids:
    f = V / 'findings' / f'{pid}.json'
    if f.exists():
        d = json.loads(f.read_text())
        for k in d.get('known', []):
            k['property'] = pid
            known.append(k)
        for k in d.get('fixed', []):
            k['property'] = pid
            fixed.append(k)
(V / 'known_findings.json').write_text(json.dumps({'known': known, 'fixed': fixed}, indent=1) + '\n')
print(f'{len(checks)} checks, {len(na)} not_applicable, {len(known)} known findings, {len(fixed)} fixed')
