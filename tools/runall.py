#!/venv/bin/python
"""Run every claimed check (MANIFEST.json) in parallel on /repo and summarise. tools/runall.py [quick|thorough] [-j N]"""
import json
import subprocess
import sys
import time
from concurrent.futures import ThreadPoolExecutor
from pathlib import Path

V = Path(__file__).resolve().parent.parent
tier = sys.argv[1] if len(sys.argv) > 1 and not sys.argv[1].startswith('-') else 'quick'
jobs = int(sys.argv[sys.argv.index('-j') + 1]) if '-j' in sys.argv else 4
m = json.loads((V / 'MANIFEST.json').read_text())


def one(c):
    t = time.time()
    cmd = c['quick_cmd'] if tier == 'quick' else c.get('thorough_cmd', c['quick_cmd'])
    r = subprocess.run(cmd, shell=True, cwd=V, capture_output=True, text=True)
    lines = [l for l in r.stdout.splitlines() if l.startswith(('VIOLATION', 'KNOWN-FINDING', 'OK'))]
    return c['property_id'], r.returncode, time.time() - t, lines, r.stderr[-600:] if r.returncode not in (0,) else ''


with ThreadPoolExecutor(jobs) as ex:
    res = list(ex.map(one, m['checks']))
bad = 0
for pid, rc, dt, lines, err in res:
    print(f'{pid} exit={rc} {dt:.0f}s')
    for l in lines:
        print('   ' + l[:220])
    if rc != 0:
        bad += 1
        print('   stderr:', err)
print('failed:', bad)
