#!/venv/bin/python
"""Run tools/seedtest.py for the given seeded/<name> dirs (default: all) in parallel and record the outcome
in each meta.json (caught_by).  tools/seedall.py [-j N] [names...]"""
import json
import subprocess
import sys
from concurrent.futures import ThreadPoolExecutor
from pathlib import Path

V = Path(__file__).resolve().parent.parent
args = sys.argv[1:]
jobs = 3
if '-j' in args:
    i = args.index('-j')
    jobs = int(args[i + 1])
    del args[i:i + 2]
names = args or sorted(p.name for p in (V / 'seeded').iterdir() if (p / 'meta.json').exists())


def one(name):
    r = subprocess.run([str(V / 'tools' / 'seedtest.py'), f'seeded/{name}'], cwd=V, capture_output=True, text=True)
    txt = r.stdout
    mp = V / 'seeded' / name / 'meta.json'
    m = json.loads(mp.read_text())
    head = subprocess.run(['git', '-C', '/repo', 'rev-parse', '--short', 'HEAD'], capture_output=True, text=True).stdout.strip()
    if 'PATCH-STALE' in txt:
        res = 'PATCH-STALE'
        m['note'] = f'patch does not apply to /repo HEAD {head} (the lines it edits were rewritten by a repair)'
    else:
        viol = [l.strip() for l in txt.splitlines() if 'VIOLATION' in l]
        reps = [l.strip()[:260] for l in txt.splitlines() if l.strip().startswith('replay ')]
        if viol:
            concrete = [v for v in viol if 'no-failing-input-found' not in v]
            m['caught_by'] = {'cmd': f"./check {m['property']} --tier quick", 'repo_head': head,
                              'violations': [v.split('replay=')[-1].split('/')[-1] for v in viol], 'replays': reps[:4]}
            res = 'CAUGHT' if concrete else 'CAUGHT-NO-INPUT'
        else:
            m['caught_by'] = None
            res = 'MISSED'
    mp.write_text(json.dumps(m, indent=1) + '\n')
    return name, res


with ThreadPoolExecutor(jobs) as ex:
    for name, res in ex.map(one, names):
        print(f'{name:12s} {res}')
