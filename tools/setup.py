#!/venv/bin/python
"""setup: regenerate every gen/*.v from /repo (best effort: a refusing translator is reported by
the property check that needs it, not here) and build the whole Coq project once."""
import os
import sys
from pathlib import Path
sys.path.insert(0, str(Path(__file__).resolve().parent.parent))
from vlib import common

names = sorted(p.stem for p in (common.VERIF / 'translate').glob('tr_*.py'))
lk = common._lock()
import importlib
for n in names:
    if not hasattr(importlib.import_module(f'translate.{n}'), 'translate'):
        continue   # helper module (pins), not a generator
    try:
        common.run_translators([n])
        print('translated', n)
    except common.BrokenTie as e:
        print('translator refused:', e)
common.ensure_makefile()
ok, out = common.coq_make([], timeout=3000)
print(out[-3000:])
# a failing build is not fatal for setup: each check rebuilds its own targets and reports
sys.exit(0)
