#!/venv/bin/python
"""Run a property check against a seeded change in a scratch worktree (never touches /repo's tree).

  tools/seedtest.py seeded/<name> [--tier quick] [--keep]

Reads seeded/<name>/meta.json (property) and patch.diff; creates /tmp/st_<name> worktree of /repo HEAD,
applies the patch, runs ./check with VERIF_REPO/VERIF_WORK pointing there, prints the verdict lines,
removes everything.  Also confirms the demo fails with the patch (and passes without) when --demo."""
import argparse
import json
import os
import shutil
import subprocess
import sys
from pathlib import Path

V = Path(__file__).resolve().parent.parent
ap = argparse.ArgumentParser()
ap.add_argument('dir')
ap.add_argument('--tier', default='quick')
ap.add_argument('--demo', action='store_true')
ap.add_argument('--prop')
a = ap.parse_args()
d = Path(a.dir).resolve()
meta = json.loads((d / 'meta.json').read_text())
prop = a.prop or meta['property']
name = d.name
wt = Path(f'/tmp/st_{name}')
work = Path(f'/tmp/stw_{name}')
subprocess.run(['git', '-C', '/repo', 'worktree', 'remove', '--force', str(wt)], capture_output=True)
shutil.rmtree(work, ignore_errors=True)
subprocess.run(['git', '-C', '/repo', 'worktree', 'add', '-f', str(wt), 'HEAD'], check=True, capture_output=True)
try:
    env = dict(os.environ, PYTHONPATH=str(wt / 'src'), PYTHONHASHSEED='0')
    if a.demo:
        r0 = subprocess.run(['/venv/bin/python', str(d / 'demo.py')], cwd=wt, env=env, capture_output=True, text=True, timeout=600)
        print(f'demo without patch: exit {r0.returncode}')
    ap1 = subprocess.run(['git', '-C', str(wt), 'apply', str(d / 'patch.diff')], capture_output=True, text=True)
    if ap1.returncode != 0:
        ap2 = subprocess.run(['git', '-C', str(wt), 'apply', '-3', str(d / 'patch.diff')], capture_output=True, text=True)
        if ap2.returncode != 0 or '<<<<<<<' in subprocess.run(['git', '-C', str(wt), 'diff'], capture_output=True, text=True).stdout:
            print('PATCH-STALE: does not apply to current /repo HEAD:', ap1.stderr[:300])
            sys.exit(4)
        print('(patch applied with 3-way merge)')
    if a.demo:
        r1 = subprocess.run(['/venv/bin/python', str(d / 'demo.py')], cwd=wt, env=env, capture_output=True, text=True, timeout=600)
        print(f'demo with patch: exit {r1.returncode}')
    env2 = dict(os.environ, VERIF_REPO=str(wt), VERIF_WORK=str(work), VERIF_EVIDENCE_DIR=str(work / 'ev'),
                VERIF_REPLAY_DIR=str(work / 'rp'))
    r = subprocess.run([str(V / 'check'), prop, '--tier', a.tier], cwd=V, env=env2, capture_output=True, text=True, timeout=3600)
    lines = [l for l in r.stdout.splitlines() if l.startswith(('VIOLATION', 'KNOWN-FINDING', 'OK'))]
    print(f'check {prop} exit {r.returncode}')
    for l in lines:
        print('  ' + l[:300])
    for l in r.stderr.splitlines():
        if 'BROKEN' in l or 'finding' in l:
            print('  [stderr] ' + l[:300])
    rp = work / 'rp'
    if rp.exists():
        for f in sorted(rp.glob('*.json')):
            j = json.loads(f.read_text())
            print('  replay', f.name, j.get('kind'), (j.get('what') or str(j.get('obligations'))[:300]))
    sys.exit(0 if r.returncode == 1 else 3)   # 0 = detected
finally:
    subprocess.run(['git', '-C', '/repo', 'worktree', 'remove', '--force', str(wt)], capture_output=True)
    shutil.rmtree(work, ignore_errors=True)
