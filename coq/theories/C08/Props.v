(* C08 property theorems (statements; proofs in Proofs.v).  Model: C08/Model.v on top of C07/Model.v,
   tied to the source by the correspondence check of checks/c08.py on a full client.
   Phase 2: the model is the REPAIRED code (fixes F04 F05 F06 F27). *)
From Slsk Require Import Base.Tac.
From SlskGen Require Import CharTable SharesGen.
From Slsk Require Import C07.Model C07.Proofs C08.Model C08.Proofs.

(* After EVERY sequence of share operations: whatever a query lists as a normal result for a user is held by a listed
   directory, and every directory holding it permits the user (the owner-pointer invariant now always holds: F05 repaired) *)
Theorem C08_visible_entitled : forall ops c user qs x, user <> [] ->
  In x (fst (query_split (run ops) c user qs)) ->
  (exists d, In d (listed (run ops)) /\ In x (ditems d)) /\ holder_permits (run ops) c user x.
Proof. exact visible_entitled_run. Qed.

(* ... and whatever is reported as locked is locked for the user by its holder *)
Theorem C08_locked_not_entitled : forall ops c user qs x,
  In x (snd (query_split (run ops) c user qs)) ->
  (exists d, In d (listed (run ops)) /\ In x (ditems d)) /\ holder_locks (run ops) c user x.
Proof. exact locked_not_entitled_run. Qed.

(* No result (visible or locked) contains an excluded phrase, case-insensitively (F06 repaired) *)
Theorem C08_excluded_phrases : forall ops c user qs x ph,
  In x (fst (query_split (run ops) c user qs)) \/ In x (snd (query_split (run ops) c user qs)) ->
  In ph (phrases c) -> substring (lower_s ph) (lower_s (qpath x)) = false.
Proof. intros ops. apply excluded_phrases. Qed.

(* PeerSharesReply: a file is listed in the normal part only when the directory holding it permits the asking user, in the
   locked part only when it locks the user, and every held file is listed in one of them *)
Theorem C08_shares_reply_entitled : forall s c user,
  (forall x, In x (shares_visible s c user) -> exists d, In d (listed s) /\ In x (ditems d) /\ dir_locked (friends c) d user = false) /\
  (forall x, In x (shares_locked s c user) -> exists d, In d (listed s) /\ In x (ditems d) /\ dir_locked (friends c) d user = true) /\
  (forall d x, In d (listed s) -> In x (ditems d) -> In x (shares_visible s c user) \/ In x (shares_locked s c user)).
Proof.
  intros s c0 user. split; [apply shares_visible_entitled|]. split; [apply shares_locked_locked | apply shares_complete].
Qed.

(* PeerDirectoryContentsReply does NOT have this property (finding F28, kept known): the files of a friends-only directory are
   listed to a user who is not a friend *)
Theorem C08_directory_reply_refuted : exists ops c user rd x d,
  In x (directory_reply (run ops) rd) /\ In d (listed (run ops)) /\ In x (ditems d) /\ dir_locked (friends c) d user = true.
Proof. exact directory_reply_refuted. Qed.

(* update_shared_directory(dir, share_mode, users) takes effect for every value given, including the EMPTY user list (None =
   keep): afterwards a user removed from the list is locked out of a users-only directory *)
Theorem C08_update_takes_effect : forall s p m us d c user, find_listed p (listed s) = Some d ->
  exists d', find_listed p (listed (step s (Update p m us))) = Some d' /\
    dusers d' = (match us with Some u => u | None => dusers d end) /\
    dmode d' = (match m with Some m' => m' | None => dmode d end) /\
    (dmode d' = Users -> mem_str user (dusers d') = false -> dir_locked (friends c) d' user = true).
Proof.
  intros s p m us d c0 user H. destruct (update_effect s p m us d H) as [d' [F [U [M _]]]].
  exists d'. split; [exact F|]. split; [exact U|]. split; [exact M|].
  intros Hm Hu. rewrite dir_locked_eq. rewrite Hm, Hu. reflexivity.
Qed.

(* no search reply goes to a user blocked for searches (or without a session) *)
Theorem C08_search_block : forall s c user qs,
  mem_str user (blocked_searches c) = true \/ has_session c = false -> search_reply s c user qs = None.
Proof. exact search_block. Qed.

(* PeerTransferQueue / PeerTransferRequest from a user blocked for uploads, or for a path that is not found or is
   locked for the user: the failure reply "File not shared." is sent, no transfer is created, and the only change
   to existing transfers is a move to FAILED *)
Theorem C08_no_upload_for_blocked_or_unentitled : forall s c ts user rp, refused s c user rp ->
  (let r := on_transfer_queue s c ts user rp in
   snd r = Some FNotShared /\ length (fst r) = length ts /\ (forall t, In t (fst r) -> In t ts \/ tst t = Failed)) /\
  (let r := on_transfer_request s c ts user rp in
   snd r = Some FNotShared /\ length (fst r) = length ts /\ (forall t, In t (fst r) -> In t ts \/ tst t = Failed)).
Proof. intros s c ts user rp H. split; [apply queue_refused | apply request_refused]; exact H. Qed.

(* conversely an upload is created only for a user who is not blocked and an item that a listed directory holds and
   that is unlocked for the user (through the item's pointer, which by C07_owner_pointer is the holder) *)
Theorem C08_upload_created_only_if_entitled : forall s c ts user rp, user <> [] ->
  length (fst (on_transfer_queue s c ts user rp)) > length ts \/ length (fst (on_transfer_request s c ts user rp)) > length ts ->
  mem_str user (blocked_uploads c) = false /\
  exists x, lookup_item s c user rp = Found x /\ entitled s c user x = true /\ exists d, In d (listed s) /\ In x (ditems d).
Proof. exact created_only_if_entitled. Qed.

(* After the shares-changed cycle every unfinished upload is either permitted and not ABORTED, or ABORTED with the
   first applicable reason in the order Requested > Blocked > File not shared (VIRGIN transfers cannot be aborted);
   an upload aborted for a reason that no longer applies is QUEUED again with the reason cleared; an upload aborted
   on the user's request is left alone; the cycle is idempotent. *)
Theorem C08_cycle_converges : forall s c ts,
  (forall t, In t (shares_cycle s c ts) -> unfinished t = true -> settled s c t) /\
  (forall t, tst t = Aborted -> tabort t <> Some Requested -> first_reason s c t = None ->
     tst (cycle_one s c t) = Queued /\ tabort (cycle_one s c t) = None) /\
  (forall t, tst t = Aborted -> tabort t = Some Requested -> cycle_one s c t = t) /\
  shares_cycle s c (shares_cycle s c ts) = shares_cycle s c ts.
Proof.
  intros s c ts. split; [|split; [|split]].
  - intros t H U. unfold shares_cycle in H. apply in_map_iff in H. destruct H as [t0 [E _]]. subst t.
    apply cycle_one_settled. exact U.
  - intros t H1 H2 H3. rewrite cycle_one_cyc. rewrite first_reason_fr in H3. unfold fr in H3.
    destruct (eqb_opt eqb_areason (tabort t) (Some Requested)); [discriminate|].
    destruct (Bof c t) eqn:B; [discriminate|]. destruct (Fof s c t) eqn:F; [|discriminate].
    apply cyc_requeue; auto.
  - intros t H1 H2. rewrite cycle_one_cyc. apply cyc_requested_stays; assumption.
  - apply cycle_idem.
Qed.

(* non-vacuity: the hypotheses are met by concrete states: an owner_ok state with a non-empty visible result, a refused
   and a granted request, a transfer the cycle aborts *)
Example C08_nonvacuous :
  let s := run ops_f04 in
  fst (query_split s cfg0 u1 w_sing) <> [] /\
  refused s (mkCfg [] [u1] [] [] 100 true) u1 w_sing /\
  length (fst (on_transfer_queue s cfg0 [] u1 (remote_path (c [97]) (mkItem 0 [w_d] [] w_sing 5%N)))) = 1 /\
  tst (cycle_one s (mkCfg [] [u1] [] [] 100 true) (mkT u1 w_sing Queued None None)) = Aborted.
Proof. vm_compute. repeat split; try discriminate. left. reflexivity. Qed.

(* the histories that used to violate the property (F05: nested friends-only directory added without rescan; F06: upper-case
   phrase) now behave: the stranger sees the moved file as locked, the phrase SING removes sing.mp3 *)
Example C08_repaired_witnesses :
  fst (query_split (run ops_f05) cfg0 u1 (c [100;101;101;112])) = [] /\
  length (snd (query_split (run ops_f05) cfg0 u1 (c [100;101;101;112]))) = 1 /\
  fst (query_split (run ops_f04) (mkCfg [] [] [] [w_SING] 100 true) u1 (c [115;105;110;103])) = [].
Proof. vm_compute. repeat split; repeat constructor. Qed.
