(* C08 model: entitlement.  Built on the shares/query model of C07 (same state, same operations).
   Definitions only, executable. *)
From Coq Require Import NArith List Bool Arith.
From SlskGen Require Import CharTable SharesGen.
From Slsk Require Import C07.Model.
Import ListNotations.

(* the run-time configuration the decisions read (settings.users.friends / blocked, the server's excluded phrases,
   searches.receive.max_results, whether a session exists) *)
Record cfg := mkCfg { friends : list str; blocked_uploads : list str; blocked_searches : list str;
                      phrases : list str; max_results : nat; has_session : bool }.

(* entitlement as the code decides it: through the item's own pointer to a SharedDirectory object *)
Definition entitled (s : state) (c : cfg) (user : str) (x : item) : bool := negb (item_locked s (friends c) user x).
(* entitlement by the rules of the directory that actually holds the item *)
Definition holder_permits (s : state) (c : cfg) (user : str) (x : item) : Prop :=
  forall d, In d (listed s) -> In x (ditems d) -> dir_locked (friends c) d user = false.
Definition holder_locks (s : state) (c : cfg) (user : str) (x : item) : Prop :=
  forall d, In d (listed s) -> In x (ditems d) -> dir_locked (friends c) d user = true.
(* owner-pointer invariant: every held item points at (the current record of) its holder *)
Definition owner_ok (s : state) : Prop :=
  forall d x, In d (listed s) -> In x (ditems d) -> find_obj s (oid x) = Some d.

(* SharesManager.query(query, username, excluded_search_phrases): visible / locked split *)
Definition split_results (s : state) (c : cfg) (user : str) (res : list item) : list item * list item :=
  match user with
  | [] => (res, [])
  | _ => (filter (entitled s c user) res, filter (fun x => negb (entitled s c user x)) res)
  end.
Definition query_split (s : state) (c : cfg) (user : str) (qs : str) : list item * list item :=
  split_results s c user (query_items s (parse qs) (phrases c) (max_results c)).

(* SearchManager._query_shares_and_reply: None = no PeerSearchReply is sent *)
Definition search_reply (s : state) (c : cfg) (user : str) (qs : str) : option (list item * list item) :=
  if negb (has_session c) then None
  else if search_gate_first && mem_str user (blocked_searches c) then None
  else let r := query_split s c user qs in
       match fst r, snd r with
       | [], [] => None
       | _, _ => Some r
       end.

(* ---------------------------------------------------------------- shares listing, directory contents *)

(* SharesManager.get_shared_directories_for_user + create_shares_reply: the listed directories are split by
   is_directory_locked(directory, user); what is listed are their items, under the items' remote directory *)
Definition remote_dir (s : state) (x : item) : str := AT :: AT :: join_bs (owner_alias s x :: isub x).
Definition shares_visible_dirs (s : state) (c : cfg) (user : str) : list dobj :=
  filter (fun d => negb (dir_locked (friends c) d user)) (listed s).
Definition shares_locked_dirs (s : state) (c : cfg) (user : str) : list dobj :=
  filter (fun d => dir_locked (friends c) d user) (listed s).
Definition shares_visible (s : state) (c : cfg) (user : str) : list item := flat_map ditems (shares_visible_dirs s c user).
Definition shares_locked (s : state) (c : cfg) (user : str) : list item := flat_map ditems (shares_locked_dirs s c user).
(* SharesManager.create_directory_reply(remote_directory): the files whose remote directory is the requested one --
   the requesting user is not an argument *)
Definition directory_reply (s : state) (rd : str) : list item :=
  filter (fun x => eqb_str (remote_dir s x) rd) (listed_items s).

(* ---------------------------------------------------------------- uploads *)

Inductive tstate := Virgin | Queued | Initializing | Uploading | Incomplete | Paused | Aborted | Complete | Failed.
(* [areason] and the order in which the abort conditions are tried come from SlskGen.SharesGen *)
Inductive freason := FNotShared | FCancelled | FQueued | FComplete.
Record transfer := mkT { tuser : str; tpath : str; tst : tstate; tabort : option areason; tfail : option freason }.

Definition eqb_tstate (a b : tstate) : bool :=
  match a, b with
  | Virgin, Virgin | Queued, Queued | Initializing, Initializing | Uploading, Uploading | Incomplete, Incomplete
  | Paused, Paused | Aborted, Aborted | Complete, Complete | Failed, Failed => true
  | _, _ => false
  end.
Definition eqb_areason (a b : areason) : bool :=
  match a, b with Requested, Requested | Blocked, Blocked | NotShared, NotShared => true | _, _ => false end.
Definition eqb_freason (a b : freason) : bool :=
  match a, b with FNotShared, FNotShared | FCancelled, FCancelled | FQueued, FQueued | FComplete, FComplete => true | _, _ => false end.
Definition eqb_opt {A} (e : A -> A -> bool) (a b : option A) : bool :=
  match a, b with None, None => true | Some x, Some y => e x y | _, _ => false end.

(* get_shared_item_cache(remote_path, username) *)
Inductive lookup_res := Found (x : item) | NotFound | Locked.
Fixpoint lookup_dirs (s : state) (c : cfg) (user : str) (rp : str) (ds : list dobj) : lookup_res :=
  match ds with
  | [] => NotFound
  | d :: ds' =>
      match find (fun x => eqb_str (remote_path (owner_alias s x) x) rp) (ditems d) with
      | Some x => if cache_lookup_checks_lock && nonempty user && item_locked s (friends c) user x then Locked else Found x
      | None => lookup_dirs s c user rp ds'
      end
  end.
Definition lookup_item (s : state) (c : cfg) (user : str) (rp : str) : lookup_res := lookup_dirs s c user rp (listed s).
Definition is_found (r : lookup_res) : bool := match r with Found _ => true | _ => false end.
(* a lookup that passes the requesting user on (lock checked) or not, as the call in the source does *)
Definition lookup_as (with_user : bool) (s : state) (c : cfg) (user : str) (rp : str) : lookup_res :=
  lookup_item s c (if with_user then user else []) rp.

Definition same_key (t : transfer) (user rp : str) : bool := eqb_str (tuser t) user && eqb_str (tpath t) rp.
Definition find_transfer (ts : list transfer) (user rp : str) : option transfer := find (fun t => same_key t user rp) ts.
Definition update_transfer (ts : list transfer) (user rp : str) (f : transfer -> transfer) : list transfer :=
  map (fun t => if same_key t user rp then f t else t) ts.

(* state transitions used here (transfer/state.py) *)
Definition do_fail (r : freason) (t : transfer) : transfer :=
  match tst t with
  | Queued | Initializing | Uploading | Incomplete | Paused => mkT (tuser t) (tpath t) Failed (tabort t) (Some r)
  | _ => t
  end.
Definition do_abort (r : areason) (t : transfer) : transfer :=
  match tst t with
  | Queued | Initializing | Uploading | Incomplete | Paused => mkT (tuser t) (tpath t) Aborted (Some r) (tfail t)
  | _ => t
  end.
Definition do_queue (t : transfer) : transfer :=
  match tst t with
  | Virgin | Initializing | Incomplete => mkT (tuser t) (tpath t) Queued (tabort t) (tfail t)
  | Complete => mkT (tuser t) (tpath t) Queued (tabort t) (tfail t)
  | Paused => mkT (tuser t) (tpath t) Queued (tabort t) (tfail t)
  | Failed | Aborted => mkT (tuser t) (tpath t) Queued None None
  | _ => t
  end.

(* _on_peer_transfer_queue: (transfers afterwards, PeerTransferQueueFailed reason sent or None) *)
Definition on_transfer_queue (s : state) (c : cfg) (ts : list transfer) (user rp : str) : list transfer * option freason :=
  if queue_blocked_check_first && mem_str user (blocked_uploads c) then (ts, Some FNotShared)
  else match find_transfer ts user rp with
       | None => if is_found (lookup_as add_upload_lookup_with_user s c user rp) then (ts ++ [mkT user rp Queued None None], None)
                 else (ts, Some FNotShared)
       | Some t =>
           if is_found (lookup_as queue_existing_lookup_with_user s c user rp) then
             match tst t with
             | Aborted => (ts, Some FCancelled)
             | Failed | Complete => (update_transfer ts user rp do_queue, None)
             | _ => (ts, None)
             end
           else (update_transfer ts user rp (do_fail FNotShared), Some FNotShared)
       end.

(* _on_peer_transfer_request, direction = upload: (transfers afterwards, reason of the refusing PeerTransferReply or None) *)
Definition on_transfer_request (s : state) (c : cfg) (ts : list transfer) (user rp : str) : list transfer * option freason :=
  if request_blocked_check_first && mem_str user (blocked_uploads c) then (ts, Some FNotShared)
  else match find_transfer ts user rp with
       | None => if is_found (lookup_as add_upload_lookup_with_user s c user rp) then (ts ++ [mkT user rp Queued None None], Some FQueued)
                 else (ts, Some FNotShared)
       | Some t =>
           if is_found (lookup_as request_existing_lookup_with_user s c user rp) then
             (ts, match tst t with
                  | Paused | Aborted => Some FCancelled
                  | Complete => Some FComplete
                  | Queued => Some FQueued
                  | _ => None
                  end)
           else (update_transfer ts user rp (do_fail FNotShared), Some FNotShared)
       end.

(* _evaluate_aborted_state: the first applicable reason, in the order Requested > Blocked > File not shared *)
Definition first_reason (s : state) (c : cfg) (t : transfer) : option areason :=
  gen_first_reason (eqb_opt eqb_areason (tabort t) (Some Requested))
                   (mem_str (tuser t) (blocked_uploads c))
                   (negb (is_found (lookup_item s c (tuser t) (tpath t)))).
Definition unfinished (t : transfer) : bool := negb (eqb_tstate (tst t) Complete || eqb_tstate (tst t) Failed).
(* manage_shares_changed for one upload *)
Definition cycle_one (s : state) (c : cfg) (t : transfer) : transfer :=
  if unfinished t then
    let r := first_reason s c t in
    let aborted := eqb_tstate (tst t) Aborted in
    match r with
    | None => if aborted then do_queue t else t
    | Some rr => if aborted then mkT (tuser t) (tpath t) (tst t) (Some rr) (tfail t) else do_abort rr t
    end
  else t.
Definition shares_cycle (s : state) (c : cfg) (ts : list transfer) : list transfer := map (cycle_one s c) ts.

(* ---------------------------------------------------------------- support for the generated case files *)

Definition eqb_transfer (a b : transfer) : bool :=
  eqb_str (tuser a) (tuser b) && eqb_str (tpath a) (tpath b) && eqb_tstate (tst a) (tst b)
  && eqb_opt eqb_areason (tabort a) (tabort b) && eqb_opt eqb_freason (tfail a) (tfail b).
Definition eqb_transfers : list transfer -> list transfer -> bool := eqb_list eqb_transfer.

Definition sobs := (path * str)%type.
Definition eqb_sobs (a b : sobs) : bool := eqb_path (fst a) (fst b) && eqb_str (snd a) (snd b).
Definition same_sobs (a b : list sobs) : bool :=
  Nat.eqb (length a) (length b) && forallb (fun x => existsb (eqb_sobs x) b) a && forallb (fun x => existsb (eqb_sobs x) a) b.
(* results are identified by the remote path they are offered under *)
Definition item_sobs (s : state) (x : item) : sobs := ([], remote_path (owner_alias s x) x).

Inductive ev :=
| EShare (o : op)
| ECfg (c : cfg)
| ESet (ts : list transfer)                                   (* the harness forces transfer states *)
| EQueue (user rp : str) (exp_reply : option freason) (exp_ts : list transfer)
| ERequest (user rp : str) (exp_reply : option freason) (exp_ts : list transfer)
| ESearch (user qs : str) (exp : option (list sobs * list sobs))
| ECycle (exp_ts : list transfer)
| ERemove (n : nat)                                            (* TransferManager.remove() of the n-th upload (application call) *)
| EShares (user : str) (exp_vis exp_locked : list (str * str))      (* (remote directory, file name) of every file listed *)
| EDirContents (rd : str) (exp_files : list str).

(* a search whose matches exceed the cap may return any max_results of them: only compared below the cap *)
Definition check_search (s : state) (c : cfg) (user qs : str) (exp : option (list sobs * list sobs)) : bool :=
  let alln := length (query_all s (parse qs) (phrases c)) in
  if (max_results c <? alln)%nat && has_session c && negb (mem_str user (blocked_searches c)) then
    match exp with
    | Some (v, l) => Nat.eqb (length v + length l) (max_results c)
    | None => false
    end
  else
    match search_reply s c user qs, exp with
    | None, None => true
    | Some (v, l), Some (ev, el) => same_sobs (map (item_sobs s) v) ev && same_sobs (map (item_sobs s) l) el
    | _, _ => false
    end.

Definition eqb_pair (a b : str * str) : bool := eqb_str (fst a) (fst b) && eqb_str (snd a) (snd b).
Definition same_pairs (a b : list (str * str)) : bool :=
  Nat.eqb (length a) (length b) && forallb (fun x => existsb (eqb_pair x) b) a && forallb (fun x => existsb (eqb_pair x) a) b.
Definition listing (s : state) (its : list item) : list (str * str) := map (fun x => (remote_dir s x, iname x)) its.

Fixpoint run_events (s : state) (c : cfg) (ts : list transfer) (n : nat) (es : list ev) : list nat :=
  match es with
  | [] => []
  | EShare o :: r => run_events (step s o) c ts (S n) r
  | ECfg c' :: r => run_events s c' ts (S n) r
  | ESet ts' :: r => run_events s c ts' (S n) r
  | EQueue u rp er ets :: r =>
      let res := on_transfer_queue s c ts u rp in
      (if eqb_opt eqb_freason (snd res) er && eqb_transfers (fst res) ets then [] else [n]) ++ run_events s c (fst res) (S n) r
  | ERequest u rp er ets :: r =>
      let res := on_transfer_request s c ts u rp in
      (if eqb_opt eqb_freason (snd res) er && eqb_transfers (fst res) ets then [] else [n]) ++ run_events s c (fst res) (S n) r
  | ESearch u qs e :: r => (if check_search s c u qs e then [] else [n]) ++ run_events s c ts (S n) r
  | ERemove k :: r => run_events s c (firstn k ts ++ skipn (S k) ts) (S n) r
  | EShares u ev el :: r =>
      (if same_pairs (listing s (shares_visible s c u)) ev && same_pairs (listing s (shares_locked s c u)) el then [] else [n])
      ++ run_events s c ts (S n) r
  | EDirContents rd ef :: r =>
      (if same_strs (map iname (directory_reply s rd)) ef then [] else [n]) ++ run_events s c ts (S n) r
  | ECycle ets :: r =>
      let ts' := shares_cycle s c ts in
      (if eqb_transfers ts' ets then [] else [n]) ++ run_events s c ts' (S n) r
  end.
