From Slsk Require Import Base.Tac.
From SlskGen Require Import CharTable SharesGen.
From Slsk Require Import C07.Model C07.Proofs C08.Model.

(* ------------------------------------------------------------------ the regenerated decisions (SlskGen.SharesGen): equations by
   computation that stop compiling when the source drops a check, reorders one or passes other arguments *)
Lemma search_reply_eq : forall s c user qs, search_reply s c user qs =
  if negb (has_session c) then None else if mem_str user (blocked_searches c) then None
  else let r := query_split s c user qs in match fst r, snd r with [], [] => None | _, _ => Some r end.
Proof. reflexivity. Qed.
Lemma lookup_as_eq : forall b s c user rp, In b [add_upload_lookup_with_user; queue_existing_lookup_with_user; request_existing_lookup_with_user] ->
  lookup_as b s c user rp = lookup_item s c user rp.
Proof. intros b s c user rp [H | [H | [H | []]]]; subst b; reflexivity. Qed.
Lemma blocked_first_eq : forall x, (queue_blocked_check_first && x = x) /\ (request_blocked_check_first && x = x).
Proof. intros x. split; reflexivity. Qed.
Lemma first_reason_eq : forall s c t, first_reason s c t =
  if eqb_opt eqb_areason (tabort t) (Some Requested) then Some Requested
  else if mem_str (tuser t) (blocked_uploads c) then Some Blocked
  else if negb (is_found (lookup_item s c (tuser t) (tpath t))) then Some NotShared else None.
Proof.
  intros s c t. unfold first_reason.
  destruct (eqb_opt eqb_areason (tabort t) (Some Requested)), (mem_str (tuser t) (blocked_uploads c)),
           (negb (is_found (lookup_item s c (tuser t) (tpath t)))); reflexivity.
Qed.

(* ------------------------------------------------------------------ visible / locked split *)

Lemma split_sub : forall s c user res x,
  In x (fst (split_results s c user res)) \/ In x (snd (split_results s c user res)) -> In x res.
Proof.
  intros s c user res x H. unfold split_results in H. destruct user as [|u0 us]; cbn in H.
  - destruct H as [H | []]. assumption.
  - destruct H as [H | H]; apply filter_In in H; tauto.
Qed.

Lemma visible_entitled : forall s c user res x, owner_ok s -> user <> [] ->
  In x (fst (split_results s c user res)) -> entitled s c user x = true /\ holder_permits s c user x.
Proof.
  intros s c user res x Hok Hu H. unfold split_results in H. destruct user as [|u0 us]; [contradiction|]. cbn in H.
  apply filter_In in H. destruct H as [_ He]. split; [assumption|].
  intros d Hd Hx. unfold entitled, item_locked in He. rewrite (Hok d x Hd Hx) in He. apply negb_true_iff in He. exact He.
Qed.

Lemma locked_not_entitled : forall s c user res x, owner_ok s ->
  In x (snd (split_results s c user res)) -> entitled s c user x = false /\ holder_locks s c user x.
Proof.
  intros s c user res x Hok H. unfold split_results in H. destruct user as [|u0 us]; [destruct H|]. cbn in H.
  apply filter_In in H. destruct H as [_ He]. apply negb_true_iff in He. split; [assumption|].
  intros d Hd Hx. unfold entitled, item_locked in He. rewrite (Hok d x Hd Hx) in He. apply negb_false_iff in He. exact He.
Qed.

Definition u1 : str := c [117;49].
Definition w_song := c [100;101;101;112;32;115;111;110;103].
Definition ops_f05 : list op :=
  [Add [w_P] (c [97]) Everyone []; Scan [w_P] [([w_P; w_C; w_song], 5%N)]; Add [w_P; w_C] (c [98]) Friends []].
Definition cfg0 : cfg := mkCfg [] [] [] [] 100 true.

(* with the repaired code the owner-pointer invariant holds after every operation sequence *)
Lemma owner_ok_run : forall ops, owner_ok (run ops).
Proof. intros ops d x Hd Hx. apply (owner_pointer ops d x Hd Hx). Qed.

Lemma visible_entitled_run : forall ops c user qs x, user <> [] ->
  In x (fst (query_split (run ops) c user qs)) ->
  (exists d, In d (listed (run ops)) /\ In x (ditems d)) /\ holder_permits (run ops) c user x.
Proof.
  intros ops c0 user qs x Hu H. split.
  - assert (Hr : In x (query_items (run ops) (parse qs) (phrases c0) (max_results c0))) by (apply (split_sub (run ops) c0 user); left; exact H).
    apply query_sound in Hr. destruct Hr as [Hi _]. apply indexed_listed in Hi. unfold listed_items in Hi.
    apply in_flat_map in Hi. exact Hi.
  - apply (visible_entitled (run ops) c0 user _ x (owner_ok_run ops) Hu H).
Qed.

Lemma locked_not_entitled_run : forall ops c user qs x,
  In x (snd (query_split (run ops) c user qs)) ->
  (exists d, In d (listed (run ops)) /\ In x (ditems d)) /\ holder_locks (run ops) c user x.
Proof.
  intros ops c0 user qs x H. split.
  - assert (Hr : In x (query_items (run ops) (parse qs) (phrases c0) (max_results c0))) by (apply (split_sub (run ops) c0 user); right; exact H).
    apply query_sound in Hr. destruct Hr as [Hi _]. apply indexed_listed in Hi. unfold listed_items in Hi.
    apply in_flat_map in Hi. exact Hi.
  - apply (locked_not_entitled (run ops) c0 user _ x (owner_ok_run ops) H).
Qed.

(* ------------------------------------------------------------------ shares listing / directory contents *)

Lemma shares_visible_entitled : forall s c user x, In x (shares_visible s c user) ->
  exists d, In d (listed s) /\ In x (ditems d) /\ dir_locked (friends c) d user = false.
Proof.
  intros s c0 user x H. unfold shares_visible, shares_visible_dirs in H. apply in_flat_map in H. destruct H as [d [Hd Hx]].
  apply filter_In in Hd. destruct Hd as [Hd L]. apply negb_true_iff in L. exists d. auto.
Qed.
Lemma shares_locked_locked : forall s c user x, In x (shares_locked s c user) ->
  exists d, In d (listed s) /\ In x (ditems d) /\ dir_locked (friends c) d user = true.
Proof.
  intros s c0 user x H. unfold shares_locked, shares_locked_dirs in H. apply in_flat_map in H. destruct H as [d [Hd Hx]].
  apply filter_In in Hd. destruct Hd as [Hd L]. exists d. auto.
Qed.
(* every held file is listed, in exactly one of the two parts *)
Lemma shares_complete : forall s c user d x, In d (listed s) -> In x (ditems d) ->
  In x (shares_visible s c user) \/ In x (shares_locked s c user).
Proof.
  intros s c0 user d x Hd Hx. destruct (dir_locked (friends c0) d user) eqn:L.
  - right. apply in_flat_map. exists d. split; [apply filter_In; auto | assumption].
  - left. apply in_flat_map. exists d. split; [apply filter_In; rewrite L; auto | assumption].
Qed.

Definition ops_f28 : list op := [Add [w_d] (c [97]) Friends []; Scan [w_d] [([w_d; w_sing], 5%N)]].
(* F28: the directory-contents reply lists the files of a friends-only directory whoever asks *)
Lemma directory_reply_refuted : exists ops c user rd x d,
  In x (directory_reply (run ops) rd) /\ In d (listed (run ops)) /\ In x (ditems d) /\ dir_locked (friends c) d user = true.
Proof.
  exists ops_f28, cfg0, u1, (AT :: AT :: c [97]), (mkItem 0 [w_d] [] w_sing 5%N), (mkDir 0 [w_d] (c [97]) Friends [] [mkItem 0 [w_d] [] w_sing 5%N]).
  split; [vm_compute; left; reflexivity|]. split; [vm_compute; left; reflexivity|]. split; [left; reflexivity|]. vm_compute. reflexivity.
Qed.

(* ------------------------------------------------------------------ excluded phrases *)

Lemma excluded_phrases : forall s c user qs x ph,
  In x (fst (query_split s c user qs)) \/ In x (snd (query_split s c user qs)) ->
  In ph (phrases c) -> substring (lower_s ph) (lower_s (qpath x)) = false.
Proof.
  intros s c0 user qs x ph H Hp. unfold query_split in H. apply split_sub in H.
  apply query_sound in H. destruct H as [_ [_ H]]. rewrite phrase_free_eq in H. rewrite forallb_forall in H.
  specialize (H ph Hp). apply negb_true_iff in H. exact H.
Qed.

Definition w_SING := c [83;73;78;71].

(* ------------------------------------------------------------------ search gate *)

Lemma search_block : forall s c user qs,
  mem_str user (blocked_searches c) = true \/ has_session c = false -> search_reply s c user qs = None.
Proof.
  intros s c user qs [H | H]; rewrite search_reply_eq; [|rewrite H; reflexivity].
  destruct (negb (has_session c)); [reflexivity|]. rewrite H. reflexivity.
Qed.

(* ------------------------------------------------------------------ upload requests *)

Lemma lookup_dirs_found : forall s c user rp ds x, user <> [] -> lookup_dirs s c user rp ds = Found x ->
  item_locked s (friends c) user x = false /\ exists d, In d ds /\ In x (ditems d).
Proof.
  intros s c user rp ds x Hu. revert x. induction ds as [|d ds IH]; intros x H; cbn [lookup_dirs] in H; [discriminate|].
  destruct (find (fun y => eqb_str (remote_path (owner_alias s y) y) rp) (ditems d)) as [y|] eqn:F.
  - change cache_lookup_checks_lock with true in H. destruct user as [|u0 us]; [contradiction|]. cbn [nonempty andb] in H.
    destruct (item_locked s (friends c) (u0 :: us) y) eqn:L; [discriminate|]. inv H. split; [assumption|].
    exists d. split; [left; reflexivity|]. apply find_some in F. tauto.
  - destruct (IH x H) as [L [d' [Hd Hx]]]. split; [assumption|]. exists d'. split; [right; assumption|assumption].
Qed.

Lemma lookup_found_entitled : forall s c user rp x, user <> [] -> lookup_item s c user rp = Found x ->
  entitled s c user x = true /\ exists d, In d (listed s) /\ In x (ditems d).
Proof.
  intros s c user rp x Hu H. apply lookup_dirs_found in H; [|assumption]. destruct H as [L E]. split; [|assumption].
  unfold entitled. rewrite L. reflexivity.
Qed.

Lemma update_length : forall ts u rp f, length (update_transfer ts u rp f) = length ts.
Proof. intros. unfold update_transfer. apply map_length. Qed.

Lemma do_fail_state : forall r t, do_fail r t = t \/ tst (do_fail r t) = Failed.
Proof. intros r t. unfold do_fail. destruct (tst t); auto. Qed.

Definition refused (s : state) (c : cfg) (user rp : str) : Prop :=
  mem_str user (blocked_uploads c) = true \/ is_found (lookup_item s c user rp) = false.

Lemma update_fail_in : forall ts u rp t, In t (update_transfer ts u rp (do_fail FNotShared)) -> In t ts \/ tst t = Failed.
Proof.
  intros ts u rp t H. unfold update_transfer in H. apply in_map_iff in H. destruct H as [t0 [E H]].
  destruct (same_key t0 u rp); [|subst; left; assumption].
  destruct (do_fail_state FNotShared t0) as [D | D]; [rewrite D in E; subst; left; assumption | subst; right; assumption].
Qed.

Lemma queue_refused : forall s c ts user rp, refused s c user rp ->
  let r := on_transfer_queue s c ts user rp in
  snd r = Some FNotShared /\ length (fst r) = length ts /\ (forall t, In t (fst r) -> In t ts \/ tst t = Failed).
Proof.
  intros s c ts user rp H. unfold on_transfer_queue. rewrite (proj1 (blocked_first_eq _)), !lookup_as_eq by (cbn; auto).
  destruct (mem_str user (blocked_uploads c)) eqn:B.
  - cbn. auto.
  - destruct H as [H | H]; [congruence|]. rewrite H. destruct (find_transfer ts user rp); cbn.
    + split; [reflexivity|]. split; [apply update_length|]. apply update_fail_in.
    + auto.
Qed.

Lemma request_refused : forall s c ts user rp, refused s c user rp ->
  let r := on_transfer_request s c ts user rp in
  snd r = Some FNotShared /\ length (fst r) = length ts /\ (forall t, In t (fst r) -> In t ts \/ tst t = Failed).
Proof.
  intros s c ts user rp H. unfold on_transfer_request. rewrite (proj2 (blocked_first_eq _)), !lookup_as_eq by (cbn; auto).
  destruct (mem_str user (blocked_uploads c)) eqn:B.
  - cbn. auto.
  - destruct H as [H | H]; [congruence|]. rewrite H. destruct (find_transfer ts user rp); cbn.
    + split; [reflexivity|]. split; [apply update_length|]. apply update_fail_in.
    + auto.
Qed.

(* an upload is only ever created for an item that the code considers unlocked for the user and that a listed directory holds *)
Lemma created_only_if_entitled : forall s c ts user rp, user <> [] ->
  length (fst (on_transfer_queue s c ts user rp)) > length ts \/ length (fst (on_transfer_request s c ts user rp)) > length ts ->
  mem_str user (blocked_uploads c) = false /\
  exists x, lookup_item s c user rp = Found x /\ entitled s c user x = true /\ exists d, In d (listed s) /\ In x (ditems d).
Proof.
  intros s c ts user rp Hu H.
  assert (G : mem_str user (blocked_uploads c) = false /\ is_found (lookup_item s c user rp) = true).
  { unfold on_transfer_queue, on_transfer_request in H.
    rewrite (proj1 (blocked_first_eq _)), (proj2 (blocked_first_eq _)), !lookup_as_eq in H by (cbn; auto).
    destruct (mem_str user (blocked_uploads c)); [cbn in H; lia|]. split; [reflexivity|].
    destruct (is_found (lookup_item s c user rp)); [reflexivity|].
    destruct (find_transfer ts user rp); cbn in H; rewrite ?update_length in H; lia. }
  destruct G as [G1 G2]. split; [assumption|]. destruct (lookup_item s c user rp) as [x| |] eqn:L; try discriminate.
  exists x. split; [reflexivity|]. apply (lookup_found_entitled s c user rp x Hu L).
Qed.

(* ------------------------------------------------------------------ the shares-changed cycle *)

(* the decision only depends on two facts about the configuration: is the user blocked, is the path found & unlocked *)
Definition fr (B F : bool) (ab : option areason) : option areason :=
  if eqb_opt eqb_areason ab (Some Requested) then Some Requested else if B then Some Blocked else if negb F then Some NotShared else None.
Definition cyc (B F : bool) (t : transfer) : transfer :=
  if unfinished t then
    match fr B F (tabort t) with
    | None => if eqb_tstate (tst t) Aborted then do_queue t else t
    | Some rr => if eqb_tstate (tst t) Aborted then mkT (tuser t) (tpath t) (tst t) (Some rr) (tfail t) else do_abort rr t
    end
  else t.
Definition Bof (c : cfg) (t : transfer) := mem_str (tuser t) (blocked_uploads c).
Definition Fof (s : state) (c : cfg) (t : transfer) := is_found (lookup_item s c (tuser t) (tpath t)).

Lemma first_reason_fr : forall s c t, first_reason s c t = fr (Bof c t) (Fof s c t) (tabort t).
Proof. intros. apply first_reason_eq. Qed.
Lemma cycle_one_cyc : forall s c t, cycle_one s c t = cyc (Bof c t) (Fof s c t) t.
Proof. intros. unfold cycle_one, cyc. rewrite first_reason_fr. reflexivity. Qed.
Lemma cyc_key : forall B F t, tuser (cyc B F t) = tuser t /\ tpath (cyc B F t) = tpath t.
Proof.
  intros B F [u p st ab fl]. unfold cyc, fr, do_abort, do_queue, unfinished. cbn [tuser tpath tst tabort tfail].
  destruct st; destruct ab as [[]|]; destruct B; destruct F; cbn; split; reflexivity.
Qed.

Definition settled (s : state) (c : cfg) (t : transfer) : Prop :=
  match first_reason s c t with
  | None => tst t <> Aborted
  | Some r => (tst t = Aborted /\ tabort t = Some r) \/ tst t = Virgin
  end.

Lemma cyc_settled : forall B F t, unfinished (cyc B F t) = true ->
  match fr B F (tabort (cyc B F t)) with
  | None => tst (cyc B F t) <> Aborted
  | Some r => (tst (cyc B F t) = Aborted /\ tabort (cyc B F t) = Some r) \/ tst (cyc B F t) = Virgin
  end.
Proof.
  intros B F [u p st ab fl]. unfold cyc, fr, do_abort, do_queue, unfinished. cbn [tuser tpath tst tabort tfail].
  destruct st; destruct ab as [[]|]; destruct B; destruct F; cbn; intros H; try discriminate H;
    try (left; split; reflexivity); try (right; reflexivity); try (intros X; discriminate X).
Qed.

Lemma Bof_cyc : forall c B F t, Bof c (cyc B F t) = Bof c t.
Proof. intros. unfold Bof. destruct (cyc_key B F t) as [K _]. rewrite K. reflexivity. Qed.
Lemma Fof_cyc : forall s c B F t, Fof s c (cyc B F t) = Fof s c t.
Proof. intros. unfold Fof. destruct (cyc_key B F t) as [K1 K2]. rewrite K1, K2. reflexivity. Qed.

Lemma cycle_one_settled : forall s c t, unfinished (cycle_one s c t) = true -> settled s c (cycle_one s c t).
Proof.
  intros s c t H. unfold settled. rewrite first_reason_fr. rewrite cycle_one_cyc in *.
  rewrite Bof_cyc, Fof_cyc. apply cyc_settled. exact H.
Qed.

(* an upload aborted for a reason that no longer applies is queued again; an upload aborted on request stays *)
Lemma cyc_requeue : forall B F t, tst t = Aborted -> tabort t <> Some Requested -> B = false -> F = true ->
  tst (cyc B F t) = Queued /\ tabort (cyc B F t) = None.
Proof.
  intros B F [u p st ab fl] H1 H2 HB HF. cbn in H1. subst. unfold cyc, fr, do_queue, unfinished. cbn [tuser tpath tst tabort tfail].
  destruct ab as [[]|]; cbn; try (split; reflexivity). exfalso. apply H2. reflexivity.
Qed.
Lemma cyc_requested_stays : forall B F t, tst t = Aborted -> tabort t = Some Requested -> cyc B F t = t.
Proof.
  intros B F [u p st ab fl] H1 H2. cbn in H1, H2. subst. unfold cyc, fr, unfinished. cbn. reflexivity.
Qed.
Lemma cyc_idem : forall B F t, cyc B F (cyc B F t) = cyc B F t.
Proof.
  intros B F [u p st ab fl]. unfold cyc, fr, do_abort, do_queue, unfinished. cbn [tuser tpath tst tabort tfail].
  destruct st; destruct ab as [[]|]; destruct B; destruct F; cbn; reflexivity.
Qed.

Lemma cycle_idem : forall s c ts, shares_cycle s c (shares_cycle s c ts) = shares_cycle s c ts.
Proof.
  intros s c ts. unfold shares_cycle. rewrite map_map. apply map_ext. intros t.
  rewrite (cycle_one_cyc s c (cycle_one s c t)). rewrite (cycle_one_cyc s c t).
  rewrite Bof_cyc, Fof_cyc. apply cyc_idem.
Qed.

(* ------------------------------------------------------------------ update_shared_directory takes effect, also for the empty list *)
Lemma update_effect : forall s p m us d, find_listed p (listed s) = Some d ->
  exists d', find_listed p (listed (step s (Update p m us))) = Some d' /\
    dusers d' = (match us with Some u => u | None => dusers d end) /\
    dmode d' = (match m with Some m' => m' | None => dmode d end) /\ ditems d' = ditems d.
Proof.
  intros s p m us d H. destruct (find_listed_path _ _ _ H) as [Hp _].
  exists (set_share d (match m with Some m' => m' | None => dmode d end) (match us with Some u => u | None => dusers d end)).
  split; [|cbn; repeat split; reflexivity].
  unfold step. cbn [step_raw]. unfold update_raw. rewrite H. cbn [listed prune].
  eapply find_replace; [eassumption|]. cbn. assumption.
Qed.
