(* C05 property theorems (statements only; proofs are in Proofs.v).
   rank_of, the sort direction, the slice bound, the three scan guards and the processing states
   come from SlskGen.PrioGen, regenerated from /repo/src/aioslsk/transfer/manager.py on every run. *)
From Slsk Require Import Base.Tac.
From Coq Require Import Permutation Sorting.Sorted.
From SlskGen Require Import PrioGen SlotGen.
From Slsk Require Import C05.Model C05.Proofs.

(* What one management cycle starts: never more than the free slots, one upload per user, only
   QUEUED uploads of users that are not offline and have no upload in progress. *)
Theorem C05_select_bound : forall c ts,
  length (select c ts) <= free c ts /\
  NoDup (map tuser (select c ts)) /\
  forall t, In t (select c ts) ->
    In t ts /\ tst t <> Init /\ tst t <> Uploading /\ is_queued t = true /\
    offline c (tuser t) = false /\ ~ In (tuser t) (busy_users ts).
Proof. exact select_bound. Qed.

(* No eligible upload that was passed over outranks one that was started; the started ones are in
   order of decreasing rank (= order of the PeerTransferRequest messages). *)
Theorem C05_select_priority : forall c ts,
  (forall t u, In t (select c ts) -> In u (eligible c ts) -> ~ In u (select c ts) -> rank c u <= rank c t) /\
  StronglySorted (fun a b => rank c b <= rank c a) (select c ts).
Proof. intros c ts. split; [apply select_priority|apply select_sorted]. Qed.

(* The generated weights order the classes lexicographically: privileged > friend > online/away > rest. *)
Theorem C05_rank_lexicographic : forall s1 s2 f1 f2 p1 p2,
  let on s := existsb (Z.eqb (status_code s)) [ST_ONLINE; ST_AWAY] in
  (p1 = true -> p2 = false -> rank_of (status_code s2) f2 p2 < rank_of (status_code s1) f1 p1) /\
  (p1 = p2 -> f1 = true -> f2 = false -> rank_of (status_code s2) f2 p2 < rank_of (status_code s1) f1 p1) /\
  (p1 = p2 -> f1 = f2 -> on s1 = true -> on s2 = false ->
     rank_of (status_code s2) f2 p2 < rank_of (status_code s1) f1 p1) /\
  (on Online = true /\ on Away = true /\ on Unknown = false).
Proof. exact rank_lexicographic. Qed.

(* Work conservation: a cycle starts exactly min(free, #eligible users) uploads; the candidates are
   exactly one per eligible user; with a free slot and an eligible user something is started. *)
Theorem C05_work_conserving : forall c ts,
  length (select c ts) = Nat.min (free c ts) (length (eligible c ts)) /\
  NoDup (map tuser (eligible c ts)) /\
  (forall u, In u (map tuser (eligible c ts)) <-> eligible_user c ts u) /\
  (forall u, 0 < free c ts -> eligible_user c ts u -> select c ts <> []).
Proof. exact work_conserving. Qed.

(* The invariant, for every event list that respects the event-loop premise A1 (no created task is
   still waiting for its first segment when a cycle runs): the uploads in INITIALIZING/UPLOADING
   number at most the slot limit, unless every one of them was already there when the limit took
   its current value; and no user has two of them. *)
Theorem C05_slots_inv : forall evs n,
  a1 (init n) evs = true ->
  let s' := run (init n) evs in
  (n_processing s' <= slots (mcfg s') \/
   forall t, In t (mts s') -> processing t = true -> told t = true) /\
  NoDup (map tuser (filter processing (mts s'))).
Proof. intros evs n A. exact (slots_inv evs (init n) (init_inv n) A). Qed.

(* The code-side half of A1, read off the source: the task created for an upload moves it to
   INITIALIZING in its first statement (before any await that can suspend on the network). *)
Theorem C05_first_segment_initializes : FIRST_SEGMENT_INITIALIZES = true.
Proof. reflexivity. Qed.

(* What the slot guard of the upload loop (repair F03) adds: cycles may run again before the tasks they
   created have started -- back to back, at any timing -- provided every upload that still owns an
   unstarted task is still inside the slice of the cycle (true whenever nothing that changes the ranking
   happened in between); the invariant then holds without A1. *)
Theorem C05_slots_inv_guarded : forall evs n,
  a1g (init n) evs = true ->
  let s' := run (init n) evs in
  (n_processing s' <= slots (mcfg s') \/
   forall t, In t (mts s') -> processing t = true -> told t = true) /\
  NoDup (map tuser (filter processing (mts s'))).
Proof. intros evs n A. exact (slots_inv_guarded evs (init n) eq_refl (init_inv n) A). Qed.

(* The event-loop half of A1, over the asyncio facts it needs (FIFO ready queue; call_soon / task creation
   append; the handle of a due timer is appended behind what is already queued; the management job is a
   single task that sleeps after each cycle): for EVERY order of scheduling events, no cycle of the
   management job ever runs while the first segment of a task created by an earlier cycle is still queued.
   Together with C05_first_segment_initializes this is the premise of C05_slots_inv. *)
Theorem C05_A1_event_loop : forall evs, lbad (lrun linit evs) = false.
Proof. exact loop_a1. Qed.

(* Liveness needs the cycles to happen: every state change of a transfer (in particular every one that gives
   a slot back: COMPLETE, FAILED, ABORTED, PAUSED, back to QUEUED) requests a management cycle (read off
   on_transfer_state_changed); with C05_work_conserving and C05_progress_partial this is the code-side part of
   "a queued upload of an eligible user is started while slots are free".  Not covered: changes of the limit
   itself request no cycle (known finding F31). *)
Theorem C05_state_change_requests_cycle : EVERY_STATE_CHANGE_REQUESTS_CYCLE = true.
Proof. reflexivity. Qed.

(* Helper code the model relies on, regenerated: the management job sleeps a positive time after every cycle
   (constants.py; the "job sleeps" fact of the event-loop machine), and a user nobody told us about is UNKNOWN and
   not privileged (User dataclass defaults = default_user of the model).  102 further helper functions and classes
   (BackgroundTask, EventBus, the user manager's status / privilege handlers, settings sub-models, state lock
   wrapper, message classes, Network.send_peer_messages ...) are pinned by fingerprint in the translator. *)
Theorem C05_helpers : (0 < MGMT_MIN_MS <= MGMT_MAX_MS)%Z /\
  status_code (ust default_user) = DEFAULT_USER_STATUS /\ upriv default_user = DEFAULT_USER_PRIVILEGED /\ 0 < HELPERS_PINNED.
Proof. vm_compute. repeat split; try discriminate; lia. Qed.

(* Without A1 the invariant is false of the model (two cycles before the first task ran). *)
Theorem C05_slots_inv_without_A1_refuted : exists evs,
  let s' := run (init 1) evs in
  slots (mcfg s') < n_processing s' /\ (forall t, In t (mts s') -> told t = false) /\ slots_ok s' = false.
Proof. exact slots_inv_refuted. Qed.

(* Finite population (no arrivals), at least one slot, every started upload completes: each round
   (cycle, first segments, completions) strictly reduces the number of waiting uploads (QUEUED, user
   not offline); after n rounds at most n_waiting - n are left, so every one of them is started
   within n_waiting rounds.  Ties go to the later transfer, so a particular upload may be last. *)
Theorem C05_progress_partial : forall n s, idle s -> 1 <= slots (mcfg s) ->
  n_waiting (rounds n s) <= n_waiting s - n.
Proof. exact progress. Qed.

(* non-vacuity: concrete populations meeting the hypotheses, with non-trivial outcomes *)
Definition ex_cfg : cfg :=
  mkCfg 2 (fun u => match u with 0 => mkU Online false false | 1 => mkU Offline true true
                              | 2 => mkU Unknown false true | 3 => mkU Away true false | _ => default_user end).
Definition ex_ts : list transfer :=
  [mkT 0 0 Queued false; mkT 1 1 Queued false; mkT 2 2 Queued false; mkT 3 3 Queued false; mkT 4 3 Queued false;
   mkT 5 4 Uploading false; mkT 6 4 Queued false].

Example C05_select_nonvacuous :
  map tid (select ex_cfg ex_ts) = [3] /\ map tid (eligible ex_cfg ex_ts) = [0; 2; 3] /\ free ex_cfg ex_ts = 1.
Proof. vm_compute. auto. Qed.

Example C05_slots_inv_nonvacuous :
  let evs := [Queue 0; Queue 1; Queue 0; Status 1 Online true; Cycle; FirstAll; SetSlots 1; Finish 1 FStart;
              Cycle; Queue 2; Finish 1 FComplete; Cycle; First 0; Abort 0; Cycle; FirstAll] in
  a1 (init 2) evs = true /\ map st_code (mts (run (init 2) evs)) = [4; 4; 0; 2] /\
  n_processing (run (init 2) evs) = 1.
Proof. vm_compute. auto. Qed.

Example C05_guarded_nonvacuous :
  let evs := [Queue 0; Queue 1; Queue 2; Cycle; Cycle; Status 0 Offline false; Cycle; FirstAll; Cycle] in
  a1g (init 2) evs = true /\ a1 (init 2) evs = false /\
  map st_code (mts (run (init 2) evs)) = [0; 2; 2].
Proof. vm_compute. auto. Qed.

Example C05_A1_event_loop_nonvacuous :
  lq (lrun linit [LEnqJob; LExec [3; 4]; LEnqOther; LEnqJob; LEnqJob; LExec []]) = [HFirst 4; HOther; HJob] /\
  (* the ghost flag does detect a queue in which a first segment sits behind a job step *)
  lbad (lstep (mkL [HJob; HFirst 1] true false) (LExec [])) = true.
Proof. vm_compute. auto. Qed.

Example C05_progress_nonvacuous :
  let s := run (init 1) [Queue 0; Queue 1; Queue 0; Status 1 Offline false] in
  idle s /\ n_waiting s = 2 /\ n_waiting (rounds 2 s) = 0.
Proof. cbn zeta. split; [|vm_compute; auto]. intros t H. vm_compute in H. intuition (subst; reflexivity). Qed.
