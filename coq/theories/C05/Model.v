(* C05 model: upload selection (pure) and the management-cycle machine.
   Constants and the rank function are GENERATED (SlskGen.PrioGen, from transfer/manager.py,
   transfer/model.py, user/model.py); everything else here is hand-written and tied to the real
   TransferManager by the correspondence check (checks/c05.py).
   Definitions only; must stay executable (vm_compute). *)
From Coq Require Import ZArith List Bool Arith.
From SlskGen Require Import PrioGen SlotGen.
Import ListNotations.

(* ---- users ---------------------------------------------------------------------------- *)
Inductive ustatus := Unknown | Offline | Away | Online.

Definition status_code (s : ustatus) : Z :=
  match s with Unknown => ST_UNKNOWN | Offline => ST_OFFLINE | Away => ST_AWAY | Online => ST_ONLINE end.

Record uinfo := mkU { ust : ustatus; upriv : bool; ufriend : bool }.
(* UserManager.get_user_object of a user nobody tracks: status UNKNOWN, privileged only if listed *)
Definition default_user : uinfo := mkU Unknown false false.

(* ---- uploads ---------------------------------------------------------------------------
   Queued    QUEUED, no task
   Starting  QUEUED, the cycle created the initialize-upload task, its first segment has not run
   Init      INITIALIZING          Uploading  UPLOADING
   Other     COMPLETE / FAILED / ABORTED / PAUSED                                             *)
Inductive tstate := Queued | Starting | Init | Uploading | Other.

Record transfer := mkT { tid : nat; tuser : nat; tst : tstate; told : bool }.
(* told: "was already occupying a slot when the slot limit took its current value" (ghost) *)

Record cfg := mkCfg { slots : nat; info : nat -> uinfo }.

Definition is_queued (t : transfer) : bool :=            (* transfer.state.VALUE == QUEUED *)
  match tst t with Queued | Starting => true | _ => false end.

Definition processing (t : transfer) : bool :=           (* Transfer.is_processing (uploads) *)
  match tst t with Init => PROC_INITIALIZING | Uploading => PROC_UPLOADING | _ => false end.

Definition busy (t : transfer) : bool :=                 (* occupies a slot now or will at once *)
  match tst t with Starting | Init | Uploading => true | _ => false end.

Definition offline (c : cfg) (u : nat) : bool :=
  match ust (info c u) with Offline => true | _ => false end.

Definition memb (x : nat) (l : list nat) : bool := existsb (Nat.eqb x) l.

Definition busy_users (ts : list transfer) : list nat := map tuser (filter processing ts).

(* The selection is the GENERATED code (SlskGen.PrioGen: scan_gen / prioritize_gen / slice_gen / free_gen,
   regenerated statement by statement from _get_queued_transfers, _prioritize_uploads, manage_transfers,
   get_free_upload_slots), instantiated with the transfer type of this model. *)
Definition user_status (c : cfg) (u : nat) : Z := status_code (ust (info c u)).

(* [bu] = uploading_users, [seen] = users_with_queued_upload *)
Definition scan (c : cfg) (bu seen : list nat) (ts : list transfer) : list transfer :=
  scan_gen transfer tuser is_queued (user_status c) bu seen ts.

Definition eligible (c : cfg) (ts : list transfer) : list transfer := scan c (busy_users ts) [] ts.

Definition rank (c : cfg) (t : transfer) : nat :=
  let i := info c (tuser t) in rank_of (status_code (ust i)) (ufriend i) (upriv i).

(* list.sort(key=rank): stable, ascending *)
Definition insert (c : cfg) (x : transfer) (l : list transfer) : list transfer := insert_gen transfer (rank c) x l.
Definition isort (c : cfg) (l : list transfer) : list transfer := isort_gen transfer (rank c) l.
Definition prioritize (c : cfg) (l : list transfer) : list transfer := prioritize_gen transfer (rank c) l.

Definition free (c : cfg) (ts : list transfer) : nat := free_gen (slots c) (length (filter processing ts)).

(* manage_transfers: uploads[:free_upload_slots] *)
Definition select (c : cfg) (ts : list transfer) : list transfer :=
  slice_gen transfer (free c ts) (prioritize c (eligible c ts)).

(* manage_transfers, upload loop (repair F03): inside the slice, an upload whose `_transfer_task` is still
   running is skipped -- it keeps its place in the slice, i.e. it still uses up its slot *)
Definition is_starting (t : transfer) : bool := match tst t with Starting => true | _ => false end.
Definition started (c : cfg) (ts : list transfer) : list transfer :=
  if CYCLE_GUARD_TR then filter (fun t => negb (is_starting t)) (select c ts) else select c ts.

(* a user is eligible: not offline, no upload in progress, has a queued upload *)
Definition eligible_user (c : cfg) (ts : list transfer) (u : nat) : Prop :=
  offline c u = false /\ ~ In u (busy_users ts) /\ exists t, In t ts /\ tuser t = u /\ is_queued t = true.

(* ---- the cycle machine ----------------------------------------------------------------- *)
Record mstate := mkS { mcfg : cfg; mts : list transfer }.

Inductive fin := FStart | FComplete | FFail | FRequeue.

Inductive event :=
  | Queue (u : nat)                 (* a new upload of user u is queued *)
  | Requeue (k : nat)               (* a finished/aborted upload goes back to QUEUED *)
  | Cycle                           (* manage_transfers *)
  | First (k : nat)                 (* first segment of the task created for k: QUEUED -> INITIALIZING *)
  | FirstAll                        (* every created task runs its first segment *)
  | Finish (k : nat) (r : fin)      (* the upload task of k moves on *)
  | Abort (k : nat)                 (* abort/pause: tasks cancelled, state leaves the queue *)
  | SetSlots (n : nat)
  | Status (u : nat) (s : ustatus) (p : bool)
  | Friend (u : nat) (b : bool).

Definition upd (k : nat) (f : transfer -> transfer) (ts : list transfer) : list transfer :=
  map (fun t => if tid t =? k then f t else t) ts.

Definition set_st (s : tstate) (t : transfer) : transfer :=
  mkT (tid t) (tuser t) s (match s with Starting | Init | Uploading => told t | _ => false end).

Definition set_info (c : cfg) (u : nat) (f : uinfo -> uinfo) : cfg :=
  mkCfg (slots c) (fun v => if v =? u then f (info c v) else info c v).

Definition mark (ids : list nat) (ts : list transfer) : list transfer :=
  map (fun t => if memb (tid t) ids then set_st Starting t else t) ts.

Definition fin_target (r : fin) (t : transfer) : transfer :=
  match r, tst t with
  | FStart, Init => set_st Uploading t
  | FComplete, Uploading => set_st Other t
  | FFail, (Init | Uploading) => set_st Other t
  | FRequeue, Init => set_st Queued t
  | _, _ => t
  end.

(* observation of a step: the ordered selection of a cycle (= the order in which the tasks are
   created, hence the order of the PeerTransferRequest messages) *)
Definition step (s : mstate) (e : event) : mstate * list nat :=
  let c := mcfg s in let ts := mts s in
  match e with
  | Queue u => (mkS c (ts ++ [mkT (length ts) u Queued false]), [])
  | Requeue k => (mkS c (upd k (fun t => match tst t with Other => set_st Queued t | _ => t end) ts), [])
  | Cycle => let sel := map tid (started c ts) in (mkS c (mark sel ts), sel)
  | First k => (mkS c (upd k (fun t => match tst t with Starting => set_st Init t | _ => t end) ts), [])
  | FirstAll => (mkS c (map (fun t => match tst t with Starting => set_st Init t | _ => t end) ts), [])
  | Finish k r => (mkS c (upd k (fin_target r) ts), [])
  | Abort k => (mkS c (upd k (set_st Other) ts), [])
  | SetSlots n => (mkS (mkCfg n (info c)) (map (fun t => mkT (tid t) (tuser t) (tst t) (busy t)) ts), [])
  | Status u st p => (mkS (set_info c u (fun i => mkU st p (ufriend i))) ts, [])
  | Friend u b => (mkS (set_info c u (fun i => mkU (ust i) (upriv i) b)) ts, [])
  end.

Fixpoint run (s : mstate) (evs : list event) : mstate :=
  match evs with [] => s | e :: r => run (fst (step s e)) r end.

(* run with observations: per event, (selection, states of all transfers after the event) *)
Definition st_code (t : transfer) : nat :=
  match tst t with Queued => 0 | Starting => 1 | Init => 2 | Uploading => 3 | Other => 4 end.

Fixpoint trace (s : mstate) (evs : list event) : list (list nat * list nat) :=
  match evs with
  | [] => []
  | e :: r => let '(s', o) := step s e in (o, map st_code (mts s')) :: trace s' r
  end.

Definition init (n : nat) : mstate := mkS (mkCfg n (fun _ => default_user)) [].

(* Event-loop premise A1: the first segment of every created task has run before the next cycle,
   i.e. no upload is in the Starting state when a Cycle event happens. *)
Definition no_starting (ts : list transfer) : bool :=
  forallb (fun t => match tst t with Starting => false | _ => true end) ts.

Fixpoint a1 (s : mstate) (evs : list event) : bool :=
  match evs with
  | [] => true
  | e :: r => (match e with Cycle => no_starting (mts s) | _ => true end) && a1 (fst (step s e)) r
  end.

Definition n_processing (s : mstate) : nat := length (filter processing (mts s)).
Definition n_busy (s : mstate) : nat := length (filter busy (mts s)).

(* the two halves of the property as booleans (used by the search over the model) *)
Definition slots_ok (s : mstate) : bool :=
  (n_processing s <=? slots (mcfg s)) || forallb (fun t => implb (processing t) (told t)) (mts s).

Fixpoint nodupb (l : list nat) : bool :=
  match l with [] => true | x :: r => negb (memb x r) && nodupb r end.
Definition one_per_user (s : mstate) : bool := nodupb (map tuser (filter processing (mts s))).

(* ---- finite-population progress: one round = cycle, first segments, every upload completes *)
Definition finish_all (ts : list transfer) : list transfer :=
  map (fun t => match tst t with Init | Uploading => set_st Other t | _ => t end) ts.

Definition round (s : mstate) : mstate :=
  let s1 := fst (step s Cycle) in
  let s2 := fst (step s1 FirstAll) in
  mkS (mcfg s2) (finish_all (mts s2)).

Fixpoint rounds (n : nat) (s : mstate) : mstate :=
  match n with O => s | S m => rounds m (round s) end.

Definition n_waiting (s : mstate) : nat :=
  length (filter (fun t => is_queued t && negb (offline (mcfg s) (tuser t))) (mts s)).

Definition state_of (s : mstate) (k : nat) : option tstate :=
  match find (fun t => tid t =? k) (mts s) with Some t => Some (tst t) | None => None end.

(* ---- the event-loop half of A1 -----------------------------------------------------------------
   The asyncio facts used (AsyncSem A1/A7), as the definition of this little machine:
   * the ready queue is FIFO; call_soon and task creation append at its end;
   * the handle of a timer that became due is appended after the handles already in the queue;
   * the management job is one task: after a cycle it sleeps (MIN_TRANSFER_MGMT_INTERVAL > 0) and then
     waits on its queue, so its next step enters the ready queue later, through a timer or a wake-up
     (LEnqJob), never ahead of what is already queued; at most one step of it is queued at a time.
   LExec runs the handle at the head of the queue. *)
Inductive handle := HFirst (k : nat) | HJob | HOther.
Record loopst := mkL { lq : list handle; ljob_queued : bool; lbad : bool }.
(* lbad (ghost): some cycle ran while a first segment created earlier was still waiting in the queue *)
Inductive levent :=
  | LExec (created : list nat)     (* run the head; if it is the job's step, its cycle creates these tasks *)
  | LEnqJob                        (* the job's sleep timer fired / a cycle request woke it *)
  | LEnqOther.                     (* anything else gets scheduled *)

Definition is_first (h : handle) : bool := match h with HFirst _ => true | _ => false end.
Definition is_job (h : handle) : bool := match h with HJob => true | _ => false end.

Definition lstep (s : loopst) (e : levent) : loopst :=
  match e with
  | LExec created =>
      match lq s with
      | [] => s
      | HJob :: r => mkL (r ++ map HFirst created) false (lbad s || existsb is_first r)
      | _ :: r => mkL r (ljob_queued s) (lbad s)
      end
  | LEnqJob => if ljob_queued s then s else mkL (lq s ++ [HJob]) true (lbad s)
  | LEnqOther => mkL (lq s ++ [HOther]) (ljob_queued s) (lbad s)
  end.
Fixpoint lrun (s : loopst) (evs : list levent) : loopst :=
  match evs with [] => s | e :: r => lrun (lstep s e) r end.
Definition linit : loopst := mkL [] false false.
