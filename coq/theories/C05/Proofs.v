(* C05 lemmas. *)
From Slsk Require Import Base.Tac.
From Coq Require Import Permutation Sorting.Sorted.
From SlskGen Require Import PrioGen SlotGen.
From Slsk Require Import C05.Model.
Arguments rank : simpl never.
Arguments rank_of : simpl never.

(* ---- membership ------------------------------------------------------------------------- *)
Lemma memb_In : forall x l, memb x l = true <-> In x l.
Proof.
  intros x l. unfold memb. rewrite existsb_exists. split.
  - intros (y & Hy & E). apply Nat.eqb_eq in E. subst. exact Hy.
  - intros H. exists x. split; [exact H | apply Nat.eqb_refl].
Qed.

Lemma memb_false : forall x l, memb x l = false <-> ~ In x l.
Proof.
  intros x l. rewrite <- memb_In. destruct (memb x l); split; intros; try congruence; try tauto.
Qed.

(* ---- the generated loops, unfolded once (these equations fail when the source statements change) ------ *)
Lemma offline_code : forall c u, Z.eqb (user_status c u) ST_OFFLINE = offline c u.
Proof. intros c u. unfold user_status, offline. destruct (ust (info c u)); reflexivity. Qed.

Lemma scan_cons : forall c bu seen t r,
  scan c bu seen (t :: r) =
    if offline c (tuser t) then scan c bu seen r
    else if memb (tuser t) bu then scan c bu seen r
    else if memb (tuser t) seen then scan c bu seen r
    else if is_queued t then t :: scan c bu (tuser t :: seen) r
    else scan c bu seen r.
Proof. intros. rewrite <- offline_code. reflexivity. Qed.

Lemma scan_nil : forall c bu seen, scan c bu seen [] = [].
Proof. reflexivity. Qed.

Lemma insert_cons : forall c x y r,
  insert c x (y :: r) = if rank c x <=? rank c y then x :: y :: r else y :: insert c x r.
Proof. reflexivity. Qed.
Lemma insert_nil : forall c x, insert c x [] = [x].
Proof. reflexivity. Qed.
Lemma isort_cons : forall c x l, isort c (x :: l) = insert c x (isort c l).
Proof. reflexivity. Qed.
Lemma isort_nil : forall c, isort c [] = [].
Proof. reflexivity. Qed.
Lemma prioritize_eq : forall c l, prioritize c l = rev (isort c l).
Proof. reflexivity. Qed.
Lemma free_eq : forall c ts, free c ts = slots c - length (filter processing ts).
Proof. intros. unfold free, free_gen. lia. Qed.

Global Opaque scan insert isort prioritize free.

Lemma NoDup_map_inj : forall (A B : Type) (f : A -> B) l a b,
  NoDup (map f l) -> In a l -> In b l -> f a = f b -> a = b.
Proof.
  intros A B f l. induction l as [|x l IH]; intros a b N Ha Hb E; [destruct Ha|].
  cbn in N. inv N. destruct Ha as [->|Ha], Hb as [->|Hb]; auto.
  - exfalso. apply H1. rewrite E. apply in_map. exact Hb.
  - exfalso. apply H1. rewrite <- E. apply in_map. exact Ha.
Qed.

Lemma NoDup_map_filter : forall (A B : Type) (f : A -> B) p l, NoDup (map f l) -> NoDup (map f (filter p l)).
Proof.
  intros A B f p l. induction l as [|x l IH]; intros N; cbn; [constructor|].
  cbn in N. inv N. destruct (p x); cbn; auto. constructor; auto.
  intros H. apply H1. apply in_map_iff in H. destruct H as (y & E & Hy). apply filter_In in Hy.
  rewrite <- E. apply in_map. tauto.
Qed.

Lemma NoDup_app_l : forall (A : Type) (l1 l2 : list A), NoDup (l1 ++ l2) -> NoDup l1.
Proof.
  intros A l1. induction l1 as [|x l IH]; intros l2 N; [constructor|].
  cbn in N. inv N. constructor; [|eapply IH; eauto]. intros H. apply H1. apply in_or_app. auto.
Qed.

(* ---- the scan ---------------------------------------------------------------------------- *)
Lemma scan_spec : forall c bu ts seen t, In t (scan c bu seen ts) ->
  In t ts /\ is_queued t = true /\ offline c (tuser t) = false /\
  memb (tuser t) bu = false /\ memb (tuser t) seen = false.
Proof.
  intros c bu ts. induction ts as [|a r IH]; intros seen t H; [rewrite scan_nil in H; destruct H|].
  rewrite scan_cons in H.
  destruct (offline c (tuser a)) eqn:Eo; [apply IH in H; cbn; tauto|].
  destruct (memb (tuser a) bu) eqn:Eb; [apply IH in H; cbn; tauto|].
  destruct (memb (tuser a) seen) eqn:Es; [apply IH in H; cbn; tauto|].
  destruct (is_queued a) eqn:Eq; [|apply IH in H; cbn; tauto].
  destruct H as [<-|H]; [cbn; tauto|].
  apply IH in H. destruct H as (H1 & H2 & H3 & H4 & H5). cbn. repeat split; auto.
  cbn in H5. apply orb_false_iff in H5. tauto.
Qed.

Lemma scan_nodup : forall c bu ts seen, NoDup (map tuser (scan c bu seen ts)).
Proof.
  intros c bu ts. induction ts as [|a r IH]; intros seen; [rewrite scan_nil; constructor|].
  rewrite scan_cons. destruct (offline c (tuser a)); auto.
  destruct (memb (tuser a) bu); auto. destruct (memb (tuser a) seen); auto.
  destruct (is_queued a); auto. cbn. constructor; auto.
  intros H. apply in_map_iff in H. destruct H as (t & E & Ht). apply scan_spec in Ht.
  destruct Ht as (_ & _ & _ & _ & H5). cbn in H5. rewrite E, Nat.eqb_refl in H5. discriminate.
Qed.

Lemma scan_complete : forall c bu ts seen u,
  offline c u = false -> memb u bu = false -> memb u seen = false ->
  (exists t, In t ts /\ tuser t = u /\ is_queued t = true) -> In u (map tuser (scan c bu seen ts)).
Proof.
  intros c bu ts. induction ts as [|a r IH]; intros seen u Ho Hb Hs (t & Ht & Eu & Hq); [destruct Ht|].
  rewrite scan_cons.
  assert (R : a <> t -> exists t0, In t0 r /\ tuser t0 = u /\ is_queued t0 = true).
  { intros N. exists t. destruct Ht as [E|Ht]; [congruence|auto]. }
  destruct (Nat.eq_dec (tuser a) u) as [Ea|Na].
  - rewrite Ea, Ho, Hb, Hs. destruct (is_queued a) eqn:Eq; [left; exact Ea|].
    apply IH; auto. apply R. intros ->. congruence.
  - assert (Nt : a <> t) by (intros ->; congruence).
    destruct (offline c (tuser a)); [apply IH; auto|].
    destruct (memb (tuser a) bu); [apply IH; auto|].
    destruct (memb (tuser a) seen); [apply IH; auto|].
    destruct (is_queued a); [|apply IH; auto].
    cbn. right. apply IH; auto. cbn. apply orb_false_iff. split; [apply Nat.eqb_neq; auto|exact Hs].
Qed.

Lemma eligible_spec : forall c ts t, In t (eligible c ts) ->
  In t ts /\ is_queued t = true /\ offline c (tuser t) = false /\ ~ In (tuser t) (busy_users ts).
Proof.
  intros c ts t H. apply scan_spec in H. destruct H as (A & B & C & D & _).
  repeat split; auto. apply memb_false. exact D.
Qed.

Lemma eligible_users : forall c ts u, In u (map tuser (eligible c ts)) <-> eligible_user c ts u.
Proof.
  intros c ts u. split.
  - intros H. apply in_map_iff in H. destruct H as (t & E & Ht). apply eligible_spec in Ht.
    destruct Ht as (A & B & C & D). subst u. repeat split; auto. exists t. auto.
  - intros (A & B & C). apply scan_complete; auto. apply memb_false. exact B.
Qed.

(* ---- the sort ----------------------------------------------------------------------------- *)
Definition asc (c : cfg) := StronglySorted (fun a b => rank c a <= rank c b).
Definition desc (c : cfg) := StronglySorted (fun a b => rank c b <= rank c a).

Lemma insert_perm : forall c x l, Permutation (insert c x l) (x :: l).
Proof.
  intros c x l. induction l as [|y r IH]; [rewrite insert_nil; reflexivity|]. rewrite insert_cons.
  destruct (rank c x <=? rank c y); [reflexivity|].
  rewrite IH. apply perm_swap.
Qed.

Lemma isort_perm : forall c l, Permutation (isort c l) l.
Proof.
  intros c l. induction l as [|x r IH]; [rewrite isort_nil; reflexivity|]. rewrite isort_cons.
  rewrite insert_perm. constructor. exact IH.
Qed.

Lemma insert_sorted : forall c x l, asc c l -> asc c (insert c x l).
Proof.
  intros c x l H. induction H as [|y r Hs IH Hf]; [rewrite insert_nil; repeat constructor|]. rewrite insert_cons.
  destruct (rank c x <=? rank c y) eqn:E.
  - apply Nat.leb_le in E. constructor; [constructor; auto|].
    constructor; [exact E|]. eapply Forall_impl; [|exact Hf]. cbn. intros; lia.
  - apply Nat.leb_gt in E. constructor; [exact IH|].
    eapply Permutation_Forall; [symmetry; apply insert_perm|]. constructor; [lia|exact Hf].
Qed.

Lemma isort_sorted : forall c l, asc c (isort c l).
Proof. intros c l. induction l; [rewrite isort_nil; constructor|rewrite isort_cons; apply insert_sorted; assumption]. Qed.

Lemma ssorted_app : forall (A : Type) (R : A -> A -> Prop) l1 l2,
  StronglySorted R l1 -> StronglySorted R l2 -> (forall a b, In a l1 -> In b l2 -> R a b) ->
  StronglySorted R (l1 ++ l2).
Proof.
  intros A R l1 l2 H1 H2 H. induction H1 as [|x l Hs IH Hf]; cbn; [exact H2|].
  constructor; [apply IH; intros; apply H; cbn; auto|].
  apply Forall_app. split; [exact Hf|]. apply Forall_forall. intros b Hb. apply H; cbn; auto.
Qed.

Lemma ssorted_app_inv : forall (A : Type) (R : A -> A -> Prop) l1 l2,
  StronglySorted R (l1 ++ l2) -> forall a b, In a l1 -> In b l2 -> R a b.
Proof.
  intros A R l1. induction l1 as [|x l IH]; intros l2 H a b Ha Hb; [destruct Ha|].
  cbn in H. inv H. destruct Ha as [<-|Ha].
  - rewrite Forall_forall in H3. apply H3. apply in_or_app. auto.
  - eapply IH; eauto.
Qed.

Lemma rev_desc : forall c l, asc c l -> desc c (rev l).
Proof.
  intros c l H. induction H as [|x r Hs IH Hf]; cbn; [constructor|].
  apply ssorted_app; [exact IH|repeat constructor|].
  intros a b Ha [<-|[]]. apply in_rev in Ha. rewrite Forall_forall in Hf. apply Hf. exact Ha.
Qed.

Lemma prioritize_perm : forall c l, Permutation (prioritize c l) l.
Proof.
  intros c l. rewrite prioritize_eq. rewrite <- Permutation_rev. apply isort_perm.
Qed.

Lemma prioritize_desc : forall c l, desc c (prioritize c l).
Proof. intros c l. rewrite prioritize_eq. apply rev_desc. apply isort_sorted. Qed.

(* ---- selection theorems ------------------------------------------------------------------ *)
Lemma select_firstn : forall c ts, select c ts = firstn (free c ts) (prioritize c (eligible c ts)).
Proof. intros. unfold select, slice_gen. rewrite Nat.add_0_r. reflexivity. Qed.

Lemma In_firstn : forall (A : Type) n (l : list A) x, In x (firstn n l) -> In x l.
Proof. intros A n l x H. rewrite <- (firstn_skipn n l). apply in_or_app. auto. Qed.

Lemma select_incl : forall c ts t, In t (select c ts) -> In t (eligible c ts).
Proof.
  intros c ts t H. rewrite select_firstn in H. apply In_firstn in H.
  eapply Permutation_in; [apply prioritize_perm|exact H].
Qed.

Lemma select_nodup_users : forall c ts, NoDup (map tuser (select c ts)).
Proof.
  intros c ts. rewrite select_firstn.
  assert (N : NoDup (map tuser (prioritize c (eligible c ts)))).
  { eapply Permutation_NoDup; [apply Permutation_map; symmetry; apply prioritize_perm|apply scan_nodup]. }
  rewrite <- (firstn_skipn (free c ts) (prioritize c (eligible c ts))), map_app in N.
  apply NoDup_app_l in N. exact N.
Qed.

Lemma select_bound : forall c ts,
  length (select c ts) <= free c ts /\
  NoDup (map tuser (select c ts)) /\
  forall t, In t (select c ts) ->
    In t ts /\ tst t <> Init /\ tst t <> Uploading /\ is_queued t = true /\
    offline c (tuser t) = false /\ ~ In (tuser t) (busy_users ts).
Proof.
  intros c ts. split; [rewrite select_firstn; apply firstn_le_length|].
  split; [apply select_nodup_users|].
  intros t H. apply select_incl in H. apply eligible_spec in H. destruct H as (A & B & C & D).
  repeat split; auto; intros E; unfold is_queued in B; rewrite E in B; discriminate.
Qed.

Lemma select_priority : forall c ts t u,
  In t (select c ts) -> In u (eligible c ts) -> ~ In u (select c ts) -> rank c u <= rank c t.
Proof.
  intros c ts t u Ht Hu Hn. rewrite select_firstn in *.
  pose proof (prioritize_desc c (eligible c ts)) as D.
  set (l := prioritize c (eligible c ts)) in *.
  rewrite <- (firstn_skipn (free c ts) l) in D.
  eapply (ssorted_app_inv _ _ _ _ D t u); [exact Ht|].
  assert (In u l) by (eapply Permutation_in; [symmetry; apply prioritize_perm|exact Hu]).
  rewrite <- (firstn_skipn (free c ts) l) in H. apply in_app_or in H. tauto.
Qed.

(* the selection itself is ordered by decreasing rank: the order of the PeerTransferRequests *)
Lemma select_sorted : forall c ts, desc c (select c ts).
Proof.
  intros c ts. rewrite select_firstn.
  pose proof (prioritize_desc c (eligible c ts)) as D.
  set (l := prioritize c (eligible c ts)) in *. clearbody l.
  revert D. generalize (free c ts). intros n. revert l. induction n; intros l D; cbn; [constructor|].
  destruct l; [constructor|]. inv D. constructor; [apply IHn; exact H1|].
  apply Forall_forall. intros x Hx. apply In_firstn in Hx. rewrite Forall_forall in H2. auto.
Qed.

Lemma work_conserving : forall c ts,
  length (select c ts) = Nat.min (free c ts) (length (eligible c ts)) /\
  NoDup (map tuser (eligible c ts)) /\
  (forall u, In u (map tuser (eligible c ts)) <-> eligible_user c ts u) /\
  (forall u, 0 < free c ts -> eligible_user c ts u -> select c ts <> []).
Proof.
  intros c ts.
  assert (L : length (select c ts) = Nat.min (free c ts) (length (eligible c ts))).
  { rewrite select_firstn, firstn_length. f_equal. apply Permutation_length. apply prioritize_perm. }
  split; [exact L|]. split; [apply scan_nodup|]. split; [apply eligible_users|].
  intros u Hf Hu E. rewrite E in L. cbn in L.
  apply eligible_users in Hu. destruct (eligible c ts); [destruct Hu|cbn in L; lia].
Qed.

(* the weights put the classes in lexicographic order: privileged > friend > online/away > rest *)
Lemma rank_lexicographic : forall s1 s2 f1 f2 p1 p2,
  let on s := existsb (Z.eqb (status_code s)) [ST_ONLINE; ST_AWAY] in
  (p1 = true -> p2 = false -> rank_of (status_code s2) f2 p2 < rank_of (status_code s1) f1 p1) /\
  (p1 = p2 -> f1 = true -> f2 = false -> rank_of (status_code s2) f2 p2 < rank_of (status_code s1) f1 p1) /\
  (p1 = p2 -> f1 = f2 -> on s1 = true -> on s2 = false ->
     rank_of (status_code s2) f2 p2 < rank_of (status_code s1) f1 p1) /\
  (on Online = true /\ on Away = true /\ on Unknown = false).
Proof.
  intros s1 s2 f1 f2 p1 p2. cbn zeta.
  destruct s1, s2, f1, f2, p1, p2; vm_compute; repeat split; intros; try discriminate; lia.
Qed.

(* ---- the cycle machine --------------------------------------------------------------------- *)
Definition ids_ok (ts : list transfer) : Prop := map tid ts = seq 0 (length ts).

Record Inv (s : mstate) : Prop := mkInv {
  inv_ids : ids_ok (mts s);
  inv_one : forall t1 t2, In t1 (mts s) -> In t2 (mts s) -> busy t1 = true -> busy t2 = true ->
            tuser t1 = tuser t2 -> tid t1 = tid t2;
  inv_cnt : n_busy s <= slots (mcfg s) \/ forall t, In t (mts s) -> busy t = true -> told t = true }.

Lemma ids_nodup : forall ts, ids_ok ts -> NoDup (map tid ts).
Proof. intros ts H. rewrite H. apply seq_NoDup. Qed.

Lemma filter_le : forall (A : Type) (p q : A -> bool) l,
  (forall x, In x l -> p x = true -> q x = true) -> length (filter p l) <= length (filter q l).
Proof.
  intros A p q l. induction l as [|x l IH]; intros H; cbn; [lia|].
  assert (IH' : length (filter p l) <= length (filter q l)) by (apply IH; intros; apply H; cbn; auto).
  destruct (p x) eqn:E.
  - rewrite (H x (or_introl eq_refl) E). cbn. lia.
  - destruct (q x); cbn; lia.
Qed.

Lemma filter_map_le : forall (A : Type) (p : A -> bool) g l,
  (forall x, In x l -> p (g x) = true -> p x = true) -> length (filter p (map g l)) <= length (filter p l).
Proof.
  intros A p g l. induction l as [|x l IH]; intros H; cbn; [lia|].
  assert (IH' : length (filter p (map g l)) <= length (filter p l)) by (apply IH; intros; apply H; cbn; auto).
  destruct (p (g x)) eqn:E.
  - rewrite (H x (or_introl eq_refl) E). cbn. lia.
  - destruct (p x); cbn; lia.
Qed.

Definition keeps (g : transfer -> transfer) : Prop :=
  forall t, tid (g t) = tid t /\ tuser (g t) = tuser t /\ (busy (g t) = true -> busy t = true /\ told (g t) = told t).

Lemma map_tid : forall g ts, (forall t, tid (g t) = tid t) -> map tid (map g ts) = map tid ts.
Proof. intros g ts H. rewrite map_map. apply map_ext. exact H. Qed.

Lemma map_inv : forall g c ts, keeps g -> Inv (mkS c ts) -> Inv (mkS c (map g ts)).
Proof.
  intros g c ts K [I1 I2 I3]. cbn in *. constructor; cbn.
  - unfold ids_ok in *. rewrite map_tid, map_length; [exact I1|intros; apply K].
  - intros t1 t2 H1 H2 B1 B2 E. apply in_map_iff in H1, H2.
    destruct H1 as (a & <- & Ha), H2 as (b & <- & Hb).
    destruct (K a) as (Ka1 & Ka2 & Ka3), (K b) as (Kb1 & Kb2 & Kb3).
    rewrite Ka1, Kb1. apply I2; auto; try tauto. congruence.
  - unfold n_busy in *. cbn in *. destruct I3 as [L|R].
    + left. etransitivity; [|exact L]. apply filter_map_le. intros x _ H. apply K. exact H.
    + right. intros t Ht B. apply in_map_iff in Ht. destruct Ht as (a & <- & Ha).
      destruct (K a) as (_ & _ & K3). destruct (K3 B) as (Ba & ->). auto.
Qed.

Lemma keeps_upd : forall k f, keeps f -> keeps (fun t => if tid t =? k then f t else t).
Proof. intros k f K t. destruct (tid t =? k); [apply K|tauto]. Qed.

Ltac keeps_tac := intros [i u st o]; destruct st; cbn; intuition congruence.

Lemma keeps_requeue : keeps (fun t => match tst t with Other => set_st Queued t | _ => t end).
Proof. keeps_tac. Qed.
Lemma keeps_first : keeps (fun t => match tst t with Starting => set_st Init t | _ => t end).
Proof. keeps_tac. Qed.
Lemma keeps_fin : forall r, keeps (fin_target r).
Proof. intros r. destruct r; keeps_tac. Qed.
Lemma keeps_abort : keeps (set_st Other).
Proof. keeps_tac. Qed.

Lemma no_starting_busy : forall ts, no_starting ts = true -> forall t, In t ts -> busy t = processing t.
Proof.
  intros ts H t Ht. unfold no_starting in H. rewrite forallb_forall in H. specialize (H t Ht).
  unfold busy, processing. destruct (tst t); try reflexivity; discriminate.
Qed.

Lemma mark_nil : forall ts, mark [] ts = ts.
Proof. intros ts. unfold mark. cbn. rewrite <- (map_id ts) at 2. apply map_ext. reflexivity. Qed.

Lemma marked_in_sel : forall c ts t, ids_ok ts -> In t ts ->
  memb (tid t) (map tid (select c ts)) = true -> In t (select c ts).
Proof.
  intros c ts t I Ht M. apply memb_In in M. apply in_map_iff in M. destruct M as (s1 & E & Hs).
  assert (In s1 ts) by (apply (select_bound c ts); exact Hs).
  assert (s1 = t) by (eapply NoDup_map_inj; [apply ids_nodup; exact I| | |]; auto).
  subst. exact Hs.
Qed.

Lemma marked_count : forall ids ts, NoDup (map tid ts) ->
  length (filter (fun t => memb (tid t) ids) ts) <= length ids.
Proof.
  intros ids ts N. rewrite <- (map_length tid). apply NoDup_incl_length.
  - apply NoDup_map_filter. exact N.
  - intros x Hx. apply in_map_iff in Hx. destruct Hx as (t & <- & Ht). apply filter_In in Ht.
    apply memb_In. tauto.
Qed.

Lemma busy_mark_le : forall ids ts,
  length (filter busy (mark ids ts)) <= length (filter busy ts) + length (filter (fun t => memb (tid t) ids) ts).
Proof.
  intros ids ts. unfold mark. induction ts as [|t r IH]; cbn; [lia|].
  destruct (memb (tid t) ids) eqn:M; cbn.
  - destruct (busy t); cbn; lia.
  - destruct (busy t); cbn; lia.
Qed.

Lemma cycle_inv : forall c ts, Inv (mkS c ts) -> no_starting ts = true ->
  Inv (mkS c (mark (map tid (select c ts)) ts)).
Proof.
  intros c ts [I1 I2 I3] NS. cbn in *.
  set (ids := map tid (select c ts)).
  assert (G : forall t, In t ts -> busy (if memb (tid t) ids then set_st Starting t else t) = true ->
              (In t (select c ts)) \/ (memb (tid t) ids = false /\ busy t = true)).
  { intros t Ht B. destruct (memb (tid t) ids) eqn:M; [left; apply marked_in_sel; auto|right; auto]. }
  constructor; cbn.
  - unfold ids_ok, mark in *. rewrite map_tid, map_length; [exact I1|].
    intros t. destruct (memb (tid t) ids); reflexivity.
  - intros t1 t2 H1 H2 B1 B2 E. unfold mark in H1, H2. apply in_map_iff in H1, H2.
    destruct H1 as (a & <- & Ha), H2 as (b & <- & Hb).
    assert (Ta : forall t, tid (if memb (tid t) ids then set_st Starting t else t) = tid t /\
                           tuser (if memb (tid t) ids then set_st Starting t else t) = tuser t).
    { intros t. destruct (memb (tid t) ids); cbn; auto. }
    destruct (Ta a) as (-> & Ua), (Ta b) as (-> & Ub). rewrite Ua, Ub in E.
    destruct (G a Ha B1) as [Sa|(Ma & Ba)], (G b Hb B2) as [Sb|(Mb & Bb)].
    + f_equal. apply (NoDup_map_inj _ _ tuser (select c ts)); [apply select_nodup_users|exact Sa|exact Sb|exact E].
    + exfalso. destruct (select_bound c ts) as (_ & _ & S). destruct (S a Sa) as (_ & _ & _ & _ & _ & Nb).
      apply Nb. rewrite E. unfold busy_users. apply in_map. apply filter_In. split; [exact Hb|].
      rewrite <- (no_starting_busy ts NS b Hb). exact Bb.
    + exfalso. destruct (select_bound c ts) as (_ & _ & S). destruct (S b Sb) as (_ & _ & _ & _ & _ & Nb).
      apply Nb. rewrite <- E. unfold busy_users. apply in_map. apply filter_In. split; [exact Ha|].
      rewrite <- (no_starting_busy ts NS a Ha). exact Ba.
    + apply I2; auto.
  - unfold n_busy in *. cbn in *. destruct (free c ts) eqn:F.
    + assert (E : ids = []). { unfold ids. rewrite select_firstn, F. reflexivity. }
      rewrite E, mark_nil. exact I3.
    + left. pose proof (busy_mark_le ids ts) as L1.
      pose proof (marked_count ids ts (ids_nodup ts I1)) as L2.
      assert (L3 : length ids <= S n).
      { unfold ids. rewrite map_length. rewrite <- F. apply select_bound. }
      assert (L4 : length (filter busy ts) = length (filter processing ts)).
      { f_equal. apply filter_ext_in. intros t Ht. apply (no_starting_busy ts); auto. }
      rewrite free_eq in F. lia.
Qed.

Lemma started_no_starting : forall c ts, no_starting ts = true -> started c ts = select c ts.
Proof.
  intros c ts NS. unfold started. destruct CYCLE_GUARD_TR; [|reflexivity].
  assert (H : forall t, In t (select c ts) -> negb (is_starting t) = true).
  { intros t Ht. assert (In t ts) by (apply (select_bound c ts); exact Ht).
    unfold no_starting in NS. rewrite forallb_forall in NS. specialize (NS t H).
    unfold is_starting. destruct (tst t); auto. }
  induction (select c ts) as [|a r IH]; [reflexivity|]. cbn. rewrite (H a (or_introl eq_refl)).
  f_equal. apply IH. intros; apply H; cbn; auto.
Qed.

Lemma setslots_inv : forall c ts n, Inv (mkS c ts) ->
  Inv (mkS (mkCfg n (info c)) (map (fun t => mkT (tid t) (tuser t) (tst t) (busy t)) ts)).
Proof.
  intros c ts n [I1 I2 I3]. cbn in *. constructor; cbn.
  - unfold ids_ok in *. rewrite map_tid, map_length; [exact I1|reflexivity].
  - intros t1 t2 H1 H2 B1 B2 E. apply in_map_iff in H1, H2.
    destruct H1 as (a & <- & Ha), H2 as (b & <- & Hb). cbn in *. apply I2; auto.
  - right. intros t Ht B. apply in_map_iff in Ht. destruct Ht as (a & <- & Ha). cbn in *. exact B.
Qed.

Lemma queue_inv : forall c ts u, Inv (mkS c ts) -> Inv (mkS c (ts ++ [mkT (length ts) u Queued false])).
Proof.
  intros c ts u [I1 I2 I3]. cbn in *. constructor; cbn.
  - unfold ids_ok in *. rewrite map_app, app_length, seq_app, I1. reflexivity.
  - intros t1 t2 H1 H2 B1 B2 E. apply in_app_or in H1, H2.
    destruct H1 as [H1|[<-|[]]], H2 as [H2|[<-|[]]]; try discriminate. apply I2; auto.
  - unfold n_busy in *. cbn in *. rewrite filter_app. cbn. rewrite app_nil_r. destruct I3 as [L|R]; [left; exact L|right].
    intros t Ht B. apply in_app_or in Ht. destruct Ht as [Ht|[<-|[]]]; [auto|discriminate].
Qed.

Lemma step_inv : forall s e, Inv s -> (e = Cycle -> no_starting (mts s) = true) -> Inv (fst (step s e)).
Proof.
  intros [c ts] e I A. destruct e; cbn [step fst mcfg mts] in *.
  - apply queue_inv. exact I.
  - apply map_inv; [apply keeps_upd, keeps_requeue|exact I].
  - rewrite started_no_starting by auto. apply cycle_inv; auto.
  - apply map_inv; [apply keeps_upd, keeps_first|exact I].
  - apply map_inv; [apply keeps_first|exact I].
  - apply map_inv; [apply keeps_upd, keeps_fin|exact I].
  - apply map_inv; [apply keeps_upd, keeps_abort|exact I].
  - apply setslots_inv. exact I.
  - destruct I as [I1 I2 I3]. constructor; auto.
  - destruct I as [I1 I2 I3]. constructor; auto.
Qed.

Lemma run_inv : forall evs s, Inv s -> a1 s evs = true -> Inv (run s evs).
Proof.
  intros evs. induction evs as [|e r IH]; intros s I A; [exact I|].
  cbn [a1] in A. apply andb_true_iff in A. destruct A as (A1 & A2). cbn [run].
  apply IH; [|exact A2]. apply step_inv; [exact I|]. intros ->. exact A1.
Qed.

Lemma init_inv : forall n, Inv (init n).
Proof. intros n. constructor; cbn; [reflexivity|intros ? ? []|left; lia]. Qed.

Lemma processing_busy : forall t, processing t = true -> busy t = true.
Proof. intros t. unfold processing, busy. destruct (tst t); auto. Qed.

Lemma nodup_users : forall ts, NoDup (map tid ts) ->
  (forall t1 t2, In t1 ts -> In t2 ts -> processing t1 = true -> processing t2 = true ->
     tuser t1 = tuser t2 -> tid t1 = tid t2) ->
  NoDup (map tuser (filter processing ts)).
Proof.
  intros ts. induction ts as [|a r IH]; intros N H; cbn; [constructor|].
  cbn in N. apply NoDup_cons_iff in N. destruct N as (Na & Nr).
  assert (IH' : NoDup (map tuser (filter processing r))) by (apply IH; auto; intros; apply H; cbn; auto).
  destruct (processing a) eqn:P; [|exact IH']. cbn. constructor; [|exact IH'].
  intros Hin. apply in_map_iff in Hin. destruct Hin as (t & E & Ht). apply filter_In in Ht. destruct Ht as (Ht & Pt).
  apply Na. rewrite <- (H t a); cbn; auto. apply in_map. exact Ht.
Qed.

Lemma slots_inv : forall evs s, Inv s -> a1 s evs = true ->
  let s' := run s evs in
  (n_processing s' <= slots (mcfg s') \/
   forall t, In t (mts s') -> processing t = true -> told t = true) /\
  NoDup (map tuser (filter processing (mts s'))).
Proof.
  intros evs s I A s'. pose proof (run_inv evs s I A) as [I1 I2 I3]. fold s' in I1, I2, I3. split.
  - destruct I3 as [L|R].
    + left. unfold n_processing, n_busy in *. etransitivity; [|exact L].
      apply filter_le. intros x _. apply processing_busy.
    + right. intros t Ht P. apply R; auto. apply processing_busy. exact P.
  - apply nodup_users; [apply ids_nodup; exact I1|].
    intros t1 t2 H1 H2 P1 P2 E. apply I2; auto using processing_busy.
Qed.

Lemma slots_inv_refuted : exists evs,
  let s' := run (init 1) evs in
  slots (mcfg s') < n_processing s' /\ (forall t, In t (mts s') -> told t = false) /\ slots_ok s' = false.
Proof.
  exists [Queue 0; Queue 1; Cycle; Friend 0 true; Cycle; FirstAll]. vm_compute. split; [lia|]. split; [|reflexivity].
  intros t [<-|[<-|[]]]; reflexivity.
Qed.

(* ---- finite-population progress -------------------------------------------------------------- *)
Definition idle (s : mstate) : Prop := forall t, In t (mts s) -> busy t = false.

Lemma filter_map_le2 : forall (A : Type) (p p' : A -> bool) g l,
  (forall x, In x l -> p' (g x) = true -> p x = true) -> length (filter p' (map g l)) <= length (filter p l).
Proof.
  intros A p p' g l. induction l as [|x l IH]; intros H; cbn; [lia|].
  assert (IH' : length (filter p' (map g l)) <= length (filter p l)) by (apply IH; intros; apply H; cbn; auto).
  destruct (p' (g x)) eqn:E.
  - rewrite (H x (or_introl eq_refl) E). cbn. lia.
  - destruct (p x); cbn; lia.
Qed.

Lemma filter_map_lt : forall (A : Type) (p p' : A -> bool) g l x0,
  (forall x, In x l -> p' (g x) = true -> p x = true) -> In x0 l -> p x0 = true -> p' (g x0) = false ->
  length (filter p' (map g l)) < length (filter p l).
Proof.
  intros A p p' g l. induction l as [|x l IH]; intros x0 H H0 P P'; [destruct H0|].
  cbn. destruct H0 as [->|H0].
  - rewrite P, P'. cbn. apply Nat.lt_succ_r. apply filter_map_le2. intros; apply H; cbn; auto.
  - assert (IH' : length (filter p' (map g l)) < length (filter p l)) by (eapply IH; eauto; intros; apply H; cbn; auto).
    destruct (p' (g x)) eqn:E.
    + rewrite (H x (or_introl eq_refl) E). cbn. lia.
    + destruct (p x); cbn; lia.
Qed.

Definition round_fun (ids : list nat) (t : transfer) : transfer :=
  let t1 := if memb (tid t) ids then set_st Starting t else t in
  let t2 := match tst t1 with Starting => set_st Init t1 | _ => t1 end in
  match tst t2 with Init | Uploading => set_st Other t2 | _ => t2 end.

Lemma idle_no_starting : forall s, idle s -> no_starting (mts s) = true.
Proof.
  intros s I. unfold no_starting. apply forallb_forall. intros t Ht. specialize (I t Ht).
  unfold busy in I. destruct (tst t); auto; discriminate.
Qed.

Lemma round_eq : forall s, idle s ->
  round s = mkS (mcfg s) (map (round_fun (map tid (select (mcfg s) (mts s)))) (mts s)).
Proof.
  intros [c ts] I. unfold round. cbn [step fst mcfg mts].
  rewrite (started_no_starting c ts (idle_no_starting (mkS c ts) I)).
  cbn. f_equal. unfold finish_all, mark. rewrite !map_map. reflexivity.
Qed.

Lemma round_fun_spec : forall ids t,
  tid (round_fun ids t) = tid t /\ tuser (round_fun ids t) = tuser t /\ busy (round_fun ids t) = false /\
  (is_queued (round_fun ids t) = true -> is_queued t = true /\ memb (tid t) ids = false).
Proof.
  intros ids [i u st o]. unfold round_fun. cbn [tid]. destruct (memb i ids); destruct st; cbn; intuition congruence.
Qed.

Lemma idle_no_processing : forall s, idle s -> filter processing (mts s) = [].
Proof.
  intros s. unfold idle. induction (mts s) as [|t r IH]; intros I; [reflexivity|]. cbn.
  destruct (processing t) eqn:P.
  - apply processing_busy in P. rewrite (I t) in P; [discriminate|cbn; auto].
  - apply IH. intros y Hy. apply I. cbn. auto.
Qed.

Lemma round_progress : forall s, idle s -> 1 <= slots (mcfg s) ->
  idle (round s) /\ mcfg (round s) = mcfg s /\
  (0 < n_waiting s -> n_waiting (round s) < n_waiting s) /\ n_waiting (round s) <= n_waiting s.
Proof.
  intros s I S. rewrite (round_eq s I). cbn [mcfg mts]. set (ids := map tid (select (mcfg s) (mts s))).
  assert (M : forall x, In x (mts s) ->
     is_queued (round_fun ids x) && negb (offline (mcfg s) (tuser (round_fun ids x))) = true ->
     is_queued x && negb (offline (mcfg s) (tuser x)) = true).
  { intros x _ H. destruct (round_fun_spec ids x) as (_ & U & _ & Q). rewrite U in H.
    apply andb_true_iff in H. destruct H as (H1 & H2). rewrite (proj1 (Q H1)), H2. reflexivity. }
  split; [|split; [reflexivity|split]].
  - intros t Ht. cbn in Ht. apply in_map_iff in Ht. destruct Ht as (a & <- & _). apply round_fun_spec.
  - intros W. unfold n_waiting in *. cbn [mcfg mts].
    (* some waiting upload exists, so its user is eligible and the selection is non-empty *)
    destruct (filter (fun t => is_queued t && negb (offline (mcfg s) (tuser t))) (mts s)) as [|w r] eqn:F; [cbn in W; lia|].
    assert (Hw : In w (mts s) /\ is_queued w && negb (offline (mcfg s) (tuser w)) = true).
    { apply (filter_In (fun t => is_queued t && negb (offline (mcfg s) (tuser t))) w (mts s)). rewrite F. cbn. auto. }
    destruct Hw as (Hw1 & Hw2). apply andb_true_iff in Hw2. destruct Hw2 as (Q & O). apply negb_true_iff in O.
    pose proof (idle_no_processing s I) as NP.
    assert (EU : eligible_user (mcfg s) (mts s) (tuser w)).
    { split; [exact O|]. split; [unfold busy_users; rewrite NP; intros []|]. exists w. auto. }
    assert (Fr : 0 < free (mcfg s) (mts s)) by (rewrite free_eq, NP; cbn; lia).
    destruct (work_conserving (mcfg s) (mts s)) as (_ & _ & _ & WC).
    specialize (WC _ Fr EU).
    assert (Ex : exists t0, In t0 (select (mcfg s) (mts s))).
    { destruct (select (mcfg s) (mts s)) as [|t0 sel]; [congruence|exists t0; cbn; auto]. }
    destruct Ex as (t0 & S0).
    destruct (select_bound (mcfg s) (mts s)) as (_ & _ & SB). destruct (SB t0 S0) as (T1 & _ & _ & T2 & T3 & _).
    rewrite <- F.
    apply (filter_map_lt _ _ _ _ _ t0); auto.
    + rewrite T2, T3. reflexivity.
    + destruct (round_fun_spec ids t0) as (_ & _ & _ & Q0).
      destruct (is_queued (round_fun ids t0)) eqn:E; [|reflexivity].
      destruct (Q0 eq_refl) as (_ & Mf). exfalso.
      assert (Mt : memb (tid t0) ids = true) by (apply memb_In; unfold ids; apply in_map; exact S0).
      congruence.
  - unfold n_waiting. cbn [mcfg mts]. apply filter_map_le2. exact M.
Qed.

Lemma progress : forall n s, idle s -> 1 <= slots (mcfg s) ->
  n_waiting (rounds n s) <= n_waiting s - n.
Proof.
  intros n. induction n as [|n IH]; intros s I S; cbn [rounds]; [lia|].
  destruct (round_progress s I S) as (I' & C' & Lt & Le).
  assert (S' : 1 <= slots (mcfg (round s))) by (rewrite C'; exact S).
  specialize (IH (round s) I' S').
  destruct (Nat.eq_dec (n_waiting s) 0) as [Z|NZ]; [lia|]. specialize (Lt ltac:(lia)). lia.
Qed.

(* ---- what the slot guard of the upload loop buys: cycles may run again before the created tasks
   started, as long as every upload with a pending task is still inside the slice -------------------- *)
Definition starting_selected (c : cfg) (ts : list transfer) : bool :=
  forallb (fun t => negb (is_starting t) || memb (tid t) (map tid (select c ts))) ts.

Fixpoint a1g (s : mstate) (evs : list event) : bool :=
  match evs with
  | [] => true
  | e :: r => (match e with Cycle => starting_selected (mcfg s) (mts s) | _ => true end) && a1g (fst (step s e)) r
  end.

Lemma filter_le_sum : forall (A : Type) (p q r : A -> bool) l,
  (forall x, In x l -> p x = true -> q x = true \/ r x = true) ->
  length (filter p l) <= length (filter q l) + length (filter r l).
Proof.
  intros A p q r l. induction l as [|x l IH]; intros H; cbn; [lia|].
  assert (IH' := IH (fun y Hy => H y (or_intror Hy))).
  destruct (p x) eqn:P; [|destruct (q x), (r x); cbn; lia].
  destruct (H x (or_introl eq_refl) P) as [Q|R]; [rewrite Q|rewrite R]; cbn; [destruct (r x)|destruct (q x)]; cbn; lia.
Qed.

Lemma filter_map_len : forall (A B : Type) (p : B -> bool) (g : A -> B) (l : list A),
  length (filter p (map g l)) = length (filter (fun x => p (g x)) l).
Proof. intros A B p g l. induction l as [|x l IH]; cbn; [reflexivity|]. destruct (p (g x)); cbn; lia. Qed.

Lemma started_incl : forall c ts t, In t (started c ts) -> In t (select c ts).
Proof. intros c ts t. unfold started. destruct CYCLE_GUARD_TR; [|auto]. intros H. apply filter_In in H. tauto. Qed.

Lemma cycle_inv_guarded : forall c ts, CYCLE_GUARD_TR = true -> Inv (mkS c ts) -> starting_selected c ts = true ->
  Inv (mkS c (mark (map tid (started c ts)) ts)).
Proof.
  intros c ts GT [I1 I2 I3] SS. cbn [mts mcfg] in *.
  set (ids := map tid (started c ts)).
  set (g := fun t => if memb (tid t) ids then set_st Starting t else t).
  assert (F2 : forall t, In t ts -> memb (tid t) ids = true -> In t (select c ts)).
  { intros t Ht M. apply marked_in_sel; auto. apply memb_In in M. apply memb_In.
    apply in_map_iff in M. destruct M as (s1 & E & Hs). rewrite <- E. apply in_map. apply started_incl. exact Hs. }
  assert (G : forall t, In t ts -> busy (g t) = true -> In t (select c ts) \/ processing t = true).
  { intros t Ht B. unfold g in B. destruct (memb (tid t) ids) eqn:M; [left; auto|].
    unfold starting_selected in SS. rewrite forallb_forall in SS. specialize (SS t Ht).
    unfold busy in B. unfold is_starting in SS. unfold processing. destruct (tst t) eqn:E; try discriminate.
    - left. cbn in SS. apply marked_in_sel; auto.
    - right. reflexivity.
    - right. reflexivity. }
  assert (Ta : forall t, tid (g t) = tid t /\ tuser (g t) = tuser t).
  { intros t. unfold g. destruct (memb (tid t) ids); cbn; auto. }
  constructor; cbn [mts mcfg].
  - unfold ids_ok, mark in *. rewrite map_tid, map_length; [exact I1|]. intros t. apply Ta.
  - intros t1 t2 H1 H2 B1 B2 E. unfold mark in H1, H2. apply in_map_iff in H1, H2.
    destruct H1 as (a & E1 & Ha), H2 as (b & E2 & Hb).
    change (g a = t1) in E1. change (g b = t2) in E2. subst t1 t2.
    destruct (Ta a) as (Ta1 & Ua), (Ta b) as (Tb1 & Ub). rewrite Ta1, Tb1. rewrite Ua, Ub in E.
    destruct (G a Ha B1) as [Sa|Pa], (G b Hb B2) as [Sb|Pb].
    + f_equal. apply (NoDup_map_inj _ _ tuser (select c ts)); [apply select_nodup_users|exact Sa|exact Sb|exact E].
    + exfalso. destruct (select_bound c ts) as (_ & _ & S). destruct (S a Sa) as (_ & _ & _ & _ & _ & Nb).
      apply Nb. rewrite E. unfold busy_users. apply in_map. apply filter_In. auto.
    + exfalso. destruct (select_bound c ts) as (_ & _ & S). destruct (S b Sb) as (_ & _ & _ & _ & _ & Nb).
      apply Nb. rewrite <- E. unfold busy_users. apply in_map. apply filter_In. auto.
    + apply I2; auto using processing_busy.
  - unfold n_busy in *. cbn [mts mcfg] in *. fold ids. destruct (free c ts) eqn:F.
    + assert (E : ids = []).
      { unfold ids, started. rewrite select_firstn, F. cbn. destruct CYCLE_GUARD_TR; reflexivity. }
      rewrite E, mark_nil. exact I3.
    + left. unfold mark. fold g. rewrite filter_map_len.
      pose proof (filter_le_sum _ (fun t => busy (g t)) processing
                    (fun t => memb (tid t) (map tid (select c ts))) ts) as L1.
      assert (L1' := L1 (fun t Ht B => match G t Ht B with
                                       | or_introl Hs => or_intror (proj2 (memb_In _ _) (in_map tid _ _ Hs))
                                       | or_intror Hp => or_introl Hp end)).
      pose proof (marked_count (map tid (select c ts)) ts (ids_nodup ts I1)) as L2.
      assert (L3 : length (map tid (select c ts)) <= S n) by (rewrite map_length, <- F; apply select_bound).
      rewrite free_eq in F. lia.
Qed.

Lemma step_inv_guarded : forall s e, CYCLE_GUARD_TR = true -> Inv s ->
  (e = Cycle -> starting_selected (mcfg s) (mts s) = true) -> Inv (fst (step s e)).
Proof.
  intros [c ts] e GT I A. destruct e; try (apply step_inv; [exact I|discriminate]).
  cbn [step fst mcfg mts] in *. apply cycle_inv_guarded; auto.
Qed.

Lemma slots_inv_guarded : forall evs s, CYCLE_GUARD_TR = true -> Inv s -> a1g s evs = true ->
  let s' := run s evs in
  (n_processing s' <= slots (mcfg s') \/
   forall t, In t (mts s') -> processing t = true -> told t = true) /\
  NoDup (map tuser (filter processing (mts s'))).
Proof.
  intros evs s GT I A s'.
  assert (R : Inv s').
  { unfold s'. clear s'. revert s I A. induction evs as [|e r IH]; intros s I A; [exact I|].
    cbn [a1g] in A. apply andb_true_iff in A. destruct A as (A1 & A2). cbn [run].
    apply IH; [|exact A2]. apply step_inv_guarded; auto. intros ->. exact A1. }
  destruct R as [I1 I2 I3]. split.
  - destruct I3 as [L|Rr].
    + left. unfold n_processing, n_busy in *. etransitivity; [|exact L].
      apply filter_le. intros x _. apply processing_busy.
    + right. intros t Ht P. apply Rr; auto. apply processing_busy. exact P.
  - apply nodup_users; [apply ids_nodup; exact I1|].
    intros t1 t2 H1 H2 P1 P2 E. apply I2; auto using processing_busy.
Qed.

(* ---- the event-loop half of A1 ------------------------------------------------------------------- *)
(* no first segment is queued behind a step of the job; a job step is queued iff the flag says so *)
Fixpoint firsts_before_job (q : list handle) : bool :=
  match q with
  | [] => true
  | HJob :: r => negb (existsb is_first r) && firsts_before_job r
  | _ :: r => firsts_before_job r
  end.

Definition njobs (q : list handle) : nat := length (filter is_job q).

Record LI (s : loopst) : Prop := mkLI {
  li_order : firsts_before_job (lq s) = true;
  li_flag : njobs (lq s) = if ljob_queued s then 1 else 0;
  li_good : lbad s = false }.

Lemma njobs0 : forall q, njobs q = 0 -> existsb is_job q = false.
Proof. intros q. induction q as [|h r IH]; cbn; auto. destruct h; cbn; auto. discriminate. Qed.

Lemma njobs_app : forall a b, njobs (a ++ b) = njobs a + njobs b.
Proof. intros. unfold njobs. rewrite filter_app, app_length. reflexivity. Qed.

Lemma njobs_firsts : forall l, njobs (map HFirst l) = 0.
Proof. induction l; cbn; auto. Qed.

Lemma fbj_app_first : forall q l, existsb is_job q = false -> firsts_before_job (q ++ map HFirst l) = true.
Proof.
  intros q l. induction q as [|h r IH]; intros H; cbn.
  - induction l; cbn; auto.
  - destruct h; cbn in *; try discriminate; auto.
Qed.

Lemma fbj_app_other : forall q h, is_first h = false -> firsts_before_job q = true -> firsts_before_job (q ++ [h]) = true.
Proof.
  intros q h Hh. induction q as [|x r IH]; intros H; cbn.
  - destruct h; cbn in *; auto.
  - destruct x; cbn in *; auto. apply andb_true_iff in H. destruct H as (A & B).
    rewrite existsb_app. cbn. rewrite Hh. apply negb_true_iff in A. rewrite A. cbn. auto.
Qed.

Lemma LI_step : forall s e, LI s -> LI (lstep s e).
Proof.
  intros [q jq bad] e [O F G]. cbn [lq ljob_queued lbad] in *. subst bad. destruct e; cbn [lstep lq ljob_queued lbad].
  - destruct q as [|h r]; [constructor; auto|]. destruct h.
    + constructor; cbn [lq ljob_queued lbad]; auto.
    + cbn in O. apply andb_true_iff in O. destruct O as (NF & O'). apply negb_true_iff in NF.
      assert (N0 : njobs r = 0) by (unfold njobs in *; cbn in F; destruct jq; lia).
      constructor; cbn [lq ljob_queued lbad].
      * apply fbj_app_first. apply njobs0. exact N0.
      * rewrite njobs_app, njobs_firsts. lia.
      * rewrite NF. reflexivity.
    + constructor; cbn [lq ljob_queued lbad]; auto.
  - destruct jq; [constructor; auto|]. constructor; cbn [lq ljob_queued lbad]; auto.
    + apply fbj_app_other; auto.
    + rewrite njobs_app. cbn. lia.
  - constructor; cbn [lq ljob_queued lbad]; auto.
    + apply fbj_app_other; auto.
    + rewrite njobs_app. cbn. destruct jq; lia.
Qed.

Lemma LI_init : LI linit.
Proof. constructor; reflexivity. Qed.

Lemma loop_a1 : forall evs, lbad (lrun linit evs) = false.
Proof.
  intros evs. assert (H : forall s, LI s -> LI (lrun s evs)).
  { induction evs as [|e r IH]; intros s L; [exact L|]. cbn. apply IH. apply LI_step. exact L. }
  apply (li_good _ (H linit LI_init)).
Qed.
