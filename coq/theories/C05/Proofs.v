(* C05 lemmas. *)
From Slsk Require Import Base.Tac.
From Coq Require Import Permutation Sorting.Sorted.
From SlskGen Require Import PrioGen.
From Slsk Require Import C05.Model.
Arguments rank : simpl never.
Arguments rank_of : simpl never.

(* ---- membership ------------------------------------------------------------------------- *)
Lemma memb_In : forall x l, memb x l = true <-> In x l.
Proof.
  intros x l. unfold memb. rewrite existsb_exists. split.
  - intros (y & Hy & E). apply Nat.eqb_eq in E. subst. exact Hy.
  - intros H. exists x. split; [exact H | apply Nat.eqb_refl].
Qed.

Lemma memb_false : forall x l, memb x l = false <-> ~ In x l.
Proof.
  intros x l. rewrite <- memb_In. destruct (memb x l); split; intros; try congruence; try tauto.
Qed.

Lemma NoDup_map_inj : forall (A B : Type) (f : A -> B) l a b,
  NoDup (map f l) -> In a l -> In b l -> f a = f b -> a = b.
Proof.
  intros A B f l. induction l as [|x l IH]; intros a b N Ha Hb E; [destruct Ha|].
  cbn in N. inv N. destruct Ha as [->|Ha], Hb as [->|Hb]; auto.
  - exfalso. apply H1. rewrite E. apply in_map. exact Hb.
  - exfalso. apply H1. rewrite <- E. apply in_map. exact Ha.
Qed.

Lemma NoDup_map_filter : forall (A B : Type) (f : A -> B) p l, NoDup (map f l) -> NoDup (map f (filter p l)).
Proof.
  intros A B f p l. induction l as [|x l IH]; intros N; cbn; [constructor|].
  cbn in N. inv N. destruct (p x); cbn; auto. constructor; auto.
  intros H. apply H1. apply in_map_iff in H. destruct H as (y & E & Hy). apply filter_In in Hy.
  rewrite <- E. apply in_map. tauto.
Qed.

(* ---- the scan ---------------------------------------------------------------------------- *)
Lemma scan_spec : forall c bu ts seen t, In t (scan c bu seen ts) ->
  In t ts /\ is_queued t = true /\ offline c (tuser t) = false /\
  memb (tuser t) bu = false /\ memb (tuser t) seen = false.
Proof.
  intros c bu ts. induction ts as [|a r IH]; intros seen t H; [destruct H|].
  cbn [scan] in H. unfold SCAN_SKIPS_OFFLINE, SCAN_SKIPS_BUSY_USERS, SCAN_ONE_PER_USER in H. cbn [andb] in H.
  destruct (offline c (tuser a)) eqn:Eo; [apply IH in H; cbn; tauto|].
  destruct (memb (tuser a) bu) eqn:Eb; [apply IH in H; cbn; tauto|].
  destruct (memb (tuser a) seen) eqn:Es; [apply IH in H; cbn; tauto|].
  destruct (is_queued a) eqn:Eq; [|apply IH in H; cbn; tauto].
  destruct H as [<-|H]; [cbn; tauto|].
  apply IH in H. destruct H as (H1 & H2 & H3 & H4 & H5). cbn. repeat split; auto.
  cbn in H5. apply orb_false_iff in H5. tauto.
Qed.

Lemma scan_nodup : forall c bu ts seen, NoDup (map tuser (scan c bu seen ts)).
Proof.
  intros c bu ts. induction ts as [|a r IH]; intros seen; [constructor|].
  cbn [scan]. destruct (_ && offline c (tuser a)); auto.
  destruct (_ && memb (tuser a) bu); auto. destruct (_ && memb (tuser a) seen); auto.
  destruct (is_queued a); auto. cbn. constructor; auto.
  intros H. apply in_map_iff in H. destruct H as (t & E & Ht). apply scan_spec in Ht.
  destruct Ht as (_ & _ & _ & _ & H5). cbn in H5. rewrite E, Nat.eqb_refl in H5. discriminate.
Qed.

Lemma scan_complete : forall c bu ts seen u,
  offline c u = false -> memb u bu = false -> memb u seen = false ->
  (exists t, In t ts /\ tuser t = u /\ is_queued t = true) -> In u (map tuser (scan c bu seen ts)).
Proof.
  intros c bu ts. induction ts as [|a r IH]; intros seen u Ho Hb Hs (t & Ht & Eu & Hq); [destruct Ht|].
  cbn [scan]. unfold SCAN_SKIPS_OFFLINE, SCAN_SKIPS_BUSY_USERS, SCAN_ONE_PER_USER. cbn [andb].
  assert (R : a <> t -> exists t0, In t0 r /\ tuser t0 = u /\ is_queued t0 = true).
  { intros N. exists t. destruct Ht as [E|Ht]; [congruence|auto]. }
  destruct (Nat.eq_dec (tuser a) u) as [Ea|Na].
  - rewrite Ea, Ho, Hb, Hs. destruct (is_queued a) eqn:Eq; [left; exact Ea|].
    apply IH; auto. apply R. intros ->. congruence.
  - assert (Nt : a <> t) by (intros ->; congruence).
    destruct (offline c (tuser a)); [apply IH; auto|].
    destruct (memb (tuser a) bu); [apply IH; auto|].
    destruct (memb (tuser a) seen); [apply IH; auto|].
    destruct (is_queued a); [|apply IH; auto].
    cbn. right. apply IH; auto. cbn. apply orb_false_iff. split; [apply Nat.eqb_neq; auto|exact Hs].
Qed.

Lemma eligible_spec : forall c ts t, In t (eligible c ts) ->
  In t ts /\ is_queued t = true /\ offline c (tuser t) = false /\ ~ In (tuser t) (busy_users ts).
Proof.
  intros c ts t H. apply scan_spec in H. destruct H as (A & B & C & D & _).
  repeat split; auto. apply memb_false. exact D.
Qed.

Lemma eligible_users : forall c ts u, In u (map tuser (eligible c ts)) <-> eligible_user c ts u.
Proof.
  intros c ts u. split.
  - intros H. apply in_map_iff in H. destruct H as (t & E & Ht). apply eligible_spec in Ht.
    destruct Ht as (A & B & C & D). subst u. repeat split; auto. exists t. auto.
  - intros (A & B & C). apply scan_complete; auto. apply memb_false. exact B.
Qed.

(* ---- the sort ----------------------------------------------------------------------------- *)
Definition asc (c : cfg) := StronglySorted (fun a b => rank c a <= rank c b).
Definition desc (c : cfg) := StronglySorted (fun a b => rank c b <= rank c a).

Lemma insert_perm : forall c x l, Permutation (insert c x l) (x :: l).
Proof.
  intros c x l. induction l as [|y r IH]; cbn; [reflexivity|].
  destruct (rank c x <=? rank c y); [reflexivity|].
  rewrite IH. apply perm_swap.
Qed.

Lemma isort_perm : forall c l, Permutation (isort c l) l.
Proof.
  intros c l. induction l as [|x r IH]; cbn; [reflexivity|].
  rewrite insert_perm. constructor. exact IH.
Qed.

Lemma insert_sorted : forall c x l, asc c l -> asc c (insert c x l).
Proof.
  intros c x l H. induction H as [|y r Hs IH Hf]; cbn; [repeat constructor|].
  destruct (rank c x <=? rank c y) eqn:E.
  - apply Nat.leb_le in E. constructor; [constructor; auto|].
    constructor; [exact E|]. eapply Forall_impl; [|exact Hf]. cbn. intros; lia.
  - apply Nat.leb_gt in E. constructor; [exact IH|].
    eapply Permutation_Forall; [symmetry; apply insert_perm|]. constructor; [lia|exact Hf].
Qed.

Lemma isort_sorted : forall c l, asc c (isort c l).
Proof. intros c l. induction l; cbn; [constructor|apply insert_sorted; assumption]. Qed.

Lemma ssorted_app : forall (A : Type) (R : A -> A -> Prop) l1 l2,
  StronglySorted R l1 -> StronglySorted R l2 -> (forall a b, In a l1 -> In b l2 -> R a b) ->
  StronglySorted R (l1 ++ l2).
Proof.
  intros A R l1 l2 H1 H2 H. induction H1 as [|x l Hs IH Hf]; cbn; [exact H2|].
  constructor; [apply IH; intros; apply H; cbn; auto|].
  apply Forall_app. split; [exact Hf|]. apply Forall_forall. intros b Hb. apply H; cbn; auto.
Qed.

Lemma ssorted_app_inv : forall (A : Type) (R : A -> A -> Prop) l1 l2,
  StronglySorted R (l1 ++ l2) -> forall a b, In a l1 -> In b l2 -> R a b.
Proof.
  intros A R l1. induction l1 as [|x l IH]; intros l2 H a b Ha Hb; [destruct Ha|].
  cbn in H. inv H. destruct Ha as [<-|Ha].
  - rewrite Forall_forall in H3. apply H3. apply in_or_app. auto.
  - eapply IH; eauto.
Qed.

Lemma rev_desc : forall c l, asc c l -> desc c (rev l).
Proof.
  intros c l H. induction H as [|x r Hs IH Hf]; cbn; [constructor|].
  apply ssorted_app; [exact IH|repeat constructor|].
  intros a b Ha [<-|[]]. apply in_rev in Ha. rewrite Forall_forall in Hf. apply Hf. exact Ha.
Qed.

Lemma prioritize_perm : forall c l, Permutation (prioritize c l) l.
Proof.
  intros c l. unfold prioritize. destruct SORT_REVERSED.
  - rewrite <- Permutation_rev. apply isort_perm.
  - apply isort_perm.
Qed.

Lemma prioritize_desc : forall c l, desc c (prioritize c l).
Proof. intros c l. unfold prioritize, SORT_REVERSED. apply rev_desc. apply isort_sorted. Qed.

(* ---- selection theorems ------------------------------------------------------------------ *)
Lemma select_firstn : forall c ts, select c ts = firstn (free c ts) (prioritize c (eligible c ts)).
Proof. intros. unfold select, SLICE_EXTRA. rewrite Nat.add_0_r. reflexivity. Qed.

Lemma In_firstn : forall (A : Type) n (l : list A) x, In x (firstn n l) -> In x l.
Proof. intros A n l x H. rewrite <- (firstn_skipn n l). apply in_or_app. auto. Qed.

Lemma select_incl : forall c ts t, In t (select c ts) -> In t (eligible c ts).
Proof.
  intros c ts t H. rewrite select_firstn in H. apply In_firstn in H.
  eapply Permutation_in; [apply prioritize_perm|exact H].
Qed.

Lemma select_nodup_users : forall c ts, NoDup (map tuser (select c ts)).
Proof.
  intros c ts. rewrite select_firstn.
  assert (N : NoDup (map tuser (prioritize c (eligible c ts)))).
  { eapply Permutation_NoDup; [apply Permutation_map; symmetry; apply prioritize_perm|apply scan_nodup]. }
  rewrite <- (firstn_skipn (free c ts) (prioritize c (eligible c ts))), map_app in N.
  apply NoDup_app_remove_r in N. exact N.
Qed.

Lemma select_bound : forall c ts,
  length (select c ts) <= free c ts /\
  NoDup (map tuser (select c ts)) /\
  forall t, In t (select c ts) ->
    In t ts /\ tst t <> Init /\ tst t <> Uploading /\ is_queued t = true /\
    offline c (tuser t) = false /\ ~ In (tuser t) (busy_users ts).
Proof.
  intros c ts. split; [rewrite select_firstn; apply firstn_le_length|].
  split; [apply select_nodup_users|].
  intros t H. apply select_incl in H. apply eligible_spec in H. destruct H as (A & B & C & D).
  repeat split; auto; intros E; unfold is_queued in B; rewrite E in B; discriminate.
Qed.

Lemma select_priority : forall c ts t u,
  In t (select c ts) -> In u (eligible c ts) -> ~ In u (select c ts) -> rank c u <= rank c t.
Proof.
  intros c ts t u Ht Hu Hn. rewrite select_firstn in *.
  pose proof (prioritize_desc c (eligible c ts)) as D.
  set (l := prioritize c (eligible c ts)) in *.
  rewrite <- (firstn_skipn (free c ts) l) in D.
  eapply (ssorted_app_inv _ _ _ _ D t u); [exact Ht|].
  assert (In u l) by (eapply Permutation_in; [symmetry; apply prioritize_perm|exact Hu]).
  rewrite <- (firstn_skipn (free c ts) l) in H. apply in_app_or in H. tauto.
Qed.

(* the selection itself is ordered by decreasing rank: the order of the PeerTransferRequests *)
Lemma select_sorted : forall c ts, desc c (select c ts).
Proof.
  intros c ts. rewrite select_firstn.
  pose proof (prioritize_desc c (eligible c ts)) as D.
  set (l := prioritize c (eligible c ts)) in *. clearbody l.
  revert D. generalize (free c ts). intros n. revert l. induction n; intros l D; cbn; [constructor|].
  destruct l; [constructor|]. inv D. constructor; [apply IHn; exact H1|].
  apply Forall_forall. intros x Hx. apply In_firstn in Hx. rewrite Forall_forall in H2. auto.
Qed.

Lemma work_conserving : forall c ts,
  length (select c ts) = Nat.min (free c ts) (length (eligible c ts)) /\
  NoDup (map tuser (eligible c ts)) /\
  (forall u, In u (map tuser (eligible c ts)) <-> eligible_user c ts u) /\
  (forall u, 0 < free c ts -> eligible_user c ts u -> select c ts <> []).
Proof.
  intros c ts.
  assert (L : length (select c ts) = Nat.min (free c ts) (length (eligible c ts))).
  { rewrite select_firstn, firstn_length. f_equal. apply Permutation_length. apply prioritize_perm. }
  split; [exact L|]. split; [apply scan_nodup|]. split; [apply eligible_users|].
  intros u Hf Hu E. rewrite E in L. cbn in L.
  apply eligible_users in Hu. destruct (eligible c ts); [destruct Hu|cbn in L; lia].
Qed.

(* the weights put the classes in lexicographic order: privileged > friend > online/away > rest *)
Lemma rank_lexicographic : forall s1 s2 f1 f2 p1 p2,
  let on s := existsb (Z.eqb (status_code s)) [ST_ONLINE; ST_AWAY] in
  (p1 = true -> p2 = false -> rank_of (status_code s2) f2 p2 < rank_of (status_code s1) f1 p1) /\
  (p1 = p2 -> f1 = true -> f2 = false -> rank_of (status_code s2) f2 p2 < rank_of (status_code s1) f1 p1) /\
  (p1 = p2 -> f1 = f2 -> on s1 = true -> on s2 = false ->
     rank_of (status_code s2) f2 p2 < rank_of (status_code s1) f1 p1) /\
  (on Online = true /\ on Away = true /\ on Unknown = false).
Proof.
  intros s1 s2 f1 f2 p1 p2. cbn zeta.
  destruct s1, s2, f1, f2, p1, p2; vm_compute; repeat split; intros; try discriminate; lia.
Qed.
