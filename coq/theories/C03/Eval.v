(* Executable encodings used by checks/c03.py to compare the model with observations of the real code
   (compiled once; the generated case files only import it). *)
From Coq Require Import ZArith NArith List Bool.
From SlskGen Require Import TransGen.
From Slsk Require Import C03.Spec C03.Model C03.Listen.
Import ListNotations.
Open Scope Z_scope.
Definition zo (o : option N) : Z := match o with None => -1 | Some n => Z.of_N n end.
Definition zb (b : bool) : Z := if b then 1 else 0.
Definition zt (x : tstat) : Z := match x with TNone => 0 | TLive => 1 | TCancelling => 2 end.
Definition enc_t (t : transfer) : list Z :=
  [st_value (t_state t); zo (t_fail t); zo (t_abort t); zb (t_rq t); zo (t_place t); zo (t_filesize t); Z.of_N (t_bytes t);
   Z.of_N (t_qatt t); Z.of_N (t_uatt t); zb (t_start t); zb (t_complete t); zb (t_local t); zb (t_file t);
   zt (t_rqtask t); zt (t_trtask t)].
Definition enc_edges (l : list edge) : list Z := flat_map (fun e => [st_value (fst e); st_value (snd e)]) l.
Definition enc_obs (o : obs) : list Z :=
  match o with OEdge a b => [0; st_value a; st_value b] | ORet i r => [1; Z.of_nat i; zb r] | OCancelled i => [3; Z.of_nat i] end.
Fixpoint zeq (a b : list Z) : bool :=
  match a, b with [], [] => true | x :: a', y :: b' => Z.eqb x y && zeq a' b' | _, _ => false end.
Fixpoint zzeq (a b : list (list Z)) : bool :=
  match a, b with [], [] => true | x :: a', y :: b' => zeq x y && zzeq a' b' | _, _ => false end.
Fixpoint run_tr (b : bool) (m : mach) (es : list ev) : list (list Z) * mach :=
  match es with
  | [] => ([], m)
  | e :: r => let '(m1, o) := step b m e in let '(l, m2) := run_tr b m1 r in (flat_map enc_obs o :: l, m2)
  end.
Definition mdone (m : mach) : bool :=
  match m_holder m, m_waiters m, m_created m with None, [], [] => true | _, _, _ => false end.
(* sequential case: every call's (ret :: edges), then the final record *)
Definition seq_out (t : transfer) (cs : list call) : list (list Z) :=
  let '(t', l) := run_seq t cs in map (fun x => zb (fst x) :: enc_edges (snd x)) l ++ [enc_t t'].
(* concurrent case: per-event observations, then the final record (machine must be quiescent) *)
Definition conc_out (t : transfer) (es : list ev) : list (list Z) :=
  let '(l, m) := run_tr redispatch_after_lock (idle t) es in l ++ [enc_t (m_t m); [zb (mdone m)]].
(* flattened variant for runs in which the hand-over of the lock is not controlled *)
Definition conc_flat (t : transfer) (es : list ev) : list (list Z) :=
  let '(l, m) := run_tr redispatch_after_lock (idle t) es in [concat l; enc_t (m_t m); [zb (mdone m)]].

(* fingerprint of an observation (list of lists of integers); checks/c03_lib.py computes the same number
   from the observations of the real code, so that a generated case is `model expression, one integer` *)
(* arithmetic modulo 2^62 by masking: Z.modulo is a bit-by-bit long division and dominated the evaluation *)
Definition HP : Z := 4611686018427387903.
Definition hstep (h x : Z) : Z := Z.land (h * 1000003 + x + 7) HP.
Definition hlist (h : Z) (l : list Z) : Z := hstep (fold_left hstep l h) 977.
Definition hh (ll : list (list Z)) : Z := fold_left hlist ll 1.

(* data-only case files: a case is five integers (kind, index of the transfer, index of the call list,
   schedule as base-8 digits read from the least significant one, fingerprint of the observation).
   digits: 1 = Capture (next call of the list), 2/3/4 = Start 0/1/2, 5 = Step, 6 = Wake, 7 d = Cancel (d - 1). *)
Fixpoint dec_sched (fuel : nat) (n : Z) (cs : list call) : list ev :=
  match fuel with
  | O => []
  | S f =>
      if Z.eqb n 0 then [] else
      let d := Z.land n 7 in
      let r := Z.shiftr n 3 in
      if Z.eqb d 1 then match cs with c :: cs' => Capture c :: dec_sched f r cs' | [] => dec_sched f r cs end
      else if Z.eqb d 5 then Step :: dec_sched f r cs
      else if Z.eqb d 6 then Wake :: dec_sched f r cs
      else if Z.eqb d 7 then Cancel (Z.to_nat (Z.land r 7 - 1)) :: dec_sched f (Z.shiftr r 3) cs
      else Start (Z.to_nat (d - 2)) :: dec_sched f r cs
  end.
Definition dummy_t : transfer := mkT UNSET Upload None None false None None 0%N 0%N 0%N false false false false TNone TNone.
(* runs with three listeners of which the first suspends (kind 3) *)
Definition enc_lobs (o : lobs) : list Z :=
  match o with LSeen li a b => [2; Z.of_nat li; st_value a; st_value b] | LRet i r => [1; Z.of_nat i; zb r] end.
Fixpoint lrun_tr (ls : list bool) (m : lmach) (es : list ev) : list (list Z) * lmach :=
  match es with
  | [] => ([], m)
  | e :: r => let '(m1, o) := lstep ls m e in let '(l, m2) := lrun_tr ls m1 r in (flat_map enc_lobs o :: l, m2)
  end.
Definition ldone (m : lmach) : bool :=
  match l_holder m, l_waiters m, l_created m with None, [], [] => true | _, _, _ => false end.
Definition lconc_out (t : transfer) (es : list ev) : list (list Z) :=
  let '(l, m) := lrun_tr [true; false; false] (lidle t) es in l ++ [enc_t (l_t m); [zb (ldone m)]].

Definition run_case (ts : list transfer) (css : list (list call)) (c : Z * Z * Z * Z * Z) : bool :=
  match c with (kind, ti, ci, sched, fp) =>
    let t := nth (Z.to_nat ti) ts dummy_t in
    let cs := nth (Z.to_nat ci) css [] in
    let out := if Z.eqb kind 0 then seq_out t cs
               else if Z.eqb kind 1 then conc_out t (dec_sched 120 sched cs)
               else if Z.eqb kind 3 then lconc_out t (dec_sched 120 sched cs)
               else conc_flat t (dec_sched 120 sched cs) in
    Z.eqb (hh out) fp
  end.
Fixpoint bad_from (ts : list transfer) (css : list (list call)) (i : nat) (l : list (Z * Z * Z * Z * Z)) : list nat :=
  match l with
  | [] => []
  | c :: r => if run_case ts css c then bad_from ts css (S i) r else i :: bad_from ts css (S i) r
  end.
