From Slsk Require Import Base.Tac.
From SlskGen Require Import TransGen TransferGen.
From Slsk Require Import C03.Spec C03.Model.

(* ---------- finite enumerations ---------- *)
Lemma all_st_complete : forall s, In s all_st.
Proof. destruct s; cbv; tauto. Qed.
Lemma all_op_complete : forall o, In o all_op.
Proof. destruct o; cbv; tauto. Qed.
Lemma all_dir_complete : forall d, In d all_dir.
Proof. destruct d; cbv; tauto. Qed.

Lemma forall_sdo_spec : forall f, forall_sdo f = true -> forall s d o, f s d o = true.
Proof.
  unfold forall_sdo. intros f H s d o.
  rewrite forallb_forall in H. specialize (H s (all_st_complete s)).
  rewrite forallb_forall in H. specialize (H d (all_dir_complete d)).
  rewrite forallb_forall in H. exact (H o (all_op_complete o)).
Qed.

Lemma st_beq_eq : forall a b, st_beq a b = true <-> a = b.
Proof. split; [apply internal_st_dec_bl | apply internal_st_dec_lb]. Qed.

Lemma documented_in : forall a b, documented a b = true <-> In (a, b) documented_edges.
Proof.
  unfold documented. intros a b. rewrite existsb_exists. split.
  - intros [[x y] [Hin H]]. cbn in H. apply andb_true_iff in H. destruct H as [H1 H2].
    apply st_beq_eq in H1. apply st_beq_eq in H2. subst. exact Hin.
  - intros H. exists (a, b). split; [exact H|]. cbn. apply andb_true_iff. split; apply st_beq_eq; reflexivity.
Qed.

(* ---------- the regenerated table against the documented graph (closed by computation) ---------- *)
Lemma trans_ok_b_true : trans_ok_b = true.
Proof. vm_compute. reflexivity. Qed.
Lemma trans_dir_ok_b_true : trans_dir_ok_b = true.
Proof. vm_compute. reflexivity. Qed.
Lemma graph_complete_b_true : graph_complete_b = true.
Proof. vm_compute. reflexivity. Qed.

Lemma trans_ok : forall s d o effs, trans s d o = Some effs ->
  cont_ok s (map MEff effs) = true /\ exists s', target effs = Some s'.
Proof.
  intros s d o effs H. pose proof (forall_sdo_spec _ trans_ok_b_true s d o) as K. cbv beta in K.
  rewrite H in K. apply andb_true_iff in K. destruct K as [K1 K2]. split; [exact K1|].
  destruct (target effs); [eauto|discriminate].
Qed.

Lemma cont_ok_in : forall effs cur s', cont_ok cur (map MEff effs) = true -> In (Transition s') effs ->
  documented cur s' = true.
Proof.
  induction effs as [|e r IH]; intros cur s' H Hin; [destruct Hin|].
  destruct Hin as [->|Hin].
  - cbn in H. apply andb_true_iff in H. tauto.
  - destruct e; cbn in H; try (eapply IH; eassumption).
    apply andb_true_iff in H. destruct H as [_ H]. destruct r; [destruct Hin|discriminate].
Qed.

Lemma target_in : forall effs s', target effs = Some s' -> In (Transition s') effs.
Proof.
  induction effs as [|e r IH]; intros s' H; [discriminate|].
  destruct e; cbn in H; try (right; apply IH; exact H).
  destruct (target r) eqn:E.
  - inv H. right. apply IH. reflexivity.
  - inv H. left. reflexivity.
Qed.

Lemma edges_documented_thm : forall s d o effs s',
  trans s d o = Some effs -> In (Transition s') effs -> documented s s' = true.
Proof. intros s d o effs s' H Hin. destruct (trans_ok _ _ _ _ H) as [K _]. eapply cont_ok_in; eassumption. Qed.

Lemma body_shape : forall s d o effs, trans s d o = Some effs ->
  exists s', target effs = Some s' /\ documented s s' = true.
Proof.
  intros s d o effs H. destruct (trans_ok _ _ _ _ H) as [K [s' T]]. exists s'. split; [exact T|].
  eapply cont_ok_in; [exact K|]. apply target_in. exact T.
Qed.

Lemma graph_complete_thm : forall a b, documented a b = true ->
  exists d o effs, trans a d o = Some effs /\ target effs = Some b.
Proof.
  intros a b H. apply documented_in in H.
  pose proof graph_complete_b_true as G. unfold graph_complete_b in G. rewrite forallb_forall in G.
  specialize (G _ H). unfold edge_implemented in G. apply existsb_exists in G. destruct G as [d [_ G]].
  apply existsb_exists in G. destruct G as [o [_ G]]. cbn [fst snd] in G.
  destruct (trans a d o) as [effs|] eqn:E; [|discriminate].
  destruct (target effs) as [s'|] eqn:T; [|discriminate]. apply st_beq_eq in G. subst.
  exists d, o, effs. split; assumption.
Qed.

Lemma dir_respected_thm : forall s d o effs s', trans s d o = Some effs -> target effs = Some s' ->
  dir_ok d s = true -> dir_ok d s' = true.
Proof.
  intros s d o effs s' H T D. pose proof (forall_sdo_spec _ trans_dir_ok_b_true s d o) as K. cbv beta in K.
  rewrite H, T, D in K. exact K.
Qed.

Lemma effects_ok_b_true : effects_ok_b = true.
Proof. vm_compute. reflexivity. Qed.

Lemma effect_beq_eq : forall a b, effect_beq a b = true -> a = b.
Proof. destruct a, b; cbn; intros H; try discriminate; try reflexivity. apply st_beq_eq in H. subst. reflexivity. Qed.

Lemma documented_effects_thm : forall s d o effs s', trans s d o = Some effs -> target effs = Some s' ->
  dir_ok d s = true -> incl (required s d o s') effs.
Proof.
  intros s d o effs s' H T D r Hin. pose proof (forall_sdo_spec _ effects_ok_b_true s d o) as K. cbv beta in K.
  rewrite H, T, D in K. cbn [implb] in K. rewrite forallb_forall in K. specialize (K r Hin). apply existsb_exists in K.
  destruct K as [x [Hx E]]. apply effect_beq_eq in E. subst. exact Hx.
Qed.

(* ---------- effect atoms ---------- *)
Lemma apply_eff_state : forall c t e, (forall s, e <> Transition s) ->
  t_state (fst (apply_eff c t e)) = t_state t /\ snd (apply_eff c t e) = [].
Proof.
  intros c t e H. destruct e; cbn; try (split; reflexivity);
    try (match goal with |- context [if ?c then _ else _] => destruct c end; split; reflexivity).
  exfalso. eapply H. reflexivity.
Qed.

Lemma edges_documented_app : forall a b, edges_documented a -> edges_documented b -> edges_documented (a ++ b).
Proof. intros a b Ha Hb x y Hin. apply in_app_or in Hin. destruct Hin; auto. Qed.
Lemma edges_documented_nil : edges_documented [].
Proof. intros a b []. Qed.

Ltac not_trans := let s := fresh in let E := fresh in intros s E; discriminate E.

(* ---------- sequential ---------- *)
Lemma full_ok : forall effs c t, cont_ok (t_state t) (map MEff effs) = true ->
  edges_documented (snd (full c t effs)).
Proof.
  induction effs as [|e r IH]; intros c t H; [apply edges_documented_nil|].
  cbn [full]. destruct (apply_eff c t e) as [t1 ed1] eqn:A. destruct (full c t1 r) as [t2 ed2] eqn:F. cbn [snd].
  assert (Hcase : (exists s', e = Transition s') \/ (forall s, e <> Transition s)).
  { destruct e; try (right; not_trans). left. eauto. }
  destruct Hcase as [[s' ->]|Hn].
  - cbn in H. apply andb_true_iff in H. destruct H as [Hd Hr]. destruct r; [|discriminate].
    cbn in A. inv A. cbn in F. inv F. intros a b [E|[]]. inv E. exact Hd.
  - destruct (apply_eff_state c t e Hn) as [S1 S2]. rewrite A in S1, S2. cbn in S1, S2. subst ed1.
    cbn [app]. specialize (IH c t1). rewrite F in IH. cbn in IH. apply IH. rewrite S1.
    destruct e; cbn in H; try exact H. exfalso. eapply Hn. reflexivity.
Qed.

Lemma refusal_no_effect_thm : forall t c, trans (t_state t) (t_dir t) (c_op c) = None -> step_seq t c = (t, false, []).
Proof. intros t c H. unfold step_seq. rewrite H. reflexivity. Qed.

Lemma step_seq_ok : forall t c t' b ed, step_seq t c = (t', b, ed) ->
  edges_documented ed /\ (b = false -> t' = t /\ ed = []) /\
  (b = true <-> trans (t_state t) (t_dir t) (c_op c) <> None).
Proof.
  intros t c t' b ed H. unfold step_seq in H. destruct (trans (t_state t) (t_dir t) (c_op c)) as [effs|] eqn:E.
  - destruct (full c t effs) as [t1 ed1] eqn:F. inv H. split; [|split].
    + pose proof (full_ok effs c t (proj1 (trans_ok _ _ _ _ E))) as K. rewrite F in K. exact K.
    + discriminate.
    + split; [discriminate|reflexivity].
  - inv H. split; [apply edges_documented_nil|]. split; [tauto|]. split; [discriminate|]. intros K. exfalso. apply K. reflexivity.
Qed.

Definition seq_good (t : transfer) (l : list (bool * list edge)) : Prop :=
  Forall (fun x => edges_documented (snd x)) l.

Lemma sequential_thm : forall cs t, Forall (fun x => edges_documented (snd x)) (snd (run_seq t cs)).
Proof.
  induction cs as [|c r IH]; intros t; [constructor|].
  cbn [run_seq]. destruct (step_seq t c) as [[t1 b] ed] eqn:S. destruct (run_seq t1 r) as [t2 l] eqn:R. cbn [snd].
  constructor.
  - cbn. exact (proj1 (step_seq_ok _ _ _ _ _ S)).
  - specialize (IH t1). rewrite R in IH. exact IH.
Qed.

(* a refused call inside any sequence changes nothing: the transfer after it is the transfer before it *)
Fixpoint states_seq (t : transfer) (cs : list call) : list (transfer * bool * transfer) :=
  match cs with
  | [] => []
  | c :: r => let '(t1, b, _) := step_seq t c in (t, b, t1) :: states_seq t1 r
  end.

Lemma sequential_refusals_thm : forall cs t x, In x (states_seq t cs) ->
  snd (fst x) = false -> snd x = fst (fst x).
Proof.
  induction cs as [|c r IH]; intros t x Hin Hb; [destruct Hin|].
  cbn [states_seq] in Hin. destruct (step_seq t c) as [[t1 b] ed] eqn:S. destruct Hin as [<-|Hin].
  - cbn in *. subst b. exact (proj1 (proj1 (proj2 (step_seq_ok _ _ _ _ _ S)) eq_refl)).
  - eapply IH; eassumption.
Qed.

(* ---------- concurrent machine ---------- *)
Lemma req_state : forall t, t_state (request_cancel t) = t_state t. Proof. reflexivity. Qed.

Lemma exec_ok : forall k c t t' ed k', cont_ok (t_state t) k = true -> exec c t k = (t', ed, k') ->
  edges_documented ed /\ (forall k2, k' = Some k2 -> cont_ok (t_state t') k2 = true).
Proof.
  induction k as [|m r IH]; intros c t t' ed k' H E.
  - cbn in E. inv E. split; [apply edges_documented_nil|discriminate].
  - destruct m as [e| | |]; try (cbn in E; inv E; split; [apply edges_documented_nil|intros k2 K; inv K; exact H]).
    assert (Hcase : (exists s', e = Transition s') \/ e = CancelTasks \/ e = RemoveLocalFile \/
                    ((forall s, e <> Transition s) /\ e <> CancelTasks /\ e <> RemoveLocalFile)).
    { destruct e; try (right; right; right; split; [not_trans|split; discriminate]); eauto. }
    destruct Hcase as [[s' ->]|[->|[->|[Hn [Hc Hr]]]]].
    + cbn in H. apply andb_true_iff in H. destruct H as [Hd Hr]. destruct r; [|discriminate].
      cbn in E. inv E. split; [|discriminate]. intros a b [X|[]]. inv X. exact Hd.
    + cbn [exec] in E. destruct (any_task (request_cancel t)).
      * inv E. split; [apply edges_documented_nil|]. intros k2 K. inv K. exact H.
      * eapply IH; [|exact E]. exact H.
    + cbn [exec] in E. destruct (is_download t && t_local t).
      * inv E. split; [apply edges_documented_nil|]. intros k2 K. inv K. exact H.
      * eapply IH; [|exact E]. exact H.
    + assert (E' : exec c t (MEff e :: r) =
                   let '(t1, ed1) := apply_eff c t e in let '(t2, ed2, k2) := exec c t1 r in (t2, ed1 ++ ed2, k2)).
      { destruct e; try reflexivity; congruence. }
      rewrite E' in E. clear E'. destruct (apply_eff c t e) as [t1 ed1] eqn:A.
      destruct (exec c t1 r) as [[t2 ed2] k2] eqn:X. inv E.
      destruct (apply_eff_state c t e Hn) as [S1 S2]. rewrite A in S1, S2. cbn in S1, S2. subst ed1.
      eapply IH; [|exact X]. rewrite S1. destruct e; cbn in H; try exact H. exfalso. eapply Hn. reflexivity.
Qed.

Lemma resume_ok : forall k c t t' ed k', cont_ok (t_state t) k = true -> resume c t k = (t', ed, k') ->
  edges_documented ed /\ (forall k2, k' = Some k2 -> cont_ok (t_state t') k2 = true).
Proof.
  intros k c t t' ed k' H E. destruct k as [|m r]; [exact (exec_ok [] c t t' ed k' H E)|].
  destruct m as [e| | |]; cbn [resume] in E.
  - exact (exec_ok (MEff e :: r) c t t' ed k' H E).
  - exact (exec_ok r c (finish_cancel t) t' ed k' H E).
  - destruct (t_file t).
    + inv E. split; [apply edges_documented_nil|]. intros k2 K. inv K. exact H.
    + exact (exec_ok r c (clear_local t) t' ed k' H E).
  - exact (exec_ok r c (clear_local (remove_file t)) t' ed k' H E).
Qed.

Definition inv (m : mach) : Prop :=
  match m_holder m with None => True | Some h => cont_ok (t_state (m_t m)) (h_k h) = true end.

Lemma obs_edges_documented : forall ed, edges_documented ed -> obs_documented (obs_edges ed).
Proof.
  intros ed H a b Hin. unfold obs_edges in Hin. apply in_map_iff in Hin. destruct Hin as [[x y] [E Hin]].
  cbn in E. inv E. apply H. exact Hin.
Qed.
Lemma obs_documented_app : forall a b, obs_documented a -> obs_documented b -> obs_documented (a ++ b).
Proof. intros a b Ha Hb x y Hin. apply in_app_or in Hin. destruct Hin; auto. Qed.
Lemma obs_documented_ret : forall i r, obs_documented [ORet i r].
Proof. intros i r a b [E|[]]. discriminate. Qed.
Lemma obs_documented_nil : obs_documented [].
Proof. intros a b []. Qed.

(* with dispatch on the state that is current once the lock is held *)
Lemma acquire_ok : forall m p ws m' o, acquire true m p ws = (m', o) -> inv m' /\ obs_documented o.
Proof.
  intros m p ws m' o H. unfold acquire in H.
  destruct (trans (t_state (m_t m)) (t_dir (m_t m)) (c_op (p_call p))) as [effs|] eqn:T.
  - destruct (exec (p_call p) (m_t m) (map MEff effs)) as [[t' ed] k] eqn:X.
    destruct (exec_ok _ _ _ _ _ _ (proj1 (trans_ok _ _ _ _ T)) X) as [Hd Hk].
    destruct k as [k'|]; inv H.
    + split; [unfold inv; cbn; apply Hk; reflexivity | apply obs_edges_documented; exact Hd].
    + split; [exact I|]. apply obs_documented_app; [apply obs_edges_documented; exact Hd | apply obs_documented_ret].
  - inv H. split; [exact I | apply obs_documented_ret].
Qed.

Lemma step_ok : forall m e m' o, inv m -> step true m e = (m', o) -> inv m' /\ obs_documented o.
Proof.
  intros m e m' o I H. destruct e as [c|i| | |i]; cbn [step] in H.
  - inv H. split; [exact I | apply obs_documented_nil].
  - destruct (take i (m_created m)) as [[p rest]|]; [|inv H; split; [exact I | apply obs_documented_nil]].
    destruct (m_holder m) as [h|] eqn:Hh.
    + inv H. split; [|apply obs_documented_nil]. unfold inv in *. cbn. rewrite Hh in I. exact I.
    + destruct (m_waiters m).
      * eapply acquire_ok. exact H.
      * inv H. split; [|apply obs_documented_nil]. unfold inv. cbn. exact Logic.I.
  - unfold inv in I. destruct (m_holder m) as [h|] eqn:Hh; [|inv H; split; [unfold inv; rewrite Hh; exact Logic.I | apply obs_documented_nil]].
    destruct (resume (h_call h) (m_t m) (h_k h)) as [[t' ed] k] eqn:R.
    destruct (resume_ok _ _ _ _ _ _ I R) as [Hd Hk]. destruct k as [k'|]; inv H.
    + split; [unfold inv; cbn; apply Hk; reflexivity | apply obs_edges_documented; exact Hd].
    + split; [exact Logic.I|]. apply obs_documented_app; [apply obs_edges_documented; exact Hd | apply obs_documented_ret].
  - destruct (m_holder m) as [h|] eqn:Hh; [inv H; split; [exact I | apply obs_documented_nil]|].
    destruct (m_waiters m) as [|p ws]; [inv H; split; [exact I | apply obs_documented_nil]|].
    eapply acquire_ok. exact H.
  - assert (D : forall j, obs_documented [OCancelled j]) by (intros j a b [E|[]]; discriminate).
    destruct (m_holder m) as [h|] eqn:Hh.
    + destruct (Nat.eqb (h_id h) i).
      * inv H. split; [exact Logic.I | apply D].
      * destruct (take i (m_waiters m)) as [[q ws]|]; inv H.
        -- split; [unfold inv in *; cbn; rewrite Hh in I; exact I | apply D].
        -- split; [exact I | apply obs_documented_nil].
    + destruct (take i (m_waiters m)) as [[q ws]|]; inv H.
      * split; [exact Logic.I | apply D].
      * split; [exact I | apply obs_documented_nil].
Qed.

Lemma run_ok : forall es m, inv m -> obs_documented (snd (run true m es)).
Proof.
  induction es as [|e r IH]; intros m I; [apply obs_documented_nil|].
  cbn [run]. destruct (step true m e) as [m1 o1] eqn:S. destruct (run true m1 r) as [m2 o2] eqn:R. cbn [snd].
  destruct (step_ok _ _ _ _ I S) as [I1 D1]. apply obs_documented_app; [exact D1|].
  specialize (IH m1 I1). rewrite R in IH. exact IH.
Qed.

(* the translated wrapper dispatches on the current state *)
Lemma redispatch_is_true : redispatch_after_lock = true.
Proof. reflexivity. Qed.

Lemma concurrent_thm : forall es m, m_holder m = None -> obs_documented (snd (run redispatch_after_lock m es)).
Proof. intros es m H. rewrite redispatch_is_true. apply run_ok. unfold inv. rewrite H. exact I. Qed.

(* a refused call has no effect, under either dispatch discipline, at every point of every schedule *)
Lemma in_obs_edges_ret : forall ed i r, ~ In (ORet i r) (obs_edges ed).
Proof. intros ed i r H. unfold obs_edges in H. apply in_map_iff in H. destruct H as [x [E _]]. discriminate. Qed.

Lemma acquire_refusal : forall b m p ws m' o i, acquire b m p ws = (m', o) -> In (ORet i false) o ->
  m_t m' = m_t m /\ o = [ORet i false] /\
  trans (if b then t_state (m_t m) else p_cap p) (t_dir (m_t m)) (c_op (p_call p)) = None.
Proof.
  intros b m p ws m' o i H Hin. unfold acquire in H.
  destruct (trans (if b then t_state (m_t m) else p_cap p) (t_dir (m_t m)) (c_op (p_call p))) as [effs|] eqn:T.
  - exfalso. destruct (exec (p_call p) (m_t m) (map MEff effs)) as [[t' ed] k]. destruct k; inv H.
    + eapply in_obs_edges_ret; eassumption.
    + apply in_app_or in Hin. destruct Hin as [Hin|[E|[]]]; [eapply in_obs_edges_ret; eassumption|discriminate].
  - inv H. destruct Hin as [E|[]]. inv E. auto.
Qed.

Lemma concurrent_refusal_thm : forall b m e m' o i, step b m e = (m', o) -> In (ORet i false) o ->
  m_t m' = m_t m /\ o = [ORet i false].
Proof.
  intros b m e m' o i H Hin. destruct e as [c|j| | |j0]; cbn [step] in H.
  - inv H. destruct Hin.
  - destruct (take j (m_created m)) as [[p rest]|]; [|inv H; destruct Hin].
    destruct (m_holder m); [inv H; destruct Hin|]. destruct (m_waiters m); [|inv H; destruct Hin].
    destruct (acquire_refusal _ _ _ _ _ _ _ H Hin) as [A [B _]]. cbn in A. auto.
  - destruct (m_holder m) as [h|]; [|inv H; destruct Hin]. exfalso.
    destruct (resume (h_call h) (m_t m) (h_k h)) as [[t' ed] k]. destruct k; inv H.
    + eapply in_obs_edges_ret; eassumption.
    + apply in_app_or in Hin. destruct Hin as [Hin|[E|[]]]; [eapply in_obs_edges_ret; eassumption|discriminate].
  - destruct (m_holder m); [inv H; destruct Hin|]. destruct (m_waiters m) as [|p ws]; [inv H; destruct Hin|].
    destruct (acquire_refusal _ _ _ _ _ _ _ H Hin) as [A [B _]]. auto.
  - exfalso. destruct (m_holder m) as [h|].
    + destruct (Nat.eqb (h_id h) j0); [inv H; destruct Hin as [E|[]]; discriminate|].
      destruct (take j0 (m_waiters m)) as [[q ws]|]; inv H; [destruct Hin as [E|[]]; discriminate|destruct Hin].
    + destruct (take j0 (m_waiters m)) as [[q ws]|]; inv H; [destruct Hin as [E|[]]; discriminate|destruct Hin].
Qed.

(* ---------- F01: the dispatch discipline of the current wrapper ---------- *)
Definition f01_transfer : transfer :=
  mkT QUEUED Download None None false None None 0%N 0%N 0%N false false false false TNone TNone.
Definition f01_abort : call := mkCall OAbort (Some 1%N) false.
Definition f01_pause : call := mkCall OPause None false.
Definition f01_schedule : list ev := [Capture f01_abort; Capture f01_pause; Start 0; Start 1].

Lemma concurrent_captured_refuted :
  exists t es a b, In (OEdge a b) (snd (run false (idle t) es)) /\ documented a b = false.
Proof.
  exists f01_transfer, f01_schedule, ABORTED, PAUSED. split; [|vm_compute; reflexivity].
  vm_compute. tauto.
Qed.

(* ---------- sequential runs are schedules of the machine ---------- *)
(* one call on an idle machine, driven to completion: Capture, Start, then Steps *)
Fixpoint drain (c : call) (t : transfer) (ed : list edge) (k : option (list micro)) (n : nat) : transfer * list edge * bool :=
  match k with
  | None => (t, ed, true)
  | Some k' => match n with
               | O => (t, ed, false)
               | S n' => let '(t1, ed1, k1) := resume c t k' in drain c t1 (ed ++ ed1) k1 n'
               end
  end.

Lemma exec_full : forall k c t t' ed k', exec c t (map MEff k) = (t', ed, k') ->
  forall n, 2 * length k <= n ->
  exists t2 ed2, drain c t' ed k' n = (t2, ed2, true) /\ full c t k = (t2, ed2).
Proof.
  induction k as [|e r IH]; intros c t t' ed k' E n Hn.
  - cbn in E. inv E. exists t', []. split; [destruct n; reflexivity|reflexivity].
  - cbn [map] in E. cbn [length] in Hn.
    assert (Hcase : e = CancelTasks \/ e = RemoveLocalFile \/ (e <> CancelTasks /\ e <> RemoveLocalFile)).
    { destruct e; try (right; right; split; discriminate); auto. }
    destruct Hcase as [->|[->|[Hc Hr]]].
    + cbn [exec] in E. cbn [full apply_eff]. destruct (any_task (request_cancel t)) eqn:A.
      * inv E. destruct n as [|n]; [lia|]. cbn [drain resume].
        destruct (exec c (finish_cancel (request_cancel t)) (map MEff r)) as [[t1 ed1] k1] eqn:X.
        destruct (IH c _ _ _ _ X n ltac:(lia)) as [t2 [ed2 [D F]]].
        assert (Efc : finish_cancel (request_cancel t) = finish_cancel t) by reflexivity.
        rewrite Efc in F. rewrite F. exists t2, ed2. split; [exact D|reflexivity].
      * destruct (IH c _ _ _ _ E n ltac:(lia)) as [t2 [ed2 [D F]]].
        assert (Efc : request_cancel t = finish_cancel t).
        { unfold any_task, request_cancel, finish_cancel, set_tasks in *. cbn in A.
          destruct (t_rqtask t), (t_trtask t); cbn in A; try discriminate. reflexivity. }
        rewrite Efc in F. rewrite F. exists t2, ed2. split; [exact D|reflexivity].
    + cbn [exec] in E. cbn [full apply_eff]. destruct (is_download t && t_local t) eqn:A.
      * inv E. destruct n as [|n]; [lia|]. cbn [drain resume]. destruct (t_file t') eqn:Fl.
        -- destruct n as [|n]; [lia|]. cbn [drain resume app].
           destruct (exec c (clear_local (remove_file t')) (map MEff r)) as [[t1 ed1] k1] eqn:X.
           destruct (IH c _ _ _ _ X n ltac:(lia)) as [t2 [ed2 [D F]]]. rewrite F.
           exists t2, ed2. split; [exact D|reflexivity].
        -- destruct (exec c (clear_local t') (map MEff r)) as [[t1 ed1] k1] eqn:X.
           destruct (IH c _ _ _ _ X n ltac:(lia)) as [t2 [ed2 [D F]]].
           assert (Ecl : clear_local (remove_file t') = clear_local t').
           { unfold clear_local, remove_file, set_local. cbn. rewrite Fl. reflexivity. }
           rewrite Ecl, F. exists t2, ed2. split; [exact D|reflexivity].
      * destruct (IH c _ _ _ _ E n ltac:(lia)) as [t2 [ed2 [D F]]]. rewrite F.
        exists t2, ed2. split; [exact D|reflexivity].
    + assert (E' : exec c t (MEff e :: map MEff r) =
                   let '(t1, ed1) := apply_eff c t e in let '(t2, ed2, k2) := exec c t1 (map MEff r) in (t2, ed1 ++ ed2, k2)).
      { destruct e; try reflexivity; congruence. }
      rewrite E' in E. clear E'. cbn [full]. destruct (apply_eff c t e) as [t1 ed1] eqn:A.
      destruct (exec c t1 (map MEff r)) as [[t2' ed2'] k2] eqn:X. inv E.
      destruct (IH c _ _ _ _ X n ltac:(lia)) as [t2 [ed2 [D F]]]. rewrite F.
      (* drain with an initial edge prefix *)
      assert (G : forall k0 m t0 e0 pre, drain c t0 (pre ++ e0) k0 m =
                  let '(a, b, z) := drain c t0 e0 k0 m in (a, pre ++ b, z)).
      { intros k0 m. revert k0. induction m as [|m IHm]; intros k0 t0 e0 pre; destruct k0 as [k0|]; cbn [drain]; try reflexivity.
        destruct (resume c t0 k0) as [[ta ea] ka]. rewrite <- app_assoc. apply IHm. }
      rewrite G, D. exists t2, (ed1 ++ ed2). split; reflexivity.
Qed.

(* ---------- regenerated helper methods / manager level ---------- *)
Lemma methods_supported_b_true : methods_supported_b = true.
Proof. vm_compute. reflexivity. Qed.

Lemma mgr_thm : forall t m t' r ed, mgr_step t m = (t', r, ed) ->
  (r = MInvalidStateTransition <-> trans (t_state t) (t_dir t) (c_op (mgr_call m)) = None) /\
  (r = MInvalidStateTransition -> t' = t /\ ed = []) /\ edges_documented ed.
Proof.
  intros t m t' r ed H. unfold mgr_step in H. destruct (step_seq t (mgr_call m)) as [[t1 b] ed1] eqn:S.
  assert (E : mgr_raises_iff_refused = true) by reflexivity. rewrite E in H. cbn [negb orb] in H. inv H.
  destruct (step_seq_ok _ _ _ _ _ S) as [D [R [B1 B2]]]. split; [|split; [|exact D]].
  - destruct b.
    + split; [discriminate|]. intros N. exfalso. apply (B1 eq_refl). exact N.
    + split; [|reflexivity]. intros _. destruct (trans (t_state t) (t_dir t) (c_op (mgr_call m))) eqn:T; [|reflexivity].
      exfalso. assert (X : false = true) by (apply B2; discriminate). discriminate X.
  - destruct b; [discriminate|]. intros _. apply R. reflexivity.
Qed.
