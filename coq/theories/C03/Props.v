(* C03 property theorems (statements only; proofs in Proofs.v).
   `trans`, `st`, `redispatch_after_lock` are SlskGen.TransGen, regenerated from
   /repo/src/aioslsk/transfer/state.py on every run; `documented` is C03/Spec.v, the graph of
   docs/diagrams/Transfer States.png.  Machine and effect semantics: C03/Model.v. *)
From Slsk Require Import Base.Tac.
From SlskGen Require Import TransGen TransferGen.
From Slsk Require Import C03.Spec C03.Model C03.Proofs C03.Listen.

(* Every transition a state class defines is an edge of the documented graph
   (for every state, direction and operation; the table is closed by computation on the regenerated text). *)
Theorem C03_edges_documented : forall s d o effs s',
  trans s d o = Some effs -> In (Transition s') effs -> documented s s' = true.
Proof. exact edges_documented_thm. Qed.

(* ... and a method body changes the state exactly once, as its last action *)
Theorem C03_body_shape : forall s d o effs, trans s d o = Some effs ->
  cont_ok s (map MEff effs) = true /\ exists s', target effs = Some s' /\ documented s s' = true.
Proof.
  intros s d o effs H. split; [exact (proj1 (trans_ok _ _ _ _ H)) | exact (body_shape _ _ _ _ H)].
Qed.

(* Conversely every documented edge is implemented by some operation. *)
Theorem C03_graph_complete : forall a b, documented a b = true ->
  exists d o effs, trans a d o = Some effs /\ target effs = Some b.
Proof. exact graph_complete_thm. Qed.

(* Uploads never enter DOWNLOADING/INCOMPLETE and downloads never UPLOADING (USAGE.rst state table). *)
Theorem C03_direction_respected : forall s d o effs s', trans s d o = Some effs -> target effs = Some s' ->
  dir_ok d s = true -> dir_ok d s' = true.
Proof. exact dir_respected_thm. Qed.

(* The documented side effects (Spec.required: cancel tasks / remove the file / record the reason / time
   stamps / restart from the beginning) are part of every method body that makes the transition. *)
Theorem C03_documented_effects : forall s d o effs s', trans s d o = Some effs -> target effs = Some s' ->
  dir_ok d s = true -> incl (required s d o s') effs.
Proof. exact documented_effects_thm. Qed.

(* A request that is not allowed in the current state returns false and changes nothing. *)
Theorem C03_refusal_no_effect : forall t c,
  trans (t_state t) (t_dir t) (c_op c) = None -> step_seq t c = (t, false, []).
Proof. exact refusal_no_effect_thm. Qed.

(* Sequential use: for ALL operation lists from ANY transfer record, every edge reported to the
   listeners is documented; an operation returns true iff its state class defines it; a refused one
   leaves the whole record unchanged. *)
Theorem C03_sequential : forall cs t,
  Forall (fun x => edges_documented (snd x)) (snd (run_seq t cs)).
Proof. exact sequential_thm. Qed.

Theorem C03_sequential_step : forall t c t' b ed, step_seq t c = (t', b, ed) ->
  edges_documented ed /\ (b = false -> t' = t /\ ed = []) /\
  (b = true <-> trans (t_state t) (t_dir t) (c_op c) <> None).
Proof. exact step_seq_ok. Qed.

Theorem C03_sequential_refusals : forall cs t x, In x (states_seq t cs) ->
  snd (fst x) = false -> snd x = fst (fst x).
Proof. exact sequential_refusals_thm. Qed.

(* A sequential call is the machine schedule Capture, Start, Step* on an idle lock: driving the
   suspended holder to completion yields exactly the run-to-completion semantics used above. *)
Theorem C03_drain_is_full : forall effs c t t' ed k', exec c t (map MEff effs) = (t', ed, k') ->
  forall n, 2 * length effs <= n ->
  exists t2 ed2, drain c t' ed k' n = (t2, ed2, true) /\ full c t effs = (t2, ed2).
Proof. exact exec_full. Qed.

(* Concurrent use.  The wrapper _with_state_lock, as translated from the source, looks the method up on
   the transfer's CURRENT state once the lock is held (redispatch_after_lock = true; the proof below
   stops compiling if the source falls back to running the bound method selected by the caller).
   For ALL schedules of captures, starts, slow-operation completions and lock hand-overs, from any
   machine state in which nobody holds the lock, every reported edge is documented. *)
Theorem C03_concurrent : forall es m, m_holder m = None ->
  obs_documented (snd (run redispatch_after_lock m es)).
Proof. exact concurrent_thm. Qed.

(* Refused calls have no effect at any point of any schedule. *)
Theorem C03_concurrent_refusal_no_effect : forall b m e m' o i,
  step b m e = (m', o) -> In (ORet i false) o -> m_t m' = m_t m /\ o = [ORet i false].
Proof. exact concurrent_refusal_thm. Qed.

(* The Transfer helper methods behind the effect atoms are regenerated from transfer/model.py (the m_ definitions of TransferGen);
   every field step they contain has an interpretation on the model record (nothing silently ignored). *)
Theorem C03_helper_methods_supported : methods_supported_b = true.
Proof. exact methods_supported_b_true. Qed.

(* TransferManager.abort / queue / pause (regenerated: which state method, which arguments, raise iff it returned
   False): InvalidStateTransition is raised iff the current state class does not define the operation, then nothing
   changed and no listener was told anything; otherwise every reported edge is documented. *)
Theorem C03_manager_raises_iff_refused : forall t m t' r ed, mgr_step t m = (t', r, ed) ->
  (r = MInvalidStateTransition <-> trans (t_state t) (t_dir t) (c_op (mgr_call m)) = None) /\
  (r = MInvalidStateTransition -> t' = t /\ ed = []) /\ edges_documented ed.
Proof. exact mgr_thm. Qed.

(* Listeners (C03/Listen.v: the lock machine with n listeners, flags ls = which of them suspend; Transfer.transition
   announces the change while the lock is held -- fingerprinted, TransferGen.notify_inside_lock).
   For ALL schedules, including completions of suspended listeners at any point: every listener is only ever told
   documented edges ... *)
Theorem C03_listeners_documented : forall ls es m, l_holder m = None -> lobs_documented (snd (lrun ls m es)).
Proof. exact listeners_documented_thm. Qed.

(* ... and all listeners are told the same chain of changes: at any point of any schedule listener x has been told
   exactly what listener 0 has been told, except that while the caller is suspended inside listener j announcing
   a -> b the listeners after j have not yet been told that one change. *)
Theorem C03_listeners_same_chain : forall ls es t,
  told_same (length ls) (fst (lrun ls (lidle t) es)) (snd (lrun ls (lidle t) es)).
Proof. exact listeners_same_chain_thm. Qed.

Theorem C03_notify_inside_lock : notify_inside_lock = true.
Proof. reflexivity. Qed.

(* ---------- non-vacuity ---------- *)
Example C03_edges_documented_nonvacuous :
  trans QUEUED Download OAbort <> None /\ trans COMPLETE Upload OQueue <> None /\
  documented QUEUED ABORTED = true /\ documented ABORTED PAUSED = false /\ documented COMPLETE PAUSED = false.
Proof. repeat split; try discriminate; reflexivity. Qed.

Example C03_documented_effects_nonvacuous :
  required QUEUED Download OAbort ABORTED = [CancelTasks; SetAbortReason; RemoveLocalFile] /\
  required DOWNLOADING Download OFail FAILED = [SetFailReason; SetCompleteTime] /\
  required INITIALIZING Upload OStart UPLOADING = [SetStartTime].
Proof. repeat split; reflexivity. Qed.

Example C03_refusal_nonvacuous :
  trans COMPLETE Download OPause = None /\ trans ABORTED Download OPause = None /\ trans QUEUED Upload OQueue = None.
Proof. repeat split; reflexivity. Qed.

Example C03_sequential_nonvacuous :
  snd (run_seq f01_transfer [f01_abort; f01_pause; mkCall OQueue None true; f01_pause]) =
  [(true, [(QUEUED, ABORTED)]); (false, []); (true, [(ABORTED, QUEUED)]); (true, [(QUEUED, PAUSED)])].
Proof. vm_compute. reflexivity. Qed.

(* the schedule of (fixed) finding F01: the pause that lost the race is refused, one documented edge *)
Example C03_concurrent_nonvacuous :
  snd (run redispatch_after_lock (idle f01_transfer) f01_schedule) = [OEdge QUEUED ABORTED; ORet 0 true; ORet 1 false].
Proof. vm_compute. reflexivity. Qed.

(* a schedule in which the lock is really contended: a live task makes the abort wait while holding the lock *)
Example C03_concurrent_contended_nonvacuous :
  let t := mkT DOWNLOADING Download None None false None (Some 10%N) 4%N 0%N 0%N true false true true TNone TLive in
  snd (run redispatch_after_lock (idle t) [Capture f01_abort; Start 0; Capture f01_pause; Start 1; Step; Step; Step; Wake]) =
  [OEdge DOWNLOADING ABORTED; ORet 0 true; ORet 1 false].
Proof. vm_compute. reflexivity. Qed.

(* the discipline matters: a wrapper that runs the method selected by the caller (the shape before the
   fix of F01) reports the undocumented edge ABORTED -> PAUSED on the same schedule *)
Example C03_captured_dispatch_would_fail :
  exists t es a b, In (OEdge a b) (snd (run false (idle t) es)) /\ documented a b = false.
Proof. exact concurrent_captured_refuted. Qed.

Example C03_manager_nonvacuous :
  snd (fst (mgr_step f01_transfer MAbort)) = MOk /\ snd (fst (mgr_step f01_transfer MQueue)) = MInvalidStateTransition /\
  c_reason (mgr_call MAbort) = Some REQUESTED_ID.
Proof. repeat split; reflexivity. Qed.

(* the scenario of the seeded change C03-m1 (slow first listener, queue() then initialize() on a PAUSED download):
   the second operation waits for the lock until every listener has been told PAUSED -> QUEUED *)
Example C03_listeners_nonvacuous :
  let t := mkT PAUSED Download None None false None None 0%N 0%N 0%N false false false false TNone TNone in
  snd (lrun [true; false; false] (lidle t)
         [Capture (mkCall OQueue None false); Start 0; Capture (mkCall OInitialize None false); Start 1; Step; Wake; Step]) =
  [LSeen 0 PAUSED QUEUED; LSeen 1 PAUSED QUEUED; LSeen 2 PAUSED QUEUED; LRet 0 true;
   LSeen 0 QUEUED INITIALIZING; LSeen 1 QUEUED INITIALIZING; LSeen 2 QUEUED INITIALIZING; LRet 1 true].
Proof. vm_compute. reflexivity. Qed.

(* the scenario of the seeded change C03-r3m1: the abort holds the lock while the transfer task winds down, a pause
   that waits for the lock is cancelled (wait_for timeout), a fail() arrives: it must wait and is then refused *)
Example C03_cancelled_waiter_nonvacuous :
  let t := mkT DOWNLOADING Download None None false None (Some 10%N) 4%N 0%N 0%N true false true true TNone TLive in
  snd (run redispatch_after_lock (idle t)
         [Capture f01_abort; Start 0; Capture f01_pause; Start 1; Cancel 1; Capture (mkCall OFail (Some 4%N) false); Start 2;
          Step; Step; Step; Wake]) =
  [OCancelled 1; OEdge DOWNLOADING ABORTED; ORet 0 true; ORet 2 false].
Proof. vm_compute. reflexivity. Qed.
