(* C03 model: one transfer, its state lock, and callers of the transition methods.
   `trans`, `redispatch_after_lock` come from SlskGen.TransGen (regenerated from transfer/state.py).
   Hand-modelled here (tied by checks/c03.py against real Transfer objects):
     - the Transfer helper methods used by the effect atoms (transfer/model.py),
     - _remove_local_file / _cancel_transfer_tasks (the two slow operations),
     - asyncio.Lock (FIFO hand-over, no barging while waiters exist) and the point at which a
       caller selects the state object whose method will run. *)
From Coq Require Import ZArith NArith List Bool.
From SlskGen Require Import TransGen TransferGen.
From Slsk Require Import C03.Spec.
Import ListNotations.

(* task slot of a transfer: no task / a running task / cancel() requested and not yet finished *)
Inductive tstat : Type := TNone | TLive | TCancelling.

Record transfer : Type := mkT {
  t_state : st;
  t_dir : direction;
  t_fail : option N;        (* fail_reason (strings are numbered by the harness) *)
  t_abort : option N;       (* abort_reason *)
  t_rq : bool;              (* remotely_queued *)
  t_place : option N;       (* place_in_queue *)
  t_filesize : option N;
  t_bytes : N;              (* bytes_transfered *)
  t_qatt : N;               (* queue_attempts (last_queue_attempt = 0.0 iff 0) *)
  t_uatt : N;               (* upload_request_attempts *)
  t_start : bool;           (* start_time is not None *)
  t_complete : bool;        (* complete_time is not None *)
  t_local : bool;           (* local_path is set *)
  t_file : bool;            (* a file exists at the local path on disk *)
  t_rqtask : tstat;         (* _remotely_queue_task *)
  t_trtask : tstat          (* _transfer_task *)
}.

Record call : Type := mkCall { c_op : op; c_reason : option N; c_remotely : bool }.

Definition edge : Type := (st * st)%type.

Definition set_state (t : transfer) (s : st) : transfer :=
  mkT s (t_dir t) (t_fail t) (t_abort t) (t_rq t) (t_place t) (t_filesize t) (t_bytes t) (t_qatt t) (t_uatt t)
      (t_start t) (t_complete t) (t_local t) (t_file t) (t_rqtask t) (t_trtask t).
Definition set_fail (t : transfer) (r : option N) : transfer :=
  mkT (t_state t) (t_dir t) r (t_abort t) (t_rq t) (t_place t) (t_filesize t) (t_bytes t) (t_qatt t) (t_uatt t)
      (t_start t) (t_complete t) (t_local t) (t_file t) (t_rqtask t) (t_trtask t).
Definition set_abort (t : transfer) (r : option N) : transfer :=
  mkT (t_state t) (t_dir t) (t_fail t) r (t_rq t) (t_place t) (t_filesize t) (t_bytes t) (t_qatt t) (t_uatt t)
      (t_start t) (t_complete t) (t_local t) (t_file t) (t_rqtask t) (t_trtask t).
Definition set_rq (t : transfer) (b : bool) : transfer :=
  mkT (t_state t) (t_dir t) (t_fail t) (t_abort t) b (t_place t) (t_filesize t) (t_bytes t) (t_qatt t) (t_uatt t)
      (t_start t) (t_complete t) (t_local t) (t_file t) (t_rqtask t) (t_trtask t).
Definition set_times (t : transfer) (s c : bool) : transfer :=
  mkT (t_state t) (t_dir t) (t_fail t) (t_abort t) (t_rq t) (t_place t) (t_filesize t) (t_bytes t) (t_qatt t) (t_uatt t)
      s c (t_local t) (t_file t) (t_rqtask t) (t_trtask t).
Definition set_bytes (t : transfer) (n : N) : transfer :=
  mkT (t_state t) (t_dir t) (t_fail t) (t_abort t) (t_rq t) (t_place t) (t_filesize t) n (t_qatt t) (t_uatt t)
      (t_start t) (t_complete t) (t_local t) (t_file t) (t_rqtask t) (t_trtask t).
Definition set_local (t : transfer) (l : bool) (fs : option N) (f : bool) : transfer :=
  mkT (t_state t) (t_dir t) (t_fail t) (t_abort t) (t_rq t) (t_place t) fs (t_bytes t) (t_qatt t) (t_uatt t)
      (t_start t) (t_complete t) l f (t_rqtask t) (t_trtask t).
Definition set_tasks (t : transfer) (a b : tstat) : transfer :=
  mkT (t_state t) (t_dir t) (t_fail t) (t_abort t) (t_rq t) (t_place t) (t_filesize t) (t_bytes t) (t_qatt t) (t_uatt t)
      (t_start t) (t_complete t) (t_local t) (t_file t) a b.

Definition is_download (t : transfer) : bool := match t_dir t with Download => true | Upload => false end.

(* Transfer.cancel_tasks(): cancel() on every existing task *)
Definition req1 (x : tstat) : tstat := match x with TNone => TNone | _ => TCancelling end.
Definition request_cancel (t : transfer) : transfer := set_tasks t (req1 (t_rqtask t)) (req1 (t_trtask t)).
Definition any_task (t : transfer) : bool :=
  match t_rqtask t, t_trtask t with TNone, TNone => false | _, _ => true end.
(* the cancelled tasks have finished; their done-callbacks cleared the slots *)
Definition finish_cancel (t : transfer) : transfer := set_tasks t TNone TNone.
(* _remove_local_file, last statement *)
Definition clear_local (t : transfer) : transfer := set_local t false (t_filesize t) (t_file t).
Definition remove_file (t : transfer) : transfer := set_local t (t_local t) (t_filesize t) false.

(* The Transfer helper methods (transfer/model.py) are regenerated as lists of field steps (SlskGen.TransferGen);
   this is their interpretation on the abstract record.  Fields the record does not carry (_offset, _speed_log,
   last_*_attempt, which are 0.0 exactly when the counter is 0) are skipped. *)
Definition supported (f : tfield) (v : fval) : bool :=
  match f, v with
  | F_local_path, VNone | F_filesize, VNone | F_bytes_transfered, VZero | F_place_in_queue, VNone
  | F_remotely_queued, VFalse | F_queue_attempts, VZero | F_last_queue_attempt, VZero
  | F_upload_request_attempts, VZero | F_last_upload_request_attempt, VZero
  | F_start_time, VNone | F_start_time, VNow | F_complete_time, VNone | F_complete_time, VNow
  | F_offset, _ | F_speed_log, _ => true
  | _, _ => false
  end.

Definition set_field (f : tfield) (v : fval) (t : transfer) : transfer :=
  match f, v with
  | F_local_path, VNone => set_local t false (t_filesize t) (t_file t)
  | F_filesize, VNone => set_local t (t_local t) None (t_file t)
  | F_bytes_transfered, VZero => set_bytes t 0%N
  | F_place_in_queue, VNone =>
      mkT (t_state t) (t_dir t) (t_fail t) (t_abort t) (t_rq t) None (t_filesize t) (t_bytes t) (t_qatt t) (t_uatt t)
          (t_start t) (t_complete t) (t_local t) (t_file t) (t_rqtask t) (t_trtask t)
  | F_remotely_queued, VFalse => set_rq t false
  | F_queue_attempts, VZero =>
      mkT (t_state t) (t_dir t) (t_fail t) (t_abort t) (t_rq t) (t_place t) (t_filesize t) (t_bytes t) 0%N (t_uatt t)
          (t_start t) (t_complete t) (t_local t) (t_file t) (t_rqtask t) (t_trtask t)
  | F_upload_request_attempts, VZero =>
      mkT (t_state t) (t_dir t) (t_fail t) (t_abort t) (t_rq t) (t_place t) (t_filesize t) (t_bytes t) (t_qatt t) 0%N
          (t_start t) (t_complete t) (t_local t) (t_file t) (t_rqtask t) (t_trtask t)
  | F_start_time, VNone => set_times t false (t_complete t)
  | F_start_time, VNow => set_times t true (t_complete t)
  | F_complete_time, VNone => set_times t (t_start t) false
  | F_complete_time, VNow => set_times t (t_start t) true
  | _, _ => t
  end.

Fixpoint run_fields (l : list fstep) (t : transfer) : transfer :=
  match l with
  | [] => t
  | FAssign f v :: r => run_fields r (set_field f v t)
  | FIfStarted b :: r =>
      run_fields r (if t_start t then (fix go (b : list fstep) (t : transfer) : transfer :=
                                         match b with
                                         | FAssign f v :: b' => go b' (set_field f v t)
                                         | _ => t
                                         end) b t else t)
  end.

Fixpoint steps_supported (l : list fstep) : bool :=
  match l with
  | [] => true
  | FAssign f v :: r => supported f v && steps_supported r
  | FIfStarted b :: r => forallb (fun x => match x with FAssign f v => supported f v | FIfStarted _ => false end) b && steps_supported r
  end.
Definition methods_supported_b : bool :=
  forallb steps_supported [m_reset_local_vars; m_reset_progress_vars; m_reset_queue_vars; m_reset_time_vars;
                           m_set_start_time; m_set_complete_time].

(* Effect atoms that do not suspend.  The edge reported to the listeners is (state before, new state):
   Transfer.transition reads self.state at that moment. *)
Definition apply_eff (c : call) (t : transfer) (e : effect) : transfer * list edge :=
  match e with
  | SetFailReason => (set_fail t (c_reason c), [])
  | ClearFailReason => (set_fail t None, [])
  | SetAbortReason => (set_abort t (c_reason c), [])
  | ClearAbortReason => (set_abort t None, [])
  | SetRemotelyQueued => (set_rq t (c_remotely c), [])
  | ResetTimeVars => (run_fields m_reset_time_vars t, [])
  | ResetProgressVars => (run_fields m_reset_progress_vars t, [])
  | ResetLocalVars => (run_fields m_reset_local_vars t, [])
  | SetStartTime => (run_fields m_set_start_time t, [])
  | SetCompleteTime => (run_fields m_set_complete_time t, [])
  | ResetQueueVars => (run_fields m_reset_queue_vars t, [])
  | Transition s' => (set_state t s', [(t_state t, s')])
  | CancelTasks => (finish_cancel t, [])                 (* run to completion (sequential use only) *)
  | RemoveLocalFile =>
      (if is_download t && t_local t then clear_local (remove_file t) else t, [])
  end.

(* ---------- sequential semantics: one call at a time, each run to completion ---------- *)
Fixpoint full (c : call) (t : transfer) (effs : list effect) : transfer * list edge :=
  match effs with
  | [] => (t, [])
  | e :: r => let '(t1, ed1) := apply_eff c t e in
              let '(t2, ed2) := full c t1 r in (t2, ed1 ++ ed2)
  end.

Definition step_seq (t : transfer) (c : call) : transfer * bool * list edge :=
  match trans (t_state t) (t_dir t) (c_op c) with
  | None => (t, false, [])
  | Some effs => let '(t', ed) := full c t effs in (t', true, ed)
  end.

Fixpoint run_seq (t : transfer) (cs : list call) : transfer * list (bool * list edge) :=
  match cs with
  | [] => (t, [])
  | c :: r => let '(t1, b, ed) := step_seq t c in
              let '(t2, l) := run_seq t1 r in (t2, (b, ed) :: l)
  end.

(* ---------- concurrent machine ---------- *)
(* The body of the running method is a list of micro steps; the three waits are the places where the
   coroutine is suspended while it HOLDS the lock (gather of the cancelled tasks, aiofiles exists,
   aiofiles remove). *)
Inductive micro : Type := MEff (e : effect) | MCancelWait | MExistsWait | MRemoveWait.

Fixpoint exec (c : call) (t : transfer) (k : list micro) : transfer * list edge * option (list micro) :=
  match k with
  | [] => (t, [], None)
  | MEff CancelTasks :: r =>
      let t1 := request_cancel t in
      if any_task t1 then (t1, [], Some (MCancelWait :: r)) else exec c t1 r
  | MEff RemoveLocalFile :: r =>
      if is_download t && t_local t then (t, [], Some (MExistsWait :: r)) else exec c t r
  | MEff e :: r =>
      let '(t1, ed1) := apply_eff c t e in
      let '(t2, ed2, k2) := exec c t1 r in (t2, ed1 ++ ed2, k2)
  | _ :: _ => (t, [], Some k)
  end.

(* the awaited operation of the suspended holder completes *)
Definition resume (c : call) (t : transfer) (k : list micro) : transfer * list edge * option (list micro) :=
  match k with
  | MCancelWait :: r => exec c (finish_cancel t) r
  | MExistsWait :: r => if t_file t then (t, [], Some (MRemoveWait :: r)) else exec c (clear_local t) r
  | MRemoveWait :: r => exec c (clear_local (remove_file t)) r
  | _ => exec c t k
  end.

Record pend : Type := mkP { p_id : nat; p_call : call; p_cap : st }.   (* p_cap: state object the caller selected *)
Record hold : Type := mkH { h_id : nat; h_call : call; h_k : list micro }.

Record mach : Type := mkM {
  m_t : transfer;
  m_next : nat;                 (* id of the next call *)
  m_created : list pend;        (* coroutine objects created (state object selected), not yet started *)
  m_holder : option hold;       (* who holds _state_lock, suspended in a slow operation *)
  m_waiters : list pend         (* FIFO queue of asyncio.Lock *)
}.

Inductive ev : Type :=
| Capture (c : call)     (* `transfer.state.<op>(args)` is evaluated: state object selected, coroutine created *)
| Start (i : nat)        (* coroutine i starts running: takes the lock if it is free and nobody waits, else queues *)
| Step                   (* the slow operation the holder is waiting for completes *)
| Wake                   (* the first waiter is resumed after a release *)
| Cancel (i : nat).      (* the task running call i is cancelled (wait_for timeout, shutdown, a task cancelled by an abort):
                            a waiter leaves the queue; the holder's body is cut at the slow operation it waits in and
                            `async with` releases the lock *)

Inductive obs : Type := OEdge (a b : st) | ORet (i : nat) (r : bool) | OCancelled (i : nat).

Definition obs_edges (l : list edge) : list obs := map (fun e => OEdge (fst e) (snd e)) l.

(* the lock has been obtained by p.  redisp = dispatch discipline of _with_state_lock *)
Definition acquire (redisp : bool) (m : mach) (p : pend) (ws : list pend) : mach * list obs :=
  let t := m_t m in
  let sel := if redisp then t_state t else p_cap p in
  match trans sel (t_dir t) (c_op (p_call p)) with
  | None => (mkM t (m_next m) (m_created m) None ws, [ORet (p_id p) false])
  | Some effs =>
      let '(t', ed, k) := exec (p_call p) t (map MEff effs) in
      match k with
      | None => (mkM t' (m_next m) (m_created m) None ws, obs_edges ed ++ [ORet (p_id p) true])
      | Some k' => (mkM t' (m_next m) (m_created m) (Some (mkH (p_id p) (p_call p) k')) ws, obs_edges ed)
      end
  end.

Fixpoint take (i : nat) (l : list pend) : option (pend * list pend) :=
  match l with
  | [] => None
  | p :: r => if Nat.eqb (p_id p) i then Some (p, r)
              else match take i r with Some (q, r') => Some (q, p :: r') | None => None end
  end.

(* the holder is cancelled while it waits: cancelling gather() cancels the (already cancelled) tasks once more, which
   ends their clean-up at once; a cancelled exists()/remove() leaves file and local_path as they are *)
Definition cut (t : transfer) (k : list micro) : transfer :=
  match k with MCancelWait :: _ => finish_cancel t | _ => t end.

Definition step (redisp : bool) (m : mach) (e : ev) : mach * list obs :=
  match e with
  | Capture c =>
      (mkM (m_t m) (S (m_next m)) (m_created m ++ [mkP (m_next m) c (t_state (m_t m))]) (m_holder m) (m_waiters m), [])
  | Start i =>
      match take i (m_created m) with
      | None => (m, [])
      | Some (p, rest) =>
          let m1 := mkM (m_t m) (m_next m) rest (m_holder m) (m_waiters m) in
          match m_holder m, m_waiters m with
          | None, [] => acquire redisp m1 p []
          | _, _ => (mkM (m_t m) (m_next m) rest (m_holder m) (m_waiters m ++ [p]), [])
          end
      end
  | Step =>
      match m_holder m with
      | None => (m, [])
      | Some h =>
          let '(t', ed, k) := resume (h_call h) (m_t m) (h_k h) in
          match k with
          | None => (mkM t' (m_next m) (m_created m) None (m_waiters m), obs_edges ed ++ [ORet (h_id h) true])
          | Some k' => (mkM t' (m_next m) (m_created m) (Some (mkH (h_id h) (h_call h) k')) (m_waiters m), obs_edges ed)
          end
      end
  | Wake =>
      match m_holder m, m_waiters m with
      | None, p :: ws => acquire redisp m p ws
      | _, _ => (m, [])
      end
  | Cancel i =>
      match m_holder m with
      | Some h =>
          if Nat.eqb (h_id h) i
          then (mkM (cut (m_t m) (h_k h)) (m_next m) (m_created m) None (m_waiters m), [OCancelled i])
          else match take i (m_waiters m) with
               | Some (_, ws) => (mkM (m_t m) (m_next m) (m_created m) (m_holder m) ws, [OCancelled i])
               | None => (m, [])
               end
      | None => match take i (m_waiters m) with
                | Some (_, ws) => (mkM (m_t m) (m_next m) (m_created m) None ws, [OCancelled i])
                | None => (m, [])
                end
      end
  end.

Fixpoint run (redisp : bool) (m : mach) (es : list ev) : mach * list obs :=
  match es with
  | [] => (m, [])
  | e :: r => let '(m1, o1) := step redisp m e in
              let '(m2, o2) := run redisp m1 r in (m2, o1 ++ o2)
  end.

Definition idle (t : transfer) : mach := mkM t 0 [] None [].

(* ---------- the property as predicates ---------- *)
Definition edges_documented (l : list edge) : Prop := forall a b, In (a, b) l -> documented a b = true.
Definition obs_documented (l : list obs) : Prop := forall a b, In (OEdge a b) l -> documented a b = true.

Definition edge_okb (e : edge) : bool := documented (fst e) (snd e).
Definition obs_okb (o : obs) : bool := match o with OEdge a b => documented a b | _ => true end.

(* shape of a method body: no state change before the last atom, which is a documented transition *)
Fixpoint cont_ok (cur : st) (k : list micro) : bool :=
  match k with
  | [] => true
  | MEff (Transition s') :: r => documented cur s' && match r with [] => true | _ => false end
  | _ :: r => cont_ok cur r
  end.

Fixpoint target (effs : list effect) : option st :=
  match effs with
  | [] => None
  | Transition s :: r => match target r with Some s' => Some s' | None => Some s end
  | _ :: r => target r
  end.

Definition all_dir : list direction := [Upload; Download].

Definition forall_sdo (f : st -> direction -> op -> bool) : bool :=
  forallb (fun s => forallb (fun d => forallb (fun o => f s d o) all_op) all_dir) all_st.

(* every method body ends in exactly one transition, and that transition is a documented edge *)
Definition trans_ok_b : bool :=
  forall_sdo (fun s d o => match trans s d o with
                           | None => true
                           | Some effs => cont_ok s (map MEff effs) &&
                                          match target effs with Some _ => true | None => false end
                           end).

(* uploads never enter DOWNLOADING / INCOMPLETE, downloads never UPLOADING *)
Definition trans_dir_ok_b : bool :=
  forall_sdo (fun s d o => match trans s d o with
                           | None => true
                           | Some effs => match target effs with
                                          | Some s' => implb (dir_ok d s) (dir_ok d s')
                                          | None => true end
                           end).

(* every documented edge is implemented by some operation *)
Definition edge_implemented (e : edge) : bool :=
  existsb (fun d => existsb (fun o => match trans (fst e) d o with
                                      | Some effs => match target effs with Some s' => st_beq s' (snd e) | None => false end
                                      | None => false end) all_op) all_dir.
Definition graph_complete_b : bool := forallb edge_implemented documented_edges.

(* every documented side effect is part of the method body *)
Definition effects_ok_b : bool :=
  forall_sdo (fun s d o => match trans s d o with
                           | None => true
                           | Some effs => match target effs with
                                          | Some s' => implb (dir_ok d s) (forallb (fun r => existsb (effect_beq r) effs) (required s d o s'))
                                          | None => true end
                           end).

(* ---------- TransferManager.abort / queue / pause (regenerated: TransferGen.mgr_op) ---------- *)
Inductive mres : Type := MOk | MInvalidStateTransition.
Definition REQUESTED_ID : N := 1%N.
Definition mgr_call (m : mop) : call :=
  let '(o, req) := mgr_op m in mkCall o (if req then Some REQUESTED_ID else None) false.
Definition mgr_step (t : transfer) (m : mop) : transfer * mres * list edge :=
  let '(t', b, ed) := step_seq t (mgr_call m) in
  (t', if negb mgr_raises_iff_refused || b then MOk else MInvalidStateTransition, ed).
