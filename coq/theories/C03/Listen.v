(* C03, listeners inside the machine.  Transfer.transition (fingerprinted; TransferGen.notify_inside_lock) tells the
   state listeners one after the other WHILE the caller still holds the state lock; a listener may suspend.
   This file extends the lock machine of Model.v with n listeners, some of which suspend (ls : list bool), and proves
   for ALL schedules: every listener is only ever told documented edges, and all listeners are told the same chain
   (a later listener lags by at most the one change that is being announced). *)
From Slsk Require Import Base.Tac.
From SlskGen Require Import TransGen TransferGen.
From Slsk Require Import C03.Spec C03.Model C03.Proofs.

Inductive lobs : Type := LSeen (li : nat) (a b : st) | LRet (i : nat) (r : bool).

(* tell listeners li, li+1, ... (flags ls: true = this listener suspends) about a -> b;
   Some j = the caller is now suspended inside listener j *)
Fixpoint notify (ls : list bool) (li : nat) (a b : st) : list lobs * option nat :=
  match ls with
  | [] => ([], None)
  | s :: r => if s then ([LSeen li a b], Some li)
              else let '(o, k) := notify r (S li) a b in (LSeen li a b :: o, k)
  end.

Inductive lhold : Type :=
| LBody (h : hold)                          (* suspended in a slow operation of the method body *)
| LNotify (id : nat) (li : nat) (a b : st). (* suspended inside listener li while announcing a -> b *)

Record lmach : Type := mkL {
  l_t : transfer; l_next : nat; l_created : list pend; l_holder : option lhold; l_waiters : list pend }.

(* the method body has finished: announce its state change (bodies change the state exactly once, as their last
   action: C03_body_shape), then return True and release the lock *)
Definition after_body (ls : list bool) (id : nat) (ed : list edge) : option lhold * list lobs :=
  match ed with
  | (a, b) :: _ => let '(o, k) := notify ls 0 a b in
                   match k with
                   | Some j => (Some (LNotify id j a b), o)
                   | None => (None, o ++ [LRet id true])
                   end
  | [] => (None, [LRet id true])
  end.

Definition lfinish (ls : list bool) (m : lmach) (ws : list pend) (id : nat) (c : call)
                   (r : transfer * list edge * option (list micro)) : lmach * list lobs :=
  let '(t', ed, k) := r in
  match k with
  | Some k' => (mkL t' (l_next m) (l_created m) (Some (LBody (mkH id c k'))) ws, [])
  | None => let '(h, o) := after_body ls id ed in (mkL t' (l_next m) (l_created m) h ws, o)
  end.

Definition lacquire (ls : list bool) (m : lmach) (p : pend) (ws : list pend) : lmach * list lobs :=
  let t := l_t m in
  let sel := if redispatch_after_lock then t_state t else p_cap p in
  match trans sel (t_dir t) (c_op (p_call p)) with
  | None => (mkL t (l_next m) (l_created m) None ws, [LRet (p_id p) false])
  | Some effs => lfinish ls m ws (p_id p) (p_call p) (exec (p_call p) t (map MEff effs))
  end.

Definition lstep (ls : list bool) (m : lmach) (e : ev) : lmach * list lobs :=
  match e with
  | Capture c =>
      (mkL (l_t m) (S (l_next m)) (l_created m ++ [mkP (l_next m) c (t_state (l_t m))]) (l_holder m) (l_waiters m), [])
  | Start i =>
      match take i (l_created m) with
      | None => (m, [])
      | Some (p, rest) =>
          let m1 := mkL (l_t m) (l_next m) rest (l_holder m) (l_waiters m) in
          match l_holder m, l_waiters m with
          | None, [] => lacquire ls m1 p []
          | _, _ => (mkL (l_t m) (l_next m) rest (l_holder m) (l_waiters m ++ [p]), [])
          end
      end
  | Step =>
      match l_holder m with
      | None => (m, [])
      | Some (LBody h) => lfinish ls m (l_waiters m) (h_id h) (h_call h) (resume (h_call h) (l_t m) (h_k h))
      | Some (LNotify id j a b) =>
          let '(o, k) := notify (skipn (S j) ls) (S j) a b in
          match k with
          | Some j' => (mkL (l_t m) (l_next m) (l_created m) (Some (LNotify id j' a b)) (l_waiters m), o)
          | None => (mkL (l_t m) (l_next m) (l_created m) None (l_waiters m), o ++ [LRet id true])
          end
      end
  | Wake =>
      match l_holder m, l_waiters m with
      | None, p :: ws => lacquire ls m p ws
      | _, _ => (m, [])
      end
  | Cancel _ => (m, [])     (* cancellation is treated in Model.v; a call cancelled inside a listener leaves the later
                               listeners untold, which the property does not exclude *)
  end.

Fixpoint lrun (ls : list bool) (m : lmach) (es : list ev) : lmach * list lobs :=
  match es with
  | [] => (m, [])
  | e :: r => let '(m1, o1) := lstep ls m e in
              let '(m2, o2) := lrun ls m1 r in (m2, o1 ++ o2)
  end.

Definition lidle (t : transfer) : lmach := mkL t 0 [] None [].

(* what listener x has been told *)
Definition seen1 (x : nat) (o : lobs) : list edge :=
  match o with LSeen j a b => if Nat.eqb j x then [(a, b)] else [] | LRet _ _ => [] end.
Definition seen (x : nat) (l : list lobs) : list edge := flat_map (seen1 x) l.

Definition lobs_documented (l : list lobs) : Prop := forall li a b, In (LSeen li a b) l -> documented a b = true.

(* ---------- every listener is only told documented edges ---------- *)
Lemma notify_in : forall ls li a b o k x c d, notify ls li a b = (o, k) -> In (LSeen x c d) o -> c = a /\ d = b.
Proof.
  induction ls as [|s r IH]; intros li a b o k x c d E I; cbn in E.
  - inv E. destruct I.
  - destruct s.
    + inv E. destruct I as [X|[]]. inv X. auto.
    + destruct (notify r (S li) a b) as [o1 k1] eqn:N. inv E. destruct I as [X|I]; [inv X; auto|].
      eapply IH; eassumption.
Qed.

Definition linv (m : lmach) : Prop :=
  match l_holder m with
  | None => True
  | Some (LBody h) => cont_ok (t_state (l_t m)) (h_k h) = true
  | Some (LNotify _ _ a b) => documented a b = true
  end.

Lemma lobs_documented_app : forall a b, lobs_documented a -> lobs_documented b -> lobs_documented (a ++ b).
Proof. intros a b Ha Hb li x y I. apply in_app_or in I. destruct I; eauto. Qed.
Lemma lobs_documented_ret : forall i r, lobs_documented [LRet i r].
Proof. intros i r li a b [E|[]]. discriminate. Qed.
Lemma lobs_documented_nil : lobs_documented [].
Proof. intros li a b []. Qed.

Lemma lfinish_ok : forall ls m ws id c t' ed k m' o,
  edges_documented ed -> (forall k2, k = Some k2 -> cont_ok (t_state t') k2 = true) ->
  lfinish ls m ws id c (t', ed, k) = (m', o) -> linv m' /\ lobs_documented o.
Proof.
  intros ls m ws id c t' ed k m' o D Hk H. unfold lfinish in H. destruct k as [k'|].
  - inv H. split; [unfold linv; cbn; apply Hk; reflexivity | apply lobs_documented_nil].
  - unfold after_body in H. destruct ed as [|[a b] ed'].
    + inv H. split; [exact I | apply lobs_documented_ret].
    + destruct (notify ls 0 a b) as [o1 k1] eqn:N.
      assert (Dab : documented a b = true) by (apply D; left; reflexivity).
      assert (Do : lobs_documented o1).
      { intros li x y In1. destruct (notify_in _ _ _ _ _ _ _ _ _ N In1) as [-> ->]. exact Dab. }
      destruct k1 as [j|]; inv H.
      * split; [unfold linv; cbn; exact Dab | exact Do].
      * split; [exact I | apply lobs_documented_app; [exact Do | apply lobs_documented_ret]].
Qed.

Lemma lacquire_ok : forall ls m p ws m' o, lacquire ls m p ws = (m', o) -> linv m' /\ lobs_documented o.
Proof.
  intros ls m p ws m' o H. unfold lacquire in H. rewrite redispatch_is_true in H.
  destruct (trans (t_state (l_t m)) (t_dir (l_t m)) (c_op (p_call p))) as [effs|] eqn:T.
  - destruct (exec (p_call p) (l_t m) (map MEff effs)) as [[t' ed] k] eqn:X.
    destruct (exec_ok _ _ _ _ _ _ (proj1 (trans_ok _ _ _ _ T)) X) as [D Hk].
    eapply lfinish_ok; eassumption.
  - inv H. split; [exact I | apply lobs_documented_ret].
Qed.

Lemma lstep_ok : forall ls m e m' o, linv m -> lstep ls m e = (m', o) -> linv m' /\ lobs_documented o.
Proof.
  intros ls m e m' o I H. destruct e as [c|i| | |i]; cbn [lstep] in H.
  - inv H. split; [exact I | apply lobs_documented_nil].
  - destruct (take i (l_created m)) as [[p rest]|]; [|inv H; split; [exact I | apply lobs_documented_nil]].
    destruct (l_holder m) as [h|] eqn:Hh.
    + inv H. split; [|apply lobs_documented_nil]. unfold linv in *. cbn. rewrite Hh in I. exact I.
    + destruct (l_waiters m).
      * eapply lacquire_ok. exact H.
      * inv H. split; [|apply lobs_documented_nil]. unfold linv. cbn. exact Logic.I.
  - unfold linv in I. destruct (l_holder m) as [[h|id j a b]|] eqn:Hh.
    + destruct (resume (h_call h) (l_t m) (h_k h)) as [[t' ed] k] eqn:R.
      destruct (resume_ok _ _ _ _ _ _ I R) as [D Hk]. eapply lfinish_ok; eassumption.
    + destruct (notify (skipn (S j) ls) (S j) a b) as [o1 k1] eqn:N.
      assert (Do : lobs_documented o1).
      { intros li x y In1. destruct (notify_in _ _ _ _ _ _ _ _ _ N In1) as [-> ->]. exact I. }
      destruct k1 as [j'|]; inv H.
      * split; [unfold linv; cbn; exact I | exact Do].
      * split; [exact Logic.I | apply lobs_documented_app; [exact Do | apply lobs_documented_ret]].
    + inv H. split; [unfold linv; rewrite Hh; exact Logic.I | apply lobs_documented_nil].
  - destruct (l_holder m) as [h|] eqn:Hh; [inv H; split; [exact I | apply lobs_documented_nil]|].
    destruct (l_waiters m) as [|p ws]; [inv H; split; [exact I | apply lobs_documented_nil]|].
    eapply lacquire_ok. exact H.
  - inv H. split; [exact I | apply lobs_documented_nil].
Qed.

Lemma lrun_ok : forall ls es m, linv m -> lobs_documented (snd (lrun ls m es)).
Proof.
  induction es as [|e r IH]; intros m I; [apply lobs_documented_nil|].
  cbn [lrun]. destruct (lstep ls m e) as [m1 o1] eqn:S. destruct (lrun ls m1 r) as [m2 o2] eqn:R. cbn [snd].
  destruct (lstep_ok _ _ _ _ _ I S) as [I1 D1]. apply lobs_documented_app; [exact D1|].
  specialize (IH m1 I1). rewrite R in IH. exact IH.
Qed.

Lemma listeners_documented_thm : forall ls es m, l_holder m = None -> lobs_documented (snd (lrun ls m es)).
Proof. intros ls es m H. apply lrun_ok. unfold linv. rewrite H. exact I. Qed.

(* ---------- all listeners are told the same chain ---------- *)
Lemma seen_app : forall x a b, seen x (a ++ b) = seen x a ++ seen x b.
Proof. intros. unfold seen. apply flat_map_app. Qed.

(* notify ls li tells exactly the listeners li .. upto-1 *)
Lemma notify_spec : forall ls li a b o k, notify ls li a b = (o, k) ->
  let upto := match k with Some j => S j | None => li + length ls end in
  (match k with Some j => li <= j < li + length ls | None => True end) /\
  forall x, (li <= x < upto -> seen x o = [(a, b)]) /\ (~ (li <= x < upto) -> seen x o = []).
Proof.
  induction ls as [|s r IH]; intros li a b o k E; cbn in E.
  - inv E. cbn. split; [exact I|]. intros x. split; [lia|reflexivity].
  - destruct s.
    + inv E. cbn [length]. split; [lia|]. intros x. cbn. destruct (Nat.eqb_spec li x).
      * split; [reflexivity|lia].
      * split; [lia|reflexivity].
    + destruct (notify r (S li) a b) as [o1 k1] eqn:N. inv E. specialize (IH (S li) a b o1 k N). cbv zeta in IH.
      destruct IH as [B S0]. cbn [length]. split.
      * destruct k; [lia|exact I].
      * intros x. specialize (S0 x). destruct S0 as [S1 S2]. cbn [seen flat_map seen1]. fold (seen x o1).
        destruct (Nat.eqb_spec li x).
        -- subst x. split; [intros _; rewrite S2; [reflexivity|lia]|].
           intros C. exfalso. apply C. destruct k; lia.
        -- cbn [app]. split; intros C.
           ++ apply S1. destruct k; lia.
           ++ apply S2. destruct k; lia.
Qed.

Definition told_same (n : nat) (m : lmach) (acc : list lobs) : Prop :=
  match l_holder m with
  | Some (LNotify _ j a b) =>
      j < n /\ forall x, x < n -> (x <= j -> seen x acc = seen 0 acc) /\ (j < x -> seen x acc ++ [(a, b)] = seen 0 acc)
  | _ => forall x, x < n -> seen x acc = seen 0 acc
  end.

Lemma no_seen : forall x o, (forall li a b, ~ In (LSeen li a b) o) -> seen x o = [].
Proof.
  induction o as [|y o IH]; intros H; [reflexivity|]. cbn. destruct y as [li a b|i r].
  - exfalso. eapply H. left. reflexivity.
  - cbn. apply IH. intros li a b I. eapply H. right. exact I.
Qed.

Lemma seen_ret : forall x o i r, seen x (o ++ [LRet i r]) = seen x o.
Proof. intros. rewrite seen_app. cbn. apply app_nil_r. Qed.

Lemma lfinish_same : forall ls m ws id c r m' o acc,
  (forall x, x < length ls -> seen x acc = seen 0 acc) ->
  lfinish ls m ws id c r = (m', o) -> told_same (length ls) m' (acc ++ o).
Proof.
  intros ls m ws id c [[t' ed] k] m' o acc S H. unfold lfinish in H. destruct k as [k'|].
  - inv H. unfold told_same. cbn [l_holder]. intros x Hx. rewrite app_nil_r. apply S. exact Hx.
  - unfold after_body in H. destruct ed as [|[a b] ed'].
    + inv H. unfold told_same. cbn [l_holder]. intros x Hx. rewrite !seen_ret. apply S. exact Hx.
    + destruct (notify ls 0 a b) as [o1 k1] eqn:N. pose proof (notify_spec _ _ _ _ _ _ N) as [B Sp]. cbv zeta in Sp.
      destruct k1 as [j|]; inv H; unfold told_same; cbn [l_holder].
      * split; [lia|]. intros x Hx. rewrite !seen_app. destruct (Sp 0) as [Z1 _]. rewrite (Z1 ltac:(lia)).
        destruct (Sp x) as [X1 X2]. split; intros C.
        -- rewrite (X1 ltac:(lia)), (S x Hx). reflexivity.
        -- rewrite (X2 ltac:(lia)), app_nil_r, (S x Hx). reflexivity.
      * intros x Hx. rewrite !app_assoc, !seen_ret, !seen_app. destruct (Sp 0) as [Z1 _]. destruct (Sp x) as [X1 _].
        rewrite (Z1 ltac:(lia)), (X1 ltac:(lia)), (S x Hx). reflexivity.
Qed.

Lemma lacquire_same : forall ls m p ws m' o acc,
  (forall x, x < length ls -> seen x acc = seen 0 acc) ->
  lacquire ls m p ws = (m', o) -> told_same (length ls) m' (acc ++ o).
Proof.
  intros ls m p ws m' o acc S H. unfold lacquire in H.
  destruct (trans (if redispatch_after_lock then t_state (l_t m) else p_cap p) (t_dir (l_t m)) (c_op (p_call p))).
  - eapply lfinish_same; eassumption.
  - inv H. unfold told_same. cbn [l_holder]. intros x Hx. rewrite !seen_ret. apply S. exact Hx.
Qed.

Lemma lstep_same : forall ls m e m' o acc, told_same (length ls) m acc -> lstep ls m e = (m', o) ->
  told_same (length ls) m' (acc ++ o).
Proof.
  intros ls m e m' o acc T H. destruct e as [c|i| | |i]; cbn [lstep] in H.
  - inv H. rewrite app_nil_r. exact T.
  - destruct (take i (l_created m)) as [[p rest]|]; [|inv H; rewrite app_nil_r; exact T].
    destruct (l_holder m) as [h|] eqn:Hh.
    + inv H. rewrite app_nil_r. unfold told_same in *. cbn. rewrite Hh in T. exact T.
    + destruct (l_waiters m).
      * eapply lacquire_same; [|exact H]. unfold told_same in T. rewrite Hh in T. exact T.
      * inv H. rewrite app_nil_r. unfold told_same in *. cbn. rewrite Hh in T. exact T.
  - unfold told_same in T. destruct (l_holder m) as [[h|id j a b]|] eqn:Hh.
    + eapply lfinish_same; [exact T|exact H].
    + destruct T as [Hj T]. destruct (notify (skipn (S j) ls) (S j) a b) as [o1 k1] eqn:N.
      pose proof (notify_spec _ _ _ _ _ _ N) as [B Sp]. cbv zeta in Sp.
      assert (Len : S j + length (skipn (S j) ls) = length ls) by (rewrite skipn_length; lia).
      destruct k1 as [j'|]; inv H; unfold told_same; cbn [l_holder].
      * split; [lia|]. intros x Hx. rewrite !seen_app. destruct (Sp 0) as [_ Z2]. rewrite (Z2 ltac:(lia)), app_nil_r.
        destruct (T x Hx) as [T1 T2]. destruct (Sp x) as [X1 X2]. split; intros C.
        -- destruct (le_lt_dec x j) as [L|G].
           ++ rewrite (X2 ltac:(lia)), app_nil_r. apply T1. exact L.
           ++ rewrite (X1 ltac:(lia)). apply T2. exact G.
        -- rewrite (X2 ltac:(lia)), app_nil_r. apply T2. lia.
      * intros x Hx. rewrite !app_assoc, !seen_ret, !seen_app. destruct (Sp 0) as [_ Z2]. rewrite (Z2 ltac:(lia)), app_nil_r.
        destruct (T x Hx) as [T1 T2]. destruct (Sp x) as [X1 X2]. destruct (le_lt_dec x j) as [L|G].
        -- rewrite (X2 ltac:(lia)), app_nil_r. apply T1. exact L.
        -- rewrite (X1 ltac:(lia)). apply T2. exact G.
    + inv H. rewrite app_nil_r. unfold told_same. rewrite Hh. exact T.
  - destruct (l_holder m) as [h|] eqn:Hh; [inv H; rewrite app_nil_r; exact T|].
    destruct (l_waiters m) as [|p ws]; [inv H; rewrite app_nil_r; exact T|].
    eapply lacquire_same; [|exact H]. unfold told_same in T. rewrite Hh in T. exact T.
  - inv H. rewrite app_nil_r. exact T.
Qed.

Lemma lrun_same : forall ls es m acc, told_same (length ls) m acc ->
  told_same (length ls) (fst (lrun ls m es)) (acc ++ snd (lrun ls m es)).
Proof.
  induction es as [|e r IH]; intros m acc T; cbn [lrun fst snd]; [rewrite app_nil_r; exact T|].
  destruct (lstep ls m e) as [m1 o1] eqn:S. destruct (lrun ls m1 r) as [m2 o2] eqn:R. cbn [fst snd].
  pose proof (lstep_same _ _ _ _ _ _ T S) as T1. specialize (IH m1 (acc ++ o1) T1). rewrite R in IH. cbn [fst snd] in IH.
  rewrite app_assoc. exact IH.
Qed.

Lemma listeners_same_chain_thm : forall ls es t,
  told_same (length ls) (fst (lrun ls (lidle t) es)) (snd (lrun ls (lidle t) es)).
Proof.
  intros ls es t. pose proof (lrun_same ls es (lidle t) []) as H. cbn [app] in H. apply H.
  unfold told_same, lidle. cbn. intros x _. reflexivity.
Qed.
