(* C03 specification: the DOCUMENTED transfer state graph.
   Transcribed edge by edge from the PlantUML source embedded in /repo/docs/diagrams/Transfer States.png
   (see /verif/pinned/state_graph.json; checks/c03.py verifies on every run that this list, the pinned
   JSON and the diagram source in the repository under test are the same set of edges).
   The documentation is the specification: this file does not depend on transfer/state.py except for
   the names of the states (SlskGen.TransGen.st). *)
From Coq Require Import List Bool.
From SlskGen Require Import TransGen.
Import ListNotations.

Scheme Equality for st.

(* BEGIN documented_edges *)
Definition documented_edges : list (st * st) := [
  (VIRGIN, QUEUED);
  (VIRGIN, PAUSED);
  (QUEUED, INITIALIZING);
  (QUEUED, FAILED);
  (QUEUED, ABORTED);
  (QUEUED, PAUSED);
  (INITIALIZING, QUEUED);
  (INITIALIZING, FAILED);
  (INITIALIZING, ABORTED);
  (INITIALIZING, PAUSED);
  (INITIALIZING, DOWNLOADING);
  (INITIALIZING, UPLOADING);
  (DOWNLOADING, FAILED);
  (DOWNLOADING, ABORTED);
  (DOWNLOADING, PAUSED);
  (DOWNLOADING, INCOMPLETE);
  (DOWNLOADING, COMPLETE);
  (UPLOADING, FAILED);
  (UPLOADING, ABORTED);
  (UPLOADING, PAUSED);
  (UPLOADING, COMPLETE);
  (COMPLETE, QUEUED);
  (INCOMPLETE, QUEUED);
  (INCOMPLETE, INITIALIZING);
  (INCOMPLETE, FAILED);
  (INCOMPLETE, ABORTED);
  (INCOMPLETE, PAUSED);
  (FAILED, QUEUED);
  (PAUSED, QUEUED);
  (PAUSED, ABORTED);
  (PAUSED, FAILED);
  (ABORTED, QUEUED)
].
(* END documented_edges *)

Definition initial_state : st := VIRGIN.

Definition documented (a b : st) : bool :=
  existsb (fun e => st_beq (fst e) a && st_beq (snd e) b) documented_edges.

(* USAGE.rst, "Possible States": DOWNLOADING / INCOMPLETE only exist for downloads, UPLOADING for uploads *)
Definition dir_ok (d : direction) (s : st) : bool :=
  match d, s with
  | Upload, DOWNLOADING => false
  | Upload, INCOMPLETE => false
  | Download, UPLOADING => false
  | _, _ => true
  end.
