(* C03 specification: the DOCUMENTED transfer state graph.
   Transcribed edge by edge from the PlantUML source embedded in /repo/docs/diagrams/Transfer States.png
   (see /verif/pinned/state_graph.json; checks/c03.py verifies on every run that this list, the pinned
   JSON and the diagram source in the repository under test are the same set of edges).
   The documentation is the specification: this file does not depend on transfer/state.py except for
   the names of the states (SlskGen.TransGen.st). *)
From Coq Require Import List Bool.
From SlskGen Require Import TransGen.
Import ListNotations.

Scheme Equality for st.

(* BEGIN documented_edges *)
Definition documented_edges : list (st * st) := [
  (VIRGIN, QUEUED);
  (VIRGIN, PAUSED);
  (QUEUED, INITIALIZING);
  (QUEUED, FAILED);
  (QUEUED, ABORTED);
  (QUEUED, PAUSED);
  (INITIALIZING, QUEUED);
  (INITIALIZING, FAILED);
  (INITIALIZING, ABORTED);
  (INITIALIZING, PAUSED);
  (INITIALIZING, DOWNLOADING);
  (INITIALIZING, UPLOADING);
  (DOWNLOADING, FAILED);
  (DOWNLOADING, ABORTED);
  (DOWNLOADING, PAUSED);
  (DOWNLOADING, INCOMPLETE);
  (DOWNLOADING, COMPLETE);
  (UPLOADING, FAILED);
  (UPLOADING, ABORTED);
  (UPLOADING, PAUSED);
  (UPLOADING, COMPLETE);
  (COMPLETE, QUEUED);
  (INCOMPLETE, QUEUED);
  (INCOMPLETE, INITIALIZING);
  (INCOMPLETE, FAILED);
  (INCOMPLETE, ABORTED);
  (INCOMPLETE, PAUSED);
  (FAILED, QUEUED);
  (PAUSED, QUEUED);
  (PAUSED, ABORTED);
  (PAUSED, FAILED);
  (ABORTED, QUEUED)
].
(* END documented_edges *)

Definition initial_state : st := VIRGIN.

Definition documented (a b : st) : bool :=
  existsb (fun e => st_beq (fst e) a && st_beq (snd e) b) documented_edges.

(* USAGE.rst, "Possible States": DOWNLOADING / INCOMPLETE only exist for downloads, UPLOADING for uploads *)
Definition dir_ok (d : direction) (s : st) : bool :=
  match d, s with
  | Upload, DOWNLOADING => false
  | Upload, INCOMPLETE => false
  | Download, UPLOADING => false
  | _, _ => true
  end.

(* Documented side effects of the operations (what a successful operation must at least do):
   - TransferManager.abort docstring + USAGE.rst "Managing Transfer States": aborting cancels the pending
     transfer tasks, removes the partially downloaded file (downloads), and records an abort_reason
     (USAGE.rst state table, ABORTED);
   - USAGE.rst state table, FAILED: fail_reason records the reason;
   - pausing stops the activity: the transfer's tasks are cancelled (every state that can own tasks);
   - Transfer.start_time / complete_time docstrings (transfer/model.py): start_time is the time the transfer
     entered DOWNLOADING/UPLOADING; complete_time the time it went from there to COMPLETE, INCOMPLETE,
     ABORTED or FAILED;
   - USAGE.rst: re-queueing an aborted download restarts it from the beginning; re-queueing a completed
     download downloads the file again to a new location;
   - queue(remotely) records the remotely_queued mark. *)
Definition effect_beq (a b : effect) : bool :=
  match a, b with
  | SetFailReason, SetFailReason | ClearFailReason, ClearFailReason | SetAbortReason, SetAbortReason
  | ClearAbortReason, ClearAbortReason | SetRemotelyQueued, SetRemotelyQueued | CancelTasks, CancelTasks
  | RemoveLocalFile, RemoveLocalFile | ResetTimeVars, ResetTimeVars | ResetProgressVars, ResetProgressVars
  | ResetLocalVars, ResetLocalVars | SetStartTime, SetStartTime | SetCompleteTime, SetCompleteTime
  | ResetQueueVars, ResetQueueVars => true
  | Transition x, Transition y => st_beq x y
  | _, _ => false
  end.

Definition is_dl (d : direction) : bool := match d with Download => true | Upload => false end.
Definition transferring (s : st) : bool := match s with DOWNLOADING | UPLOADING => true | _ => false end.
Definition final_like (s : st) : bool := match s with COMPLETE | INCOMPLETE | ABORTED | FAILED => true | _ => false end.

Definition required (s : st) (d : direction) (o : op) (s' : st) : list effect :=
  (match o with
   | OAbort => [CancelTasks; SetAbortReason] ++ (if is_dl d then [RemoveLocalFile] else [])
   | OFail => [SetFailReason]
   | OPause => match s with VIRGIN => [] | _ => [CancelTasks] end
   | OQueue => [SetRemotelyQueued] ++
               (if is_dl d then match s with
                                | ABORTED => [ResetProgressVars]
                                | COMPLETE => [ResetProgressVars; ResetLocalVars]
                                | _ => [] end else [])
   | _ => []
   end) ++
  (if transferring s' then [SetStartTime] else []) ++
  (if transferring s && final_like s' then [SetCompleteTime] else []).
