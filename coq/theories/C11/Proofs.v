(* C11 proofs: case analysis over the finite part of the script, lia over the times. *)
From Slsk Require Import Base.Tac.
From SlskGen Require Import PortGen.
From Slsk Require Import C11.Model.
Open Scope Z_scope.
#[local] Arguments Z.add : simpl never.
#[local] Arguments Z.max : simpl never.
#[local] Arguments Z.ltb : simpl never.
#[local] Arguments Z.leb : simpl never.

Ltac unf := unfold result, no_cancel, fallback_nc, race_nc, cancelled_at, direct, indirect, connect_end, lookup,
  d_connecting, running_at, end_time, ind_fail_residue, server_alive, direct_ok, indirect_ok, lookup_ok, returns,
  residue_free, PEER_CONNECT_TIMEOUT, PEER_INDIRECT_CONNECT_TIMEOUT, LOOKUP_HAS_TIMEOUT, LOOKUP_TIMEOUT in *.

Ltac cases :=
  repeat match goal with
  | |- context [if ?b then _ else _] => let E := fresh "E" in destruct b eqn:E
  | H : context [if ?b then _ else _] |- _ => let E := fresh "E" in destruct b eqn:E
  end.

(* the lookup of the direct attempt has no timeout today; the theorems below that need it to end say so *)
Definition lookup_ends (s : script) : Prop := LOOKUP_HAS_TIMEOUT = true \/ ad s <> ANoReply.

Lemma success_iff_partial s :
  cancel s = None -> (md s = Race \/ lookup_ends s) ->
  (returns (result s) = true <-> direct_ok s = true \/ indirect_ok s = true).
Proof.
  destruct s as [m a adl d dd i idl c]. cbn. intros -> Hm. unfold lookup_ends in Hm. cbn in Hm.
  destruct m, a, d, i; unf; cbn; cases; cbn; split; intros; try tauto; try discriminate; try lia;
    try (destruct Hm as [?|[?|?]]; congruence); intuition (try discriminate; try lia).
Qed.

Lemma success_iff_refuted :
  exists s, cancel s = None /\ delays_ok s /\ indirect_ok s = true /\ returns (result s) = false.
Proof.
  exists (mkS Fallback ANoReply 0 DOk 0 IPierce 0 None). unfold delays_ok. cbn. repeat split; try lia; reflexivity.
Qed.

Lemma terminates_partial s :
  cancel s = None -> lookup_ends s -> delays_ok s ->
  out (result s) <> OHang /\
  exists t, at_time (result s) = Some t /\
            t <= ad_delay s + Z.max LOOKUP_TIMEOUT 0 + PEER_CONNECT_TIMEOUT + PEER_INDIRECT_CONNECT_TIMEOUT.
Proof.
  destruct s as [m a adl d dd i idl c]. unfold delays_ok, lookup_ends. cbn. intros -> Hm (H1 & H2 & H3).
  destruct m, a, d, i; unf; cbn; cases; cbn; (split; [try discriminate; try (destruct Hm; congruence)|]);
    try (destruct Hm; congruence); eexists; (split; [reflexivity|]); lia.
Qed.

Lemma terminates_refuted :
  exists s, cancel s = None /\ delays_ok s /\ out (result s) = OHang.
Proof. exists (mkS Fallback ANoReply 0 DOk 0 IPierce 0 None). unfold delays_ok. cbn. repeat split; lia. Qed.

Lemma terminates_refuted_race :
  exists s, md s = Race /\ cancel s = None /\ delays_ok s /\ out (result s) = OHang.
Proof. exists (mkS Race ANoReply 0 DOk 0 ICannot 1 None). unfold delays_ok. cbn. repeat split; lia. Qed.

Lemma residue_free_partial s :
  md s = Fallback -> cancel s = None -> ir s <> ISendFail -> residue_free (result s) = true.
Proof.
  destruct s as [m a adl d dd i idl c]. cbn. intros -> -> Hi.
  destruct a, d, i; unf; cbn; cases; cbn; try reflexivity; congruence.
Qed.

(* F16: race mode, the direct attempt wins while the indirect one waits: both waiters stay registered *)
Lemma residue_free_refuted :
  exists s, cancel s = None /\ delays_ok s /\ returns (result s) = true /\ waiters (result s) = true.
Proof. exists (mkS Race AGiven 0 DOk 1 INothing 0 None). unfold delays_ok. cbn. repeat split; lia. Qed.

(* F15 seen from the request: race mode, the pierce arrives while the direct attempt is in open_connection *)
Lemma residue_free_refuted_connecting :
  exists s, cancel s = None /\ delays_ok s /\ returns (result s) = true /\ r_connecting (result s) = true.
Proof. exists (mkS Race AGiven 0 DOk 4 IPierce 2 None). unfold delays_ok. cbn. repeat split; lia. Qed.

(* cancelling the request: fallback leaves the waiters (F16) or the CONNECTING object (F15); race leaves both
   attempt tasks running *)
Lemma residue_free_refuted_cancel :
  exists s x, cancel s = Some x /\ out (result s) = OCancelled /\ waiters (result s) = true.
Proof. exists (mkS Fallback AGiven 0 DRefused 1 INothing 0 (Some 5)), 5. cbn. repeat split. Qed.

Lemma residue_free_refuted_cancel_race :
  exists s x, md s = Race /\ cancel s = Some x /\ out (result s) = OCancelled /\ orphans (result s) = true.
Proof. exists (mkS Race AGiven 0 DOk 3 INothing 0 (Some 2)), 2. cbn. repeat split. Qed.

(* what a request leaves behind is never more than: one CONNECTING object, the waiter pair, the orphan tasks;
   and a request that was not cancelled leaves no orphan tasks *)
Lemma no_orphans_without_cancel s : cancel s = None -> orphans (result s) = false.
Proof.
  destruct s as [m a adl d dd i idl c]. cbn. intros ->.
  destruct m, a, d, i; unf; cbn; cases; reflexivity.
Qed.

(* which attempt's connection is returned *)
Lemma returned_kind s w :
  cancel s = None -> out (result s) = ORet w ->
  match w with WDirect => direct_ok s = true | WIndirect => indirect_ok s = true end.
Proof.
  destruct s as [m a adl d dd i idl c]. cbn. intros ->.
  destruct m, a, d, i; unf; cbn; cases; cbn; intros H; inversion H; subst; cbn; try reflexivity; try lia; try discriminate.
Qed.

(* select_port (generated): the chosen port is an offered one, non-zero whenever one is offered, its flag says which
   one it is, and the preference decides when both are offered *)
Lemma select_port_spec pref p o :
  let '(q, obf) := select_port pref p o in
  (obf = true -> q = o) /\ (obf = false -> q = p /\ p <> 0) /\
  ((p <> 0 \/ o <> 0) -> q <> 0) /\
  (p <> 0 -> o <> 0 -> obf = pref).
Proof.
  unfold select_port. destruct (Z.eqb_spec p 0), (Z.eqb_spec o 0), pref; cbn; repeat split; intros; try congruence; try tauto.
Qed.

Lemma responder_spec c w : responder true c w = PierceSent \/ responder true c w = CannotConnectReported.
Proof. destruct c, w; cbn; tauto. Qed.

Lemma responder_pierce_iff so c w : responder so c w = PierceSent <-> (c = RcOk /\ w = RsOk).
Proof. destruct so, c, w; cbn; split; intros; try discriminate; try tauto; destruct H; discriminate. Qed.

(* with the server connection closing, the failure report is silently dropped *)
Lemma responder_refuted : exists c w, responder false c w = NothingReported.
Proof. exists RcFail, RsOk. reflexivity. Qed.
