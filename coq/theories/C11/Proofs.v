(* C11 proofs (phase 2, repaired code): case analysis over the finite part of the script, lia over the times.
   The clean-up flags and the lookup timeout are constants generated from the source; the proofs compute with
   them, so a source change that drops one of the constructs breaks the proof of the theorem that needs it. *)
From Slsk Require Import Base.Tac.
From SlskGen Require Import PortGen.
From Slsk Require Import C11.Model.
Open Scope Z_scope.
#[local] Arguments Z.add : simpl never.
#[local] Arguments Z.max : simpl never.
#[local] Arguments Z.ltb : simpl never.
#[local] Arguments Z.leb : simpl never.

Ltac unf := unfold result, no_cancel, fallback_nc, race_nc, cancelled_at, direct, indirect, connect_end, lookup,
  d_connecting, running_at, end_time, ind_fail_residue, ind_send_raises, SEND_FAILURE_DISCONNECT_DETACHED, ind_cancel_residue, dir_cancel_residue, loser_indirect, loser_direct,
  loser_orphan, F, server_alive, direct_ok, indirect_ok, lookup_ok, returns, residue_free,
  PEER_CONNECT_TIMEOUT, PEER_INDIRECT_CONNECT_TIMEOUT, LOOKUP_HAS_TIMEOUT, LOOKUP_TIMEOUT,
  CONNECT_CLOSES_ON_CANCEL, ATTEMPT_CLOSES_ON_CANCEL, INDIRECT_CLEANUP_ALWAYS, RACE_CANCELS_LOSER, RACE_DISCONNECTS_SECOND,
  DIRECT_FAILURES_FALL_BACK, RACE_CANCELS_ON_CANCEL, RACE_CANCEL_DISCONNECTS_FINISHED, RACE_CANCEL_COVERS_WINNER_PATH, cancelled_tie, INDIRECT_CLOSES_ARRIVED_ON_CANCEL, PIERCE_IGNORES_DONE_WAITER in *.

Ltac cases :=
  repeat match goal with
  | |- context [if ?b then _ else _] => let E := fresh "E" in destruct b eqn:E
  | H : context [if ?b then _ else _] |- _ => let E := fresh "E" in destruct b eqn:E
  end.

Lemma success_iff s :
  cancel s = None -> (returns (result s) = true <-> direct_ok s = true \/ indirect_ok s = true).
Proof.
  destruct s as [m a adl d dd i idl c sc ct]. cbn. intros ->.
  destruct m, a, d, i, sc; unf; cbn; cases; cbn; split; intros; try tauto; try discriminate; try lia;
    intuition (try discriminate; try lia).
Qed.

Lemma terminates s :
  cancel s = None -> delays_ok s ->
  out (result s) <> OHang /\
  exists t, at_time (result s) = Some t /\
            t <= ad_delay s + LOOKUP_TIMEOUT + PEER_CONNECT_TIMEOUT + PEER_INDIRECT_CONNECT_TIMEOUT.
Proof.
  destruct s as [m a adl d dd i idl c sc ct]. unfold delays_ok. cbn. intros -> (H1 & H2 & H3).
  destruct m, a, d, i, sc; unf; cbn; cases; cbn; (split; [discriminate|]);
    eexists; (split; [reflexivity|]); lia.
Qed.

(* a cancelled request ends at the moment of the cancellation *)
Lemma nc_not_cancelled s : out (no_cancel s) <> OCancelled.
Proof.
  destruct s as [m a adl d dd i idl c sc ct].
  destruct m, a, d, i, sc; unf; cbn; cases; cbn; discriminate.
Qed.

Lemma cancelled_at_time s x : at_time (cancelled_at s x) = Some x /\ out (cancelled_at s x) = OCancelled.
Proof.
  destruct s as [m a adl d dd i idl c sc ct].
  destruct m; unfold cancelled_at, F, RACE_CANCELS_ON_CANCEL; cbn; cases; cbn; split; reflexivity.
Qed.

Lemma cancelled_tie_facts s t a : at_time (cancelled_tie s t a) = Some t /\ out (cancelled_tie s t a) = OCancelled.
Proof. unfold cancelled_tie. cbn. split; reflexivity. Qed.

Lemma cancel_is_prompt s x :
  cancel s = Some x -> out (result s) = OCancelled -> at_time (result s) = Some x.
Proof.
  intros Hc. unfold result. rewrite Hc.
  destruct (at_time (no_cancel s)) as [t|]; [destruct (x <? t)|]; intros H;
    try (now apply cancelled_at_time).
  - destruct (Z.eqb_spec x t) as [->|]; [|now apply nc_not_cancelled in H].
    destruct (ctie s) as [[]|]; try (now apply cancelled_tie_facts); try (now apply nc_not_cancelled in H); cbn; reflexivity.
Qed.

Lemma dir_cancel_residue_false b : dir_cancel_residue b = false.
Proof. destruct b; reflexivity. Qed.
Lemma ind_cancel_residue_false : ind_cancel_residue = false.
Proof. reflexivity. Qed.
Lemma ind_fail_residue_false s : ind_fail_residue s = false.
Proof. unfold ind_fail_residue, INDIRECT_CLEANUP_ALWAYS. cbn. apply andb_false_r. Qed.

Lemma residue_free_cancelled s x : residue_free (cancelled_at s x) = true.
Proof.
  unfold cancelled_at, residue_free, F. destruct (md s); cbn.
  - destruct (running_at (direct s 0) x); cbn; now rewrite ?dir_cancel_residue_false, ?ind_cancel_residue_false.
  - unfold RACE_CANCELS_ON_CANCEL. cbn. rewrite dir_cancel_residue_false, ind_fail_residue_false.
    unfold ind_cancel_residue, INDIRECT_CLEANUP_ALWAYS. cbn. now rewrite !andb_false_r.
Qed.

Lemma residue_free_nc s : residue_free (no_cancel s) = true.
Proof.
  destruct s as [m a adl d dd i idl c sc ct].
  destruct m, a, d, i, sc; unf; unf; cbn; cases; cbn; try reflexivity; try discriminate; try lia.
Qed.

Lemma residue_free_tie s t a : residue_free (cancelled_tie s t a) = true.
Proof.
  pose proof (residue_free_cancelled s t) as R. unfold residue_free, cancelled_tie in *. cbn.
  repeat (apply andb_true_iff in R; destruct R as [R ?]).
  unfold RACE_CANCEL_DISCONNECTS_FINISHED, ATTEMPT_CLOSES_ON_CANCEL. destruct (md s), a; cbn;
    repeat (apply andb_true_iff; split); try assumption; reflexivity.
Qed.

Lemma residue_free_no_cancel s : cancel s = None -> residue_free (result s) = true.
Proof. intros H. unfold result. rewrite H. apply residue_free_nc. Qed.

(* every way a request can end leaves nothing behind -- except, today, a race-mode request that is cancelled while it already
   holds the winner's connection (finding C11-N4; the premise is void once the code covers that path) *)
Lemma residue_free_partial s :
  (RACE_CANCEL_COVERS_WINNER_PATH = true \/ md s = Fallback \/ ctie s <> Some CancelAwaitingLoser) ->
  residue_free (result s) = true.
Proof.
  intros Hp. unfold result. destruct (cancel s) as [x|]; [|apply residue_free_nc].
  destruct (at_time (no_cancel s)) as [t|]; [destruct (x <? t)|];
    try first [apply residue_free_cancelled | apply residue_free_nc].
  destruct (x =? t); [|apply residue_free_nc].
  destruct (ctie s) as [[]|]; try first [apply residue_free_tie | apply residue_free_nc].
  pose proof (residue_free_tie s t true) as R. unfold residue_free in *. cbn [r_connecting waiters orphans r_open].
  repeat (apply andb_true_iff in R; destruct R as [R ?]).
  repeat (apply andb_true_iff; split); try assumption.
  apply negb_true_iff. apply orb_false_iff. split; [now apply negb_true_iff|].
  destruct Hp as [Hp|[Hp|Hp]]; [now rewrite Hp|now rewrite Hp|congruence].
Qed.

Lemma residue_free_refuted :
  exists s x, md s = Race /\ cancel s = Some x /\ out (result s) = OCancelled /\ r_open (result s) = true.
Proof. exists (mkS Race AGiven 0 DOk 4 INothing 0 (Some 4) BothDone (Some CancelAwaitingLoser)), 4. cbn. repeat split. Qed.

Lemma returned_kind s w :
  cancel s = None -> out (result s) = ORet w -> either (result s) = false ->
  match w with WDirect => direct_ok s = true | WIndirect => indirect_ok s = true end.
Proof.
  destruct s as [m a adl d dd i idl c sc ct]. cbn. intros ->.
  destruct m, a, d, i, sc; unf; cbn; cases; cbn; intros H He; inversion H; subst; cbn; try reflexivity; try lia; try discriminate.
Qed.

(* on a tie with both attempts done either connection may be returned: then both paths work *)
Lemma returned_either s :
  cancel s = None -> either (result s) = true -> direct_ok s = true /\ indirect_ok s = true.
Proof.
  destruct s as [m a adl d dd i idl c sc ct]. cbn. intros ->.
  destruct m, a, d, i, sc; unf; cbn; cases; cbn; intros H; try discriminate; split; try reflexivity; lia.
Qed.

Lemma select_port_spec pref p o :
  let '(q, obf) := select_port pref p o in
  (obf = true -> q = o) /\ (obf = false -> q = p /\ p <> 0) /\
  ((p <> 0 \/ o <> 0) -> q <> 0) /\
  (p <> 0 -> o <> 0 -> obf = pref).
Proof.
  unfold select_port. destruct (Z.eqb_spec p 0), (Z.eqb_spec o 0), pref; cbn; repeat split; intros; try congruence; try tauto.
Qed.

Lemma responder_spec ex c w : responder ex true c w = PierceSent \/ responder ex true c w = CannotConnectReported.
Proof. destruct ex, c, w; cbn; tauto. Qed.

Lemma responder_pierce_iff ex so c w : responder ex so c w = PierceSent <-> (c = RcOk /\ w = RsOk).
Proof.
  destruct ex, so, c, w; cbn; unfold RESPONDER_REPORTS_WRITE_FAILURE; cbn; split; intros; try discriminate; try tauto; destruct H; discriminate.
Qed.

Lemma responder_write_failure ex : responder ex true RcOk RsFail = CannotConnectReported.
Proof. destruct ex; reflexivity. Qed.
