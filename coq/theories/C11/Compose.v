(* C11 over C10: the connection OBJECT of the direct attempt, run through the C10 connection machine.

   For every script without cancellation of the request, [direct_history s] is the C10 event history that
   create_peer_connection imposes on the PeerConnection object of its direct attempt (none when the attempt never
   gets past the address lookup).  The lemmas below connect the two models for all scripts:
     * the C10 machine ends quiescent on that history, and the object is in the registry iff the request returned it;
     * hence (C10_registry_exact) it is open iff returned, and C11's residue flag r_connecting agrees with the machine.
   The histories are also what the C11 correspondence runs observe per connection object (checks/c11.py `streams`). *)
From Slsk Require Import Base.Tac.
From SlskGen Require Import PortGen.
From Slsk Require C10.Model.
From Slsk Require Import C11.Model C11.Proofs.
Open Scope Z_scope.
#[local] Arguments Z.add : simpl never.
#[local] Arguments Z.ltb : simpl never.
#[local] Arguments Z.leb : simpl never.

Module M := C10.Model.

Inductive fate := NoObject | Completed | SecondSuccess | CancelledConnecting | CancelledInDrain.

(* the attempt runs to its own end *)
Definition natural_events (s : script) : list M.event :=
  [M.Create; M.ConnectStart] ++
  (if d_delay s <? PEER_CONNECT_TIMEOUT then
     match dr s with
     | DOk => [M.ConnectOk; M.SendInit M.SOk]
     | DRefused => [M.ConnectFail]
     | DHang => [M.ConnectTimeout]
     | DInitFail => [M.ConnectOk; M.SendInit M.SFail; M.DetachedRun; M.CloseDone]
     end
   else [M.ConnectTimeout]).

Definition has_object (s : script) : bool := match lookup s 0 with Succ _ => true | _ => false end.

Definition direct_fate (s : script) : fate :=
  if negb (has_object s) then NoObject else
  match md s with
  | Fallback => Completed
  | Race =>
      match direct s 0, indirect s 0 with
      | Succ td, Succ ti =>
          if td <? ti then Completed
          else if ti <? td then (if d_connecting s 0 ti then CancelledConnecting else NoObject)
          else match sched s with BothDone => SecondSuccess | DirectFirst => Completed | IndirectFirst => CancelledInDrain
                          | IndirectFirstConnecting => CancelledConnecting end
      | Fail td, Succ ti =>
          if td <? ti then Completed else if d_connecting s 0 ti then CancelledConnecting else NoObject
      | _, _ => Completed
      end
  end.

Definition direct_history (s : script) : list M.event :=
  match direct_fate s with
  | NoObject => []
  | Completed => natural_events s
  | SecondSuccess => natural_events s ++ [M.Disconnect M.RRequested; M.CloseDone]   (* connections[1].disconnect(REQUESTED) *)
  | CancelledConnecting => [M.Create; M.ConnectStart; M.Cancel]
  | CancelledInDrain => [M.Create; M.ConnectStart; M.ConnectOk; M.Cancel; M.CloseDone]
  end.

Definition direct_object (s : script) : M.conn := M.run (M.init M.Outgoing M.TP) (direct_history s).

Definition returned_direct (s : script) : bool :=
  match out (result s) with ORet WDirect => true | _ => false end.

Ltac cunf := unfold direct_object, direct_history, direct_fate, natural_events, has_object, returned_direct, result, no_cancel,
  fallback_nc, race_nc, direct, indirect, connect_end, lookup, d_connecting, running_at, end_time, ind_send_raises, server_alive,
  ind_fail_residue, ind_cancel_residue, dir_cancel_residue, loser_indirect, loser_direct, loser_orphan, F,
  DIRECT_FAILURES_FALL_BACK, PEER_CONNECT_TIMEOUT, PEER_INDIRECT_CONNECT_TIMEOUT, LOOKUP_HAS_TIMEOUT, LOOKUP_TIMEOUT in *.

Ltac cases :=
  repeat match goal with
  | |- context [if ?b then _ else _] => let E := fresh "E" in destruct b eqn:E
  end.

Lemma direct_object_registry s :
  cancel s = None -> delays_ok s ->
  let c := direct_object s in
  M.quiescent c = true /\ M.in_reg c = returned_direct s /\
  (M.in_reg c = true -> M.st c = M.CONNECTED /\ M.writer c = M.WOpen) /\
  (M.in_reg c = false -> M.writer c <> M.WOpen /\ M.st c <> M.CONNECTING).
Proof.
  destruct s as [m a adl d dd i idl c sc ct]. unfold delays_ok. cbn. intros -> (H1 & H2 & H3).
  destruct m, a, d, i, sc; cunf; cunf; cbn -[M.run M.init]; cases; try lia;
    vm_compute; repeat split; intros; try discriminate; try reflexivity.
Qed.

(* the residue flags of the script model agree with the machine: nothing of the direct attempt is left behind *)
Lemma direct_object_no_residue s :
  cancel s = None -> delays_ok s ->
  r_connecting (result s) = false /\
  (returned_direct s = false -> M.should_be_registered (direct_object s) = false).
Proof.
  intros Hc Hd. pose proof (direct_object_registry s Hc Hd) as (Hq & Hr & _ & Hn).
  split.
  - pose proof (residue_free_no_cancel s Hc) as R. unfold residue_free in R.
    repeat (apply andb_true_iff in R; destruct R as [R ?]). now apply negb_true_iff.
  - intros Hf. rewrite Hf in Hr. destruct (Hn Hr) as (Hw & Hs).
    unfold M.should_be_registered. destruct (M.kd (direct_object s)); cbn; try reflexivity;
      destruct (M.writer (direct_object s)); try congruence; destruct (M.at_ (direct_object s)); try reflexivity;
      destruct (M.st (direct_object s)); try reflexivity; congruence.
Qed.
