(* C11 property theorems, phase 2: the FULL statements about the repaired code (repairs F15, F15b, F16, F26,
   C11-N1, C11-N2, C11-N3).  Statements only; proofs in Proofs.v.  [result s] is what
   Network.create_peer_connection does under script s (Model.v); select_port, the timeouts and the presence of the
   clean-up constructs come from SlskGen.PortGen, regenerated from network.py / connection.py / constants.py on
   every run: if a construct disappears from the source the corresponding theorem stops being provable. *)
From Slsk Require Import Base.Tac.
From SlskGen Require Import PortGen.
From Slsk Require C10.Model C10.Proofs.
From Slsk Require Import C11.Model C11.Proofs C11.Compose.
Open Scope Z_scope.

(* a connection is returned iff the direct or the indirect path works: both modes, every timing, every tie schedule *)
Theorem C11_success_iff : forall s,
  cancel s = None -> (returns (result s) = true <-> direct_ok s = true \/ indirect_ok s = true).
Proof. exact success_iff. Qed.

(* the returned connection is the one of a path that worked; when both attempts finish in the same loop iteration
   either may be returned (then both paths work) and the other one is disconnected (C11_residue_free) *)
Theorem C11_type_and_init : forall s,
  cancel s = None ->
  (forall w, out (result s) = ORet w -> either (result s) = false ->
     match w with WDirect => direct_ok s = true | WIndirect => indirect_ok s = true end) /\
  (either (result s) = true -> direct_ok s = true /\ indirect_ok s = true).
Proof. intros s Hc. split; [intros w; now apply returned_kind|now apply returned_either]. Qed.

(* nothing is left behind -- whether the request returns, raises or is cancelled at any moment, in both modes:
   no non-returned connection in the registry (CONNECTING or open), no ticket / CannotConnect waiter, no attempt task *)
Theorem C11_residue_free_partial : forall s,
  (RACE_CANCEL_COVERS_WINNER_PATH = true \/ md s = Fallback \/ ctie s <> Some CancelAwaitingLoser) ->
  residue_free (result s) = true.
Proof. exact residue_free_partial. Qed.

(* finding C11-N4: race mode, the request is cancelled while it awaits the cancelled loser: the winner's connection stays
   open and registered with no owner *)
Theorem C11_residue_free_refuted :
  exists s x, md s = Race /\ cancel s = Some x /\ out (result s) = OCancelled /\ r_open (result s) = true.
Proof. exact residue_free_refuted. Qed.

(* the request ends within lookup delay + lookup timeout + connect timeout + indirect timeout *)
Theorem C11_terminates : forall s,
  cancel s = None -> delays_ok s ->
  out (result s) <> OHang /\
  exists t, at_time (result s) = Some t /\
            t <= ad_delay s + LOOKUP_TIMEOUT + PEER_CONNECT_TIMEOUT + PEER_INDIRECT_CONNECT_TIMEOUT.
Proof. exact terminates. Qed.

Theorem C11_cancel_is_prompt : forall s x,
  cancel s = Some x -> out (result s) = OCancelled -> at_time (result s) = Some x.
Proof. exact cancel_is_prompt. Qed.

Theorem C11_select_port_spec : forall pref p o,
  let '(q, obf) := select_port pref p o in
  (obf = true -> q = o) /\ (obf = false -> q = p /\ p <> 0) /\
  ((p <> 0 \/ o <> 0) -> q <> 0) /\
  (p <> 0 -> o <> 0 -> obf = pref).
Proof. exact select_port_spec. Qed.

(* responder: with an open server connection the peer gets a pierce or the server gets CannotConnect -- also when the
   connect succeeded and the PeerPierceFirewall write failed *)
Theorem C11_responder : forall existing c w,
  (responder existing true c w = PierceSent \/ responder existing true c w = CannotConnectReported) /\
  (forall so, responder existing so c w = PierceSent <-> (c = RcOk /\ w = RsOk)) /\
  responder existing true RcOk RsFail = CannotConnectReported.
Proof. intros ex c w. split; [apply responder_spec|split; [intros; apply responder_pierce_iff|apply responder_write_failure]]. Qed.

(* C11 over C10: the connection object of the direct attempt, run through the C10 connection machine on the event
   history the request imposes on it ([direct_history], Compose.v), ends quiescent; it is in the registry iff the
   request returned it; when returned it is CONNECTED with an open writer, otherwise it has no open writer and is not
   CONNECTING.  All scripts without cancellation, both modes, every tie schedule. *)
Theorem C11_direct_object_refines : forall s,
  cancel s = None -> delays_ok s ->
  let c := direct_object s in
  C10.Model.quiescent c = true /\ C10.Model.in_reg c = returned_direct s /\
  (C10.Model.in_reg c = true -> C10.Model.st c = C10.Model.CONNECTED /\ C10.Model.writer c = C10.Model.WOpen) /\
  (C10.Model.in_reg c = false -> C10.Model.writer c <> C10.Model.WOpen /\ C10.Model.st c <> C10.Model.CONNECTING).
Proof. exact direct_object_registry. Qed.

(* ... so the registry part of "nothing left behind" is C10's registry exactness applied to that object: it ought to be
   registered (open, or being opened) iff the request returned it *)
Theorem C11_registry_part_from_C10 : forall s,
  cancel s = None -> delays_ok s ->
  C10.Model.should_be_registered (direct_object s) = returned_direct s /\ r_connecting (result s) = false.
Proof.
  intros s Hc Hd. destruct (direct_object_registry s Hc Hd) as (Hq & Hr & _).
  split; [|now destruct (direct_object_no_residue s Hc Hd)].
  rewrite <- Hr. symmetry. unfold direct_object in *. now apply C10.Proofs.registry_exact.
Qed.

Example C11_nonvacuous :
  let s1 := mkS Fallback AReply 1 DRefused 2 IPierce 3 None BothDone None in
  let s2 := mkS Race AReply 1 DOk 2 ICannot 5 None BothDone None in
  let s3 := mkS Fallback ANoReply 0 DOk 0 IPierce 4 None BothDone None in          (* the former F26 witness *)
  let s4 := mkS Race AGiven 0 DOk 2 INothing 0 None BothDone None in               (* the former F16 witness *)
  let s5 := mkS Race AGiven 0 DOk 4 IPierce 4 None BothDone None in                (* tie, both done *)
  let s6 := mkS Race AGiven 0 DOk 5 INothing 0 (Some 3) BothDone None in           (* the former C11-N1 witness *)
  cancel s1 = None /\ delays_ok s1 /\ out (result s1) = ORet WIndirect /\ at_time (result s1) = Some 6 /\
  out (result s2) = ORet WDirect /\ at_time (result s2) = Some 3 /\
  out (result s3) = ORet WIndirect /\ at_time (result s3) = Some 14 /\
  out (result s4) = ORet WDirect /\ waiters (result s4) = false /\
  either (result s5) = true /\ r_open (result s5) = false /\
  out (result s6) = OCancelled /\ orphans (result s6) = false /\
  select_port true 40000 40001 = (40001, true).
Proof. unfold delays_ok. cbn. repeat split; lia. Qed.
