(* C11 property theorems (statements only; proofs in Proofs.v).  [result s] is what
   Network.create_peer_connection does under script s (Model.v); select_port and the timeouts come from
   SlskGen.PortGen, regenerated from network.py / constants.py on every run.
   Scripts with two things at the same instant are outside the model (ties are resolved by the loop's FIFO). *)
From Slsk Require Import Base.Tac.
From SlskGen Require Import PortGen.
From Slsk Require Import C11.Model C11.Proofs.
Open Scope Z_scope.

(* returns a connection iff the direct or the indirect path works -- in race mode always, in fallback mode only
   when the address lookup ends (it has no timeout today: finding F26) *)
Theorem C11_success_iff_partial : forall s,
  cancel s = None -> (md s = Race \/ lookup_ends s) ->
  (returns (result s) = true <-> direct_ok s = true \/ indirect_ok s = true).
Proof. exact success_iff_partial. Qed.

Theorem C11_success_iff_refuted :
  exists s, cancel s = None /\ delays_ok s /\ indirect_ok s = true /\ returns (result s) = false.
Proof. exact success_iff_refuted. Qed.

(* the returned connection is the one of a path that worked (direct: outgoing, PeerInit sent; indirect: the
   accepted connection whose PeerPierceFirewall carried our ticket) *)
Theorem C11_type_and_init : forall s w,
  cancel s = None -> out (result s) = ORet w ->
  match w with WDirect => direct_ok s = true | WIndirect => indirect_ok s = true end.
Proof. exact returned_kind. Qed.

Theorem C11_residue_free_partial : forall s,
  md s = Fallback -> cancel s = None -> ir s <> ISendFail -> residue_free (result s) = true.
Proof. exact residue_free_partial. Qed.

Theorem C11_residue_free_refuted :
  exists s, cancel s = None /\ delays_ok s /\ returns (result s) = true /\ waiters (result s) = true.
Proof. exact residue_free_refuted. Qed.

Theorem C11_residue_free_refuted_connecting :
  exists s, cancel s = None /\ delays_ok s /\ returns (result s) = true /\ r_connecting (result s) = true.
Proof. exact residue_free_refuted_connecting. Qed.

Theorem C11_residue_free_refuted_cancel :
  exists s x, cancel s = Some x /\ out (result s) = OCancelled /\ waiters (result s) = true.
Proof. exact residue_free_refuted_cancel. Qed.

Theorem C11_residue_free_refuted_cancel_race :
  exists s x, md s = Race /\ cancel s = Some x /\ out (result s) = OCancelled /\ orphans (result s) = true.
Proof. exact residue_free_refuted_cancel_race. Qed.

Theorem C11_no_orphans_without_cancel : forall s, cancel s = None -> orphans (result s) = false.
Proof. exact no_orphans_without_cancel. Qed.

Theorem C11_terminates_partial : forall s,
  cancel s = None -> lookup_ends s -> delays_ok s ->
  out (result s) <> OHang /\
  exists t, at_time (result s) = Some t /\
            t <= ad_delay s + Z.max LOOKUP_TIMEOUT 0 + PEER_CONNECT_TIMEOUT + PEER_INDIRECT_CONNECT_TIMEOUT.
Proof. exact terminates_partial. Qed.

Theorem C11_terminates_refuted :
  exists s, cancel s = None /\ delays_ok s /\ out (result s) = OHang.
Proof. exact terminates_refuted. Qed.

Theorem C11_terminates_refuted_race :
  exists s, md s = Race /\ cancel s = None /\ delays_ok s /\ out (result s) = OHang.
Proof. exact terminates_refuted_race. Qed.

Theorem C11_select_port_spec : forall pref p o,
  let '(q, obf) := select_port pref p o in
  (obf = true -> q = o) /\ (obf = false -> q = p /\ p <> 0) /\
  ((p <> 0 \/ o <> 0) -> q <> 0) /\
  (p <> 0 -> o <> 0 -> obf = pref).
Proof. exact select_port_spec. Qed.

(* responder: with an open server connection the peer gets a pierce or the server gets CannotConnect *)
Theorem C11_responder : forall c w,
  (responder true c w = PierceSent \/ responder true c w = CannotConnectReported) /\
  (forall so, responder so c w = PierceSent <-> (c = RcOk /\ w = RsOk)).
Proof. intros c w. split; [apply responder_spec|intros; apply responder_pierce_iff]. Qed.

Example C11_nonvacuous :
  let s1 := mkS Fallback AReply 1 DRefused 2 IPierce 3 None in
  let s2 := mkS Race AReply 1 DOk 2 ICannot 5 None in
  cancel s1 = None /\ lookup_ends s1 /\ delays_ok s1 /\ ir s1 <> ISendFail /\ out (result s1) = ORet WIndirect /\ at_time (result s1) = Some 6 /\
  out (result s2) = ORet WDirect /\ at_time (result s2) = Some 3 /\ select_port true 40000 40001 = (40001, true).
Proof. unfold lookup_ends, delays_ok. cbn. repeat split; try lia; try (right; discriminate); discriminate. Qed.
