(* C11 model: Network.create_peer_connection (network/network.py) as a function from a *script*
   (what the server and the peer do, and when; DESIGN C11 outcome/timing table) to what the request
   does and what it leaves behind.  Times are whole seconds of virtual time since the request
   started.  select_port and the timeouts are GENERATED (SlskGen.PortGen).

   Segments: direct = [address lookup] [open_connection under PEER_CONNECT_TIMEOUT] [send PeerInit];
   indirect = [register ticket waiter + CannotConnect waiter; send ConnectToPeer] [wait for pierce /
   CannotConnect under PEER_INDIRECT_CONNECT_TIMEOUT].  Cancellation lands in the segment that is
   running at that time.  Ties (two things at exactly the same instant) are resolved by the event
   loop's FIFO order and are NOT modelled: scripts with ties are excluded (premise [no_ties]).

   Definitions only; executable. *)
From Coq Require Import ZArith List Bool.
From SlskGen Require Import PortGen.
Import ListNotations.
Open Scope Z_scope.

Inductive mode := Fallback | Race.
Inductive addr := AGiven | AReply | ANoAddr | ANoReply | ASendFail.
  (* ip/port passed by the caller | GetPeerAddress answered | answered 0.0.0.0 / no ports | never answered |
     the GetPeerAddress write fails (the server connection closes itself) *)
Inductive dres := DOk | DRefused | DHang | DInitFail.
Inductive ires := IPierce | ICannot | INothing | ISendFail.

Record script := mkS {
  md : mode; ad : addr; ad_delay : Z; dr : dres; d_delay : Z; ir : ires; i_delay : Z; cancel : option Z }.

Inductive aout := Succ (t : Z) | Fail (t : Z) | Never.

Definition lookup (s : script) (t0 : Z) : aout :=
  match ad s with
  | AGiven => Succ t0
  | AReply => Succ (t0 + ad_delay s)
  | ANoAddr => Fail (t0 + ad_delay s)
  | ANoReply => if LOOKUP_HAS_TIMEOUT then Fail (t0 + LOOKUP_TIMEOUT) else Never
  | ASendFail => Fail t0
  end.

(* send_message on a closing server connection returns silently: after ASendFail nothing reaches the server *)
Definition server_alive (s : script) : bool := match ad s with ASendFail => false | _ => true end.

Definition connect_end (s : script) (t1 : Z) : aout :=
  if d_delay s <? PEER_CONNECT_TIMEOUT then
    match dr s with
    | DOk => Succ (t1 + d_delay s)
    | DRefused | DInitFail => Fail (t1 + d_delay s)
    | DHang => Fail (t1 + PEER_CONNECT_TIMEOUT)
    end
  else Fail (t1 + PEER_CONNECT_TIMEOUT).

Definition direct (s : script) (t0 : Z) : aout :=
  match lookup s t0 with
  | Succ t1 => connect_end s t1
  | Fail t => Fail t
  | Never => Never
  end.

Definition end_time (a : aout) : option Z := match a with Succ t | Fail t => Some t | Never => None end.
Definition running_at (a : aout) (x : Z) : bool := match end_time a with Some t => x <? t | None => true end.

(* at time x the direct attempt is inside open_connection (connection object created and registered) *)
Definition d_connecting (s : script) (t0 x : Z) : bool :=
  match lookup s t0 with
  | Succ t1 => (t1 <=? x) && running_at (connect_end s t1) x
  | _ => false
  end.

Definition indirect (s : script) (t0 : Z) : aout :=
  let alive := server_alive s in
  match ir s with
  | ISendFail => if alive then Fail t0 else Fail (t0 + PEER_INDIRECT_CONNECT_TIMEOUT)
  | IPierce => if alive && (i_delay s <? PEER_INDIRECT_CONNECT_TIMEOUT) then Succ (t0 + i_delay s)
               else Fail (t0 + PEER_INDIRECT_CONNECT_TIMEOUT)
  | ICannot => if alive && (i_delay s <? PEER_INDIRECT_CONNECT_TIMEOUT) then Fail (t0 + i_delay s)
               else Fail (t0 + PEER_INDIRECT_CONNECT_TIMEOUT)
  | INothing => Fail (t0 + PEER_INDIRECT_CONNECT_TIMEOUT)
  end.

(* the indirect attempt ended by itself through the exception of the ConnectToPeer write: the lines that
   cancel the waiters are never reached *)
Definition ind_fail_residue (s : script) : bool :=
  match ir s with ISendFail => server_alive s | _ => false end.

Inductive who := WDirect | WIndirect.
Inductive outc := ORet (w : who) | ORaise | OCancelled | OHang.

Record final := mkF {
  out : outc;
  at_time : option Z;
  r_connecting : bool;     (* a non-returned connection object left in Network.peer_connections, state CONNECTING *)
  waiters : bool;          (* the ticket waiter and the CannotConnect waiter are still registered *)
  orphans : bool           (* attempt tasks still running although the request is over *)
}.

Definition fallback_nc (s : script) : final :=
  match direct s 0 with
  | Succ t => mkF (ORet WDirect) (Some t) false false false
  | Never => mkF OHang None false false false
  | Fail t =>
      match indirect s t with
      | Succ t' => mkF (ORet WIndirect) (Some t') false false false
      | Fail t' => mkF ORaise (Some t') false (ind_fail_residue s) false
      | Never => mkF OHang None false false false
      end
  end.

Definition race_nc (s : script) : final :=
  let d := direct s 0 in let i := indirect s 0 in
  match d, i with
  | Succ td, Succ ti =>
      if td <? ti then mkF (ORet WDirect) (Some td) false true false            (* indirect cancelled while waiting *)
      else mkF (ORet WIndirect) (Some ti) (d_connecting s 0 ti) false false     (* direct cancelled where it is *)
  | Succ td, Fail ti =>
      if ti <? td then mkF (ORet WDirect) (Some td) false (ind_fail_residue s) false
      else mkF (ORet WDirect) (Some td) false true false
  | Fail td, Succ ti =>
      if td <? ti then mkF (ORet WIndirect) (Some ti) false false false
      else mkF (ORet WIndirect) (Some ti) (d_connecting s 0 ti) false false
  | Fail td, Fail ti => mkF ORaise (Some (Z.max td ti)) false (ind_fail_residue s) false
  | Never, Succ ti => mkF (ORet WIndirect) (Some ti) false false false
  | Never, Fail ti => mkF OHang None false (ind_fail_residue s) false
  | _, Never => mkF OHang None false false false
  end.

Definition no_cancel (s : script) : final :=
  match md s with Fallback => fallback_nc s | Race => race_nc s end.

(* the request task is cancelled at time x, before it is over *)
Definition cancelled_at (s : script) (x : Z) : final :=
  match md s with
  | Fallback =>
      let d := direct s 0 in
      if running_at d x then mkF OCancelled (Some x) (d_connecting s 0 x) false false
      else (* direct failed earlier (had it succeeded the request would be over): the indirect attempt is waiting *)
        mkF OCancelled (Some x) false true false
  | Race =>
      (* asyncio.wait does not cancel what it waits for: both attempt tasks keep running *)
      let d := direct s 0 in let i := indirect s 0 in
      mkF OCancelled (Some x) (running_at d x && d_connecting s 0 x)
          (running_at i x || ind_fail_residue s) (running_at d x || running_at i x)
  end.

Definition result (s : script) : final :=
  let f := no_cancel s in
  match cancel s with
  | None => f
  | Some x =>
      match at_time f with
      | Some t => if x <? t then cancelled_at s x else f
      | None => cancelled_at s x
      end
  end.

(* ---- the property's vocabulary, defined from the script (not assumed) ---- *)
Definition lookup_ok (s : script) : bool := match ad s with AGiven | AReply => true | _ => false end.
Definition direct_ok (s : script) : bool :=
  lookup_ok s && match dr s with DOk => true | _ => false end && (d_delay s <? PEER_CONNECT_TIMEOUT).
Definition indirect_ok (s : script) : bool :=
  match ir s with IPierce => true | _ => false end && (i_delay s <? PEER_INDIRECT_CONNECT_TIMEOUT) && server_alive s.
Definition returns (f : final) : bool := match out f with ORet _ => true | _ => false end.
Definition residue_free (f : final) : bool := negb (r_connecting f) && negb (waiters f) && negb (orphans f).

Definition delays_ok (s : script) : Prop := 0 <= ad_delay s /\ 0 <= d_delay s /\ 0 <= i_delay s.

(* ---- responder: Network._handle_connect_to_peer ---- *)
Inductive rconn := RcOk | RcFail.                 (* connect ok / refused or timed out *)
Inductive rsend := RsOk | RsFail.                 (* PeerPierceFirewall write ok / fails *)
Inductive rout := PierceSent | CannotConnectReported | NothingReported.
Definition responder (server_open : bool) (c : rconn) (w : rsend) : rout :=
  match c, w with
  | RcOk, RsOk => PierceSent
  | _, _ => if server_open then CannotConnectReported else NothingReported  (* send_message on a closing connection is silent *)
  end.
