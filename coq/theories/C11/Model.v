(* C11 model: Network.create_peer_connection (network/network.py) as a function from a *script*
   (what the server and the peer do, and when; DESIGN C11 outcome/timing table) to what the request
   does and what it leaves behind.  Times are whole seconds of virtual time since the request
   started.  select_port and the timeouts are GENERATED (SlskGen.PortGen).

   Segments: direct = [address lookup] [open_connection under PEER_CONNECT_TIMEOUT] [send PeerInit];
   indirect = [register ticket waiter + CannotConnect waiter; send ConnectToPeer] [wait for pierce /
   CannotConnect under PEER_INDIRECT_CONNECT_TIMEOUT].  Cancellation lands in the segment that is
   running at that time.  The clean-up constructs of the coroutines (except CancelledError / try-finally,
   see the flags of PortGen) are read from the source by the translator: the model describes the code
   with or without each of them, the theorems of Props.v need them present.
   TIES in race mode (both attempts succeed at the same instant): which of the three possible schedules the
   event loop produces is a component of the script ([sched]); the theorems hold for each.

   Definitions only; executable. *)
From Coq Require Import ZArith List Bool.
From SlskGen Require Import PortGen.
Import ListNotations.
Open Scope Z_scope.

Inductive mode := Fallback | Race.
Inductive addr := AGiven | AReply | ANoAddr | ANoReply | ASendFail.
  (* ip/port passed by the caller | GetPeerAddress answered | answered 0.0.0.0 / no ports | never answered |
     the GetPeerAddress write fails (the server connection closes itself) *)
Inductive dres := DOk | DRefused | DHang | DInitFail.
Inductive ires := IPierce | ICannot | INothing | ISendFail.

(* race mode, both attempts succeed at the same instant: both tasks are in `done` of one asyncio.wait | the direct
   one is seen first (the indirect attempt is still waiting and gets cancelled) | the indirect one is seen first
   (the direct attempt is cancelled inside the drain of its PeerInit write, connected but not initialised) *)
Inductive tie_sched := BothDone | DirectFirst | IndirectFirst | IndirectFirstConnecting.
  (* IndirectFirstConnecting: the indirect one is seen first while the direct attempt, due at the same instant, is still inside
     open_connection (its completion callback has not run yet): it is cancelled there *)

(* the request is cancelled at the very instant it would be over (cancel s = Some t with t = that instant, [ctie] says how the
   event loop orders things): the cancellation lands before the finishing attempt is done | after that attempt's task
   is done but before the request task resumed from its wait | after the request returned (no effect) *)
Inductive cancel_sched := CancelEarly | CancelAfterAttempt | CancelAwaitingLoser | CancelLate.
  (* CancelAwaitingLoser: race mode, the request task has resumed with the winner's connection, cancelled the loser and is
     awaiting it (or disconnecting a second success) when the cancellation lands *)

Record script := mkS {
  md : mode; ad : addr; ad_delay : Z; dr : dres; d_delay : Z; ir : ires; i_delay : Z; cancel : option Z;
  sched : tie_sched; ctie : option cancel_sched }.
(* cancel s = Some x without ctie: x stands for x + 1/2 (never the instant of another event) *)

Inductive aout := Succ (t : Z) | Fail (t : Z) | Never.

Definition lookup (s : script) (t0 : Z) : aout :=
  match ad s with
  | AGiven => Succ t0
  | AReply => Succ (t0 + ad_delay s)
  | ANoAddr => Fail (t0 + ad_delay s)
  | ANoReply => if LOOKUP_HAS_TIMEOUT then Fail (t0 + LOOKUP_TIMEOUT) else Never
  | ASendFail => Fail t0
  end.

(* send_message on a closing server connection returns silently: after ASendFail nothing reaches the server *)
Definition server_alive (s : script) : bool := match ad s with ASendFail => false | _ => true end.

Definition connect_end (s : script) (t1 : Z) : aout :=
  if d_delay s <? PEER_CONNECT_TIMEOUT then
    match dr s with
    | DOk => Succ (t1 + d_delay s)
    | DRefused | DInitFail => Fail (t1 + d_delay s)
    | DHang => Fail (t1 + PEER_CONNECT_TIMEOUT)
    end
  else Fail (t1 + PEER_CONNECT_TIMEOUT).

Definition direct (s : script) (t0 : Z) : aout :=
  match lookup s t0 with
  | Succ t1 => connect_end s t1
  | Fail t => Fail t
  | Never => Never
  end.

Definition end_time (a : aout) : option Z := match a with Succ t | Fail t => Some t | Never => None end.
Definition running_at (a : aout) (x : Z) : bool := match end_time a with Some t => x <? t | None => true end.

(* at time x the direct attempt is inside open_connection (connection object created and registered) *)
Definition d_connecting (s : script) (t0 x : Z) : bool :=
  match lookup s t0 with
  | Succ t1 => (t1 <=? x) && running_at (connect_end s t1) x
  | _ => false
  end.

(* the ConnectToPeer write of the indirect attempt raises: the scripted ISendFail on a live server connection, or -- when
   _send closes the connection from a detached task -- race mode with a failed GetPeerAddress write: the two attempts
   start in the same loop iteration, the server connection is not yet CLOSING when the indirect attempt writes, and the
   broken transport fails that write too (with the direct close, the connection is CLOSING at once and the write is
   silently skipped) *)
Definition ind_send_raises (s : script) : bool :=
  match ir s with ISendFail => server_alive s | _ => false end ||
  (SEND_FAILURE_DISCONNECT_DETACHED && match md s, ad s with Race, ASendFail => true | _, _ => false end).

Definition indirect (s : script) (t0 : Z) : aout :=
  let alive := server_alive s in
  if ind_send_raises s then Fail t0 else
  match ir s with
  | ISendFail => if alive then Fail t0 else Fail (t0 + PEER_INDIRECT_CONNECT_TIMEOUT)
  | IPierce => if alive && (i_delay s <? PEER_INDIRECT_CONNECT_TIMEOUT) then Succ (t0 + i_delay s)
               else Fail (t0 + PEER_INDIRECT_CONNECT_TIMEOUT)
  | ICannot => if alive && (i_delay s <? PEER_INDIRECT_CONNECT_TIMEOUT) then Fail (t0 + i_delay s)
               else Fail (t0 + PEER_INDIRECT_CONNECT_TIMEOUT)
  | INothing => Fail (t0 + PEER_INDIRECT_CONNECT_TIMEOUT)
  end.

(* the indirect attempt ended by itself through the exception of the ConnectToPeer write: the lines that
   cancel the waiters are never reached *)
Definition ind_fail_residue (s : script) : bool := ind_send_raises s && negb INDIRECT_CLEANUP_ALWAYS.

(* a cancelled indirect attempt (it always is inside its wait) leaves its two waiters unless the clean-up is in a finally *)
Definition ind_cancel_residue : bool := negb INDIRECT_CLEANUP_ALWAYS.
(* a direct attempt cancelled inside open_connection leaves its CONNECTING object unless connect() or the attempt closes it *)
Definition dir_cancel_residue (connecting : bool) : bool :=
  connecting && negb (CONNECT_CLOSES_ON_CANCEL || ATTEMPT_CLOSES_ON_CANCEL).

Inductive who := WDirect | WIndirect.
Inductive outc := ORet (w : who) | ORaise | OCancelled | OHang.

Record final := mkF {
  out : outc;
  at_time : option Z;
  r_connecting : bool;     (* a non-returned connection object left in Network.peer_connections, state CONNECTING *)
  waiters : bool;          (* the ticket waiter and the CannotConnect waiter are still registered *)
  orphans : bool;          (* attempt tasks still running although the request is over *)
  r_open : bool;           (* a non-returned OPEN connection left registered (second success / loser cancelled in its drain) *)
  either : bool            (* tie with both tasks done: which of the two connections is returned is the set order of `done` *)
}.

Definition F (o : outc) (t : option Z) (conn wait orph : bool) : final := mkF o t conn wait orph false false.

Definition fallback_nc (s : script) : final :=
  match direct s 0 with
  | Succ t => F (ORet WDirect) (Some t) false false false
  | Never => F OHang None false false false
  | Fail t =>
      if negb DIRECT_FAILURES_FALL_BACK then F ORaise (Some t) false false false else
      match indirect s t with
      | Succ t' => F (ORet WIndirect) (Some t') false false false
      | Fail t' => F ORaise (Some t') false (ind_fail_residue s) false
      | Never => F OHang None false false false
      end
  end.

(* what a losing attempt leaves when the winner is there at time t *)
Definition loser_indirect : bool := if RACE_CANCELS_LOSER then ind_cancel_residue else false.
Definition loser_direct (s : script) (t : Z) : bool :=
  if RACE_CANCELS_LOSER then dir_cancel_residue (d_connecting s 0 t) else false.
(* a loser that is not cancelled keeps running after the request returned *)
Definition loser_orphan : bool := negb RACE_CANCELS_LOSER.

Definition race_nc (s : script) : final :=
  let d := direct s 0 in let i := indirect s 0 in
  match d, i with
  | Succ td, Succ ti =>
      if td <? ti then F (ORet WDirect) (Some td) false loser_indirect loser_orphan
      else if ti <? td then F (ORet WIndirect) (Some ti) (loser_direct s ti) false loser_orphan
      else match sched s with
           | BothDone => mkF (ORet WIndirect) (Some ti) false false false (negb RACE_DISCONNECTS_SECOND) true
           | DirectFirst =>
               (* the pierce connection may already have been accepted when the indirect attempt is cancelled, or arrive in
                  the iteration before the cancelled waiter is removed: it must be closed in both cases *)
               mkF (ORet WDirect) (Some td) false loser_indirect loser_orphan
                   (RACE_CANCELS_LOSER && negb (INDIRECT_CLOSES_ARRIVED_ON_CANCEL && PIERCE_IGNORES_DONE_WAITER)) false
           | IndirectFirst =>
               mkF (ORet WIndirect) (Some ti) false false loser_orphan
                   (RACE_CANCELS_LOSER && negb ATTEMPT_CLOSES_ON_CANCEL) false
           | IndirectFirstConnecting =>
               F (ORet WIndirect) (Some ti) (if RACE_CANCELS_LOSER then dir_cancel_residue true else false) false loser_orphan
           end
  | Succ td, Fail ti =>
      if ti <? td then F (ORet WDirect) (Some td) false (ind_fail_residue s) false
      else F (ORet WDirect) (Some td) false loser_indirect loser_orphan
  | Fail td, Succ ti =>
      if td <? ti then F (ORet WIndirect) (Some ti) false false false
      else F (ORet WIndirect) (Some ti) (loser_direct s ti) false loser_orphan
  | Fail td, Fail ti => F ORaise (Some (Z.max td ti)) false (ind_fail_residue s) false
  | Never, Succ ti => F (ORet WIndirect) (Some ti) false false loser_orphan
  | Never, Fail ti => F OHang None false (ind_fail_residue s) false
  | _, Never => F OHang None false false false
  end.

Definition no_cancel (s : script) : final :=
  match md s with Fallback => fallback_nc s | Race => race_nc s end.

(* the request task is cancelled at time x, before it is over *)
Definition cancelled_at (s : script) (x : Z) : final :=
  match md s with
  | Fallback =>
      let d := direct s 0 in
      if running_at d x then F OCancelled (Some x) (dir_cancel_residue (d_connecting s 0 x)) false false
      else (* direct failed earlier (had it succeeded the request would be over): the indirect attempt is waiting *)
        F OCancelled (Some x) false ind_cancel_residue false
  | Race =>
      let d := direct s 0 in let i := indirect s 0 in
      if RACE_CANCELS_ON_CANCEL then
        F OCancelled (Some x) (running_at d x && dir_cancel_residue (d_connecting s 0 x))
          ((running_at i x && ind_cancel_residue) || ind_fail_residue s) false
      else
        (* asyncio.wait does not cancel what it waits for: both attempt tasks keep running *)
        F OCancelled (Some x) (running_at d x && d_connecting s 0 x)
          (running_at i x || ind_fail_residue s) (running_at d x || running_at i x)
  end.

(* cancelled in the instant t in which it would be over.  [after]: an attempt task is already done with a connection:
   race mode's handler has to disconnect it (fallback mode has no attempt tasks: the request task itself is cancelled
   inside the attempt, whose own handlers close the connection) *)
Definition cancelled_tie (s : script) (t : Z) (after : bool) : final :=
  let g := cancelled_at s t in
  mkF OCancelled (Some t) (r_connecting g) (waiters g) (orphans g)
      (after && match md s with Race => negb RACE_CANCEL_DISCONNECTS_FINISHED | Fallback => negb ATTEMPT_CLOSES_ON_CANCEL end) false.

Definition result (s : script) : final :=
  let f := no_cancel s in
  match cancel s with
  | None => f
  | Some x =>
      match at_time f with
      | Some t =>
          if x <? t then cancelled_at s x
          else if x =? t then
            match ctie s with
            | Some CancelEarly => cancelled_tie s t false
            | Some CancelAfterAttempt => cancelled_tie s t true
            | Some CancelAwaitingLoser =>
                let g := cancelled_tie s t true in
                mkF OCancelled (Some t) (r_connecting g) (waiters g) (orphans g)
                    (r_open g || match md s with Race => negb RACE_CANCEL_COVERS_WINNER_PATH | Fallback => false end) false
            | Some CancelLate | None => f
            end
          else f
      | None => cancelled_at s x
      end
  end.

(* ---- the property's vocabulary, defined from the script (not assumed) ---- *)
Definition lookup_ok (s : script) : bool := match ad s with AGiven | AReply => true | _ => false end.
Definition direct_ok (s : script) : bool :=
  lookup_ok s && match dr s with DOk => true | _ => false end && (d_delay s <? PEER_CONNECT_TIMEOUT).
Definition indirect_ok (s : script) : bool :=
  match ir s with IPierce => true | _ => false end && (i_delay s <? PEER_INDIRECT_CONNECT_TIMEOUT) && server_alive s.
Definition returns (f : final) : bool := match out f with ORet _ => true | _ => false end.
Definition residue_free (f : final) : bool := negb (r_connecting f) && negb (waiters f) && negb (orphans f) && negb (r_open f).

Definition delays_ok (s : script) : Prop := 0 <= ad_delay s /\ 0 <= d_delay s /\ 0 <= i_delay s.

(* ---- responder: Network._handle_connect_to_peer ---- *)
Inductive rconn := RcOk | RcFail.                 (* connect ok / refused or timed out *)
Inductive rsend := RsOk | RsFail.                 (* PeerPierceFirewall write ok / fails *)
Inductive rout := PierceSent | CannotConnectReported | NothingReported.
(* existing: an established connection of the requested type with the requesting user already exists (from an earlier
   ConnectToPeer, from the user connecting to us, or from a request of our own) *)
Definition responder (existing server_open : bool) (c : rconn) (w : rsend) : rout :=
  if existing && negb RESPONDER_HANDLES_EVERY_REQUEST then NothingReported else
  match c, w with
  | RcOk, RsOk => PierceSent
  | RcOk, RsFail =>    (* the PeerPierceFirewall write fails: ConnectionWriteError, reported only if the handler covers it *)
      if server_open && RESPONDER_REPORTS_WRITE_FAILURE then CannotConnectReported else NothingReported
  | RcFail, _ => if server_open then CannotConnectReported else NothingReported  (* send_message on a closing connection is silent *)
  end.
