(* C09 property theorems (statements only; proofs are in Proofs.v). *)
From Slsk Require Import Base.Tac.
From Slsk Require Import C09.Model C09.Proofs.
Open Scope N_scope.

(* The statement of the property for names (every chain that contains the default strategy, every
   remote path, every directory content: a path is produced, strictly inside dl, regular name)
   is FALSE of the current code: finding F08. *)
Theorem C09_inside_refuted : ~ inside_statement.
Proof. exact inside_refuted. Qed.

(* the three witness classes *)
Theorem C09_inside_refuted_filename_dotdot : exists ch fs remote dl p f, dl_ok dl /\ In Default ch /\
  chain fs remote ch dl = Some (p, f) /\ ~ regular_name f /\ ~ inside dl (p ++ [f]).
Proof. exact inside_refuted_name. Qed.
Theorem C09_inside_refuted_keepdir_dotdot : exists ch fs remote dl p f, dl_ok dl /\ In Default ch /\
  chain fs remote ch dl = Some (p, f) /\ regular_name f /\ ~ inside dl (p ++ [f]).
Proof. exact inside_refuted_dir. Qed.
Theorem C09_inside_refuted_no_component : exists ch fs remote dl, dl_ok dl /\ In Default ch /\ chain fs remote ch dl = None.
Proof. exact inside_refuted_crash. Qed.

(* Two downloads of equally named files can be given the same path when both choose before
   either creates its file: finding F09. *)
Theorem C09_distinct_active_refuted : exists evs,
  distinct_paths (d_paths (drun default_chain DL0 rem2 (mkD FS0 []) evs)) = false.
Proof. exact distinct_active_refuted. Qed.

(* What does hold (partial): when the peer's path has at least one component, its last component is
   not "." / ".." and the one before it is not "." / "..", every chain of shipped strategies that
   contains the default strategy yields - for every directory content - a path strictly inside the
   download directory whose file name is regular (non-empty, not "." or "..", no separator). *)
Theorem C09_inside_partial : forall ch fs remote dl, dl_ok dl -> In Default ch -> benign (split_remote_path remote) ->
  exists p f, chain fs remote ch dl = Some (p, f) /\ inside dl (p ++ [f]) /\ regular_name f.
Proof. exact inside_partial. Qed.

Example C09_inside_partial_nonvacuous :
  dl_ok DL0 /\ In Default [KeepDir; Default; NumDup] /\ benign (split_remote_path [64;64;120;92;100;47;47;97;46;116]) /\
  chain FS0 [64;64;120;92;100;47;47;97;46;116] [KeepDir; Default; NumDup] DL0 = Some (DL0 ++ [[100]], [97;46;116]).
Proof. split; [apply DL0_ok|]. split; [right; left; reflexivity|]. split; [|vm_compute; reflexivity].
  unfold benign. vm_compute. repeat split; discriminate. Qed.

(* components produced by split_remote_path never contain a separator and are never empty *)
Theorem C09_split_parts : forall s c, In c (split_remote_path s) -> c <> [] /\ nosep c.
Proof. exact split_parts. Qed.

(* Freshness: for every chain that ENDS with NumberDuplicate, every remote path and directory content,
   the chosen path does not exist when it is chosen (numbering fills the lowest gap above the smallest
   existing index; prefix matches only make it skip more). *)
Theorem C09_fresh : forall ch fs remote dl p f,
  chain fs remote (ch ++ [NumDup]) dl = Some (p, f) -> pexists fs (p ++ [f]) = false.
Proof. exact fresh. Qed.

Example C09_fresh_nonvacuous :
  let fs := FS0 ++ [(DL0 ++ [[97]], KFile); (DL0 ++ [[97;32;40;50;41]], KFile); (DL0 ++ [[97;32;40;51;41;46;98]], KFile)] in
  chain fs [97] ([Default] ++ [NumDup]) DL0 = Some (DL0, [97;32;40;52;41]).     (* a, "a (2)", "a (3).b" exist: next is "a (4)" *)
Proof. vm_compute. reflexivity. Qed.

(* chains that do not end with it cannot promise freshness *)
Theorem C09_fresh_needs_number_duplicate : exists fs remote dl p f,
  chain fs remote [Default] dl = Some (p, f) /\ pexists fs (p ++ [f]) = true.
Proof. exact fresh_needs_numdup. Qed.

(* Distinctness (partial): a path chosen by a chain ending in NumberDuplicate differs from the path of
   every download whose file has already been created; so downloads whose Prepare/Create pairs do not
   overlap get distinct paths.  The overlapping case is refuted above (F09). *)
Theorem C09_distinct_active_partial : forall ch fs remote dl p f p' f',
  chain fs remote (ch ++ [NumDup]) dl = Some (p, f) -> pexists fs (p' ++ [f']) = true -> p ++ [f] <> p' ++ [f'].
Proof. exact distinct_from_created. Qed.

Example C09_distinct_serial_nonvacuous :
  distinct_paths (d_paths (drun default_chain DL0 rem2 (mkD FS0 []) [Prepare 0; Create 0; Prepare 1; Create 1])) = true.
Proof. exact distinct_active_serial_example. Qed.
