(* C09 property theorems (statements only; proofs are in Proofs.v).
   Model of the REPAIRED code: split_remote_path drops "", "." and ".."; DefaultNamingStrategy falls
   back to a fixed name when no component is left; _prepare_download_path reserves the chosen name
   (creates the empty file) before its first suspension point. *)
From Slsk Require Import Base.Tac.
From SlskGen Require Import NamingGen.
From Slsk Require Import C09.Model C09.Proofs.
Open Scope N_scope.

(* For EVERY remote path a peer can send, every chain of shipped strategies that contains the default
   strategy and every directory content: a path is produced (nothing raises), it lies strictly inside
   the download directory and its file name is regular (non-empty, not "." or "..", no separator). *)
Theorem C09_inside : forall ch fs remote dl, dl_ok dl -> In Default ch ->
  exists p f, chain fs remote ch dl = Some (p, f) /\ inside dl (p ++ [f]) /\ regular_name f.
Proof. exact inside_full. Qed.

Example C09_inside_nonvacuous :
  dl_ok DL0 /\ In Default [KeepDir; Default; NumDup] /\
  chain FS0 [64;64;120;92;100;47;47;97;46;116] [KeepDir; Default; NumDup] DL0 = Some (DL0 ++ [[100]], [97;46;116]) /\
  chain FS0 [46;46;92;120] [Default; KeepDir; NumDup] DL0 = Some (DL0, [120]) /\            (* ..\x *)
  chain FS0 [97;92;46;46] [Default] DL0 = Some (DL0, [97]) /\                                (* a\.. *)
  chain FS0 [92;92] default_chain DL0 = Some (DL0, UNNAMED).                                 (* \\ *)
Proof. split; [apply DL0_ok|]. split; [right; left; reflexivity|]. vm_compute. repeat split; reflexivity. Qed.

(* every chain, also one without the default strategy, yields a result whose directory is dl plus plain names *)
Theorem C09_chain_total : forall ch fs remote dl,
  exists p f ds, chain fs remote ch dl = Some (p, f) /\ p = dl ++ ds /\ Forall regular_name ds /\ nosep f.
Proof. exact chain_total. Qed.

(* components produced by split_remote_path are regular names *)
Theorem C09_split_parts : forall s c, In c (split_remote_path s) -> regular_name c.
Proof. exact split_parts. Qed.

(* Freshness: for every chain that ENDS with NumberDuplicate, every remote path and directory content,
   the chosen path does not exist when it is chosen. *)
Theorem C09_fresh : forall ch fs remote dl p f,
  chain fs remote (ch ++ [NumDup]) dl = Some (p, f) -> pexists fs (p ++ [f]) = false.
Proof. exact fresh. Qed.

Example C09_fresh_nonvacuous :
  let fs := FS0 ++ [(DL0 ++ [[97]], KFile); (DL0 ++ [[97;32;40;50;41]], KFile); (DL0 ++ [[97;32;40;51;41;46;98]], KFile)] in
  chain fs [97] ([Default] ++ [NumDup]) DL0 = Some (DL0, [97;32;40;52;41]).     (* a, "a (2)", "a (3).b" exist: next is "a (4)" *)
Proof. vm_compute. reflexivity. Qed.

(* chains that do not end with it cannot promise freshness *)
Theorem C09_fresh_needs_number_duplicate : exists fs remote dl p f,
  chain fs remote [Default] dl = Some (p, f) /\ pexists fs (p ++ [f]) = true.
Proof. exact fresh_needs_numdup. Qed.

(* Distinctness over ALL interleavings of Prepare/Create events of any number of downloads (any remote
   paths, any initial directory content), for every chain ending in NumberDuplicate: the downloads that
   hold a local path hold pairwise different paths, and every such path exists (is reserved). *)
Theorem C09_distinct_active : forall ch dl remotes evs fs,
  let s := drun (ch ++ [NumDup]) dl remotes (mkD fs []) evs in
  NoDup (map joined (d_paths s)) /\ (forall x, In x (d_paths s) -> pexists (d_fs s) (joined x) = true).
Proof. intros. destruct (distinct_active ch dl remotes evs (mkD fs []) (dinv_empty fs)) as (H1 & H2). split; assumption. Qed.

Example C09_distinct_active_nonvacuous :
  distinct_paths (d_paths (drun default_chain DL0 rem2 (mkD FS0 []) [Prepare 0; Prepare 1; Create 0; Create 1])) = true /\
  length (d_paths (drun default_chain DL0 rem2 (mkD FS0 []) [Prepare 0; Prepare 1; Create 0; Create 1])) = 2%nat.
Proof. exact distinct_active_overlap_example. Qed.
