(* C09 proofs. *)
From Slsk Require Import Base.Tac.
From Coq Require DecimalN DecimalFacts.
From Slsk Require Import C09.Model.
Open Scope N_scope.

(* ---------------------------------------------------------------- refutations (finding F08, F09) *)
Definition DL0 : path := [[98]; [100; 108]].                   (* b/dl *)
Definition FS0 : fsys := [([[98]], KDir); ([[98]; [100; 108]], KDir)].
Definition r_a_dotdot : str := [97; 92; 46; 46].               (* a\.. *)
Definition r_dotdot_x : str := [46; 46; 92; 120].              (* ..\x *)
Definition r_seps : str := [92; 92].                           (* \\ *)

Lemma DL0_ok : dl_ok DL0.
Proof. unfold dl_ok, DL0. repeat constructor; try discriminate; intros c Hc; cbn in Hc;
  repeat (destruct Hc as [<-|Hc]; [reflexivity|]); destruct Hc. Qed.

(* full statement: for every chain containing Default, every remote path and every directory
   content the result exists, is strictly inside dl and is a regular name *)
Definition inside_statement : Prop :=
  forall ch fs remote dl, dl_ok dl -> In Default ch ->
    exists p f, chain fs remote ch dl = Some (p, f) /\ inside dl (p ++ [f]) /\ regular_name f.

Lemma inside_refuted_name : exists ch fs remote dl p f, dl_ok dl /\ In Default ch /\
  chain fs remote ch dl = Some (p, f) /\ ~ regular_name f /\ ~ inside dl (p ++ [f]).
Proof.
  exists [Default], FS0, r_a_dotdot, DL0, DL0, [46; 46].
  split; [apply DL0_ok|]. split; [left; reflexivity|]. split; [vm_compute; reflexivity|]. split.
  - intros (_ & _ & H & _). apply H. reflexivity.
  - intros (rest & Hne & H). vm_compute in H. destruct rest; [congruence|discriminate].
Qed.

Lemma inside_refuted_dir : exists ch fs remote dl p f, dl_ok dl /\ In Default ch /\
  chain fs remote ch dl = Some (p, f) /\ regular_name f /\ ~ inside dl (p ++ [f]).
Proof.
  exists [Default; KeepDir; NumDup], FS0, r_dotdot_x, DL0, (DL0 ++ [[46; 46]]), [120].
  split; [apply DL0_ok|]. split; [left; reflexivity|]. split; [vm_compute; reflexivity|]. split.
  - repeat split; try discriminate. intros c [<-|[]]. reflexivity.
  - intros (rest & Hne & H). vm_compute in H. destruct rest; [discriminate|]. destruct rest; discriminate.
Qed.

Lemma inside_refuted_crash : exists ch fs remote dl, dl_ok dl /\ In Default ch /\ chain fs remote ch dl = None.
Proof.
  exists default_chain, FS0, r_seps, DL0. split; [apply DL0_ok|]. split; [left; reflexivity|]. vm_compute. reflexivity.
Qed.

Lemma inside_refuted : ~ inside_statement.
Proof.
  intros H. destruct inside_refuted_crash as (ch & fs & r & dl & H1 & H2 & H3).
  destruct (H ch fs r dl H1 H2) as (p & f & E & _). congruence.
Qed.

(* two downloads of equally named files: both choose before either creates *)
Definition rem2 (k : nat) : str := match k with O => [117; 92; 97] | _ => [118; 92; 97] end.     (* u\a , v\a *)
Lemma distinct_active_refuted : exists evs,
  distinct_paths (d_paths (drun default_chain DL0 rem2 (mkD FS0 []) evs)) = false.
Proof. exists [Prepare 0; Prepare 1; Create 0; Create 1]. vm_compute. reflexivity. Qed.
Lemma distinct_active_serial_example :
  distinct_paths (d_paths (drun default_chain DL0 rem2 (mkD FS0 []) [Prepare 0; Create 0; Prepare 1; Create 1])) = true.
Proof. vm_compute. reflexivity. Qed.

(* ---------------------------------------------------------------- inside (partial) *)
Lemma str_eqb_eq : forall a b, str_eqb a b = true <-> a = b.
Proof.
  induction a; destruct b; cbn; split; intros H; try discriminate; try reflexivity.
  - apply andb_prop in H. destruct H as (H1 & H2). apply N.eqb_eq in H1. apply IHa in H2. congruence.
  - inv H. rewrite N.eqb_refl. cbn. apply IHa. reflexivity.
Qed.
Lemma str_eqb_neq : forall a b, a <> b -> str_eqb a b = false.
Proof. intros. destruct (str_eqb a b) eqn:E; [apply str_eqb_eq in E; congruence|reflexivity]. Qed.

(* ---- split_remote_path: parts are non-empty and contain no separator *)
Lemma split_at_seps_nosep : forall s cur, nosep cur -> forall c, In c (split_at_seps cur s) -> nosep c.
Proof.
  induction s; intros cur Hc c Hin; cbn in Hin.
  - destruct Hin as [<-|[]]. intros x Hx. apply in_rev in Hx. apply Hc. assumption.
  - destruct (is_sep a) eqn:E.
    + destruct Hin as [<-|Hin].
      * intros x Hx. apply in_rev in Hx. apply Hc. assumption.
      * eapply IHs; [|eassumption]. intros x [].
    + eapply IHs; [|eassumption]. intros x [<-|Hx]; [assumption|apply Hc; assumption].
Qed.

Lemma split_parts : forall s c, In c (split_remote_path s) -> c <> [] /\ nosep c.
Proof.
  intros s c H. unfold split_remote_path in H. apply filter_In in H. destruct H as (H1 & H2). split.
  - destruct c; [discriminate|discriminate].
  - eapply split_at_seps_nosep; [|eassumption]. intros x [].
Qed.

(* ---- normalisation of plain names *)
Lemma regular_tests : forall c, regular_name c -> str_eqb c [] = false /\ str_eqb c dot = false /\ str_eqb c dotdot = false.
Proof. intros c (H1 & H2 & H3 & _). repeat split; apply str_eqb_neq; assumption. Qed.

Lemma norm_from_regular : forall l acc, Forall regular_name l -> norm_from acc l = acc ++ l.
Proof.
  induction l; intros acc H; cbn.
  - rewrite app_nil_r. reflexivity.
  - inv H. destruct (regular_tests a H2) as (E1 & E2 & E3). rewrite E1, E2, E3. cbn. rewrite IHl by assumption.
    rewrite <- app_assoc. reflexivity.
Qed.

Lemma inside_regular : forall dl ds f, dl_ok dl -> Forall regular_name ds -> regular_name f -> inside dl ((dl ++ ds) ++ [f]).
Proof.
  intros dl ds f H1 H2 H3. exists (ds ++ [f]). split; [destruct ds; discriminate|].
  unfold norm. rewrite norm_from_regular; [cbn; rewrite <- app_assoc; reflexivity|].
  apply Forall_app. split; [apply Forall_app; split; assumption|]. constructor; [assumption|constructor].
Qed.

(* ---- splitext partitions the name *)
Lemma split_last_dot_app : forall s a b, split_last_dot s = Some (a, b) -> a ++ b = s.
Proof.
  induction s; intros a0 b H; cbn in H; [discriminate|].
  destruct (split_last_dot s) as [[x y]|] eqn:E.
  - inv H. cbn. f_equal. apply IHs. reflexivity.
  - destruct (N.eqb a DOT); [|discriminate]. inv H. reflexivity.
Qed.
Lemma splitext_app : forall f stem ext, splitext f = (stem, ext) -> stem ++ ext = f.
Proof.
  intros f stem ext H. unfold splitext in H. destruct (split_last_dot f) as [[a b]|] eqn:E.
  - destruct (all_dots a); inv H; [apply app_nil_r|eapply split_last_dot_app; eassumption].
  - inv H. apply app_nil_r.
Qed.

Lemma digits_nosep : forall u c, In c (digits_of_uint u) -> is_sep c = false.
Proof. induction u; cbn; intros c H; try tauto; destruct H as [<-|H]; try reflexivity; apply IHu; assumption. Qed.

Lemma number_name_regular : forall f stem ext k, nosep f -> splitext f = (stem, ext) -> regular_name (number_name stem ext k).
Proof.
  intros f stem ext k Hn Hs. apply splitext_app in Hs. unfold number_name.
  assert (Hin : In SP (stem ++ [SP; LP] ++ dec k ++ [RP] ++ ext)).
  { apply in_or_app. right. left. reflexivity. }
  repeat split.
  - intros E. rewrite E in Hin. destruct Hin.
  - intros E. rewrite E in Hin. cbn in Hin. destruct Hin as [H|[]]. discriminate.
  - intros E. rewrite E in Hin. cbn in Hin. destruct Hin as [H|[H|[]]]; discriminate.
  - intros c Hc. apply in_app_or in Hc. destruct Hc as [Hc|Hc].
    + apply Hn. rewrite <- Hs. apply in_or_app. left. assumption.
    + cbn in Hc. destruct Hc as [<-|[<-|Hc]]; try reflexivity. apply in_app_or in Hc. destruct Hc as [Hc|Hc].
      * unfold dec in Hc. eapply digits_nosep. eassumption.
      * cbn in Hc. destruct Hc as [<-|Hc]; [reflexivity|]. apply Hn. rewrite <- Hs. apply in_or_app. right. assumption.
Qed.

(* ---- resolution of a path with one more component *)
Lemma resolve_snoc : forall fs p cur c,
  resolve fs cur (p ++ [c]) = match resolve fs cur p with Some q => resolve fs q [c] | None => None end.
Proof.
  induction p; intros cur c; cbn [app resolve].
  - reflexivity.
  - destruct (lookup fs cur) as [[|]|]; try reflexivity.
    destruct (str_eqb a [] || str_eqb a dot); [apply IHp|]. destruct (str_eqb a dotdot); apply IHp.
Qed.

Lemma pexists_listdir : forall fs p f, pexists fs (p ++ [f]) = true -> exists names, listdir fs p = Some names.
Proof.
  intros fs p f H. unfold pexists in H. rewrite resolve_snoc in H. unfold listdir.
  destruct (resolve fs [] p) as [q|]; [|discriminate]. cbn [resolve] in H.
  destruct (lookup fs q) as [[|]|]; try discriminate. eexists. reflexivity.
Qed.

(* ---- the chain keeps the result below dl *)
Definition good (dl : path) (seen : bool) (p : path) (f : str) : Prop :=
  (exists ds, p = dl ++ ds /\ Forall regular_name ds) /\ nosep f /\ (seen = true -> regular_name f).

Lemma benign_last : forall parts, benign parts -> (forall c, In c parts -> c <> [] /\ nosep c) ->
  exists l r, rev parts = l :: r /\ regular_name l /\ match r with c :: _ => regular_name c | [] => True end.
Proof.
  intros parts Hb Hp. unfold benign in Hb. destruct (rev parts) as [|l r] eqn:E; [destruct Hb|].
  exists l, r. split; [reflexivity|]. destruct Hb as (B1 & B2 & B3).
  assert (Hl : In l parts) by (apply in_rev; rewrite E; left; reflexivity).
  destruct (Hp l Hl) as (N1 & N2). split; [repeat split; assumption|].
  destruct r as [|c r']; [exact I|]. destruct B3 as (B3 & B4).
  assert (Hc : In c parts) by (apply in_rev; rewrite E; right; left; reflexivity).
  destruct (Hp c Hc) as (M1 & M2). repeat split; assumption.
Qed.

Lemma apply_good : forall fs remote dl st seen p f, benign (split_remote_path remote) -> good dl seen p f ->
  exists p' f', apply_strat fs remote st p f = Some (p', f') /\
    good dl (orb seen (match st with Default => true | _ => false end)) p' f'.
Proof.
  intros fs remote dl st seen p f Hb ((ds & -> & Hds) & Hn & Hr).
  destruct (benign_last _ Hb (split_parts remote)) as (l & r & E & Rl & Rc).
  destruct st; unfold apply_strat; rewrite ?E.
  - exists (dl ++ ds), l. split; [reflexivity|]. rewrite orb_true_r. split; [exists ds; auto|]. split; [apply Rl|intros _; exact Rl].
  - rewrite orb_false_r. destruct r as [|c r'].
    + exists (dl ++ ds), f. split; [reflexivity|]. split; [exists ds; auto | split; assumption].
    + destruct (starts_atat c || is_drive c).
      * exists (dl ++ ds), f. split; [reflexivity|]. split; [exists ds; auto | split; assumption].
      * exists ((dl ++ ds) ++ [c]), f. split; [reflexivity|]. split; [|split; assumption].
        exists (ds ++ [c]). split; [apply app_assoc_reverse|]. apply Forall_app. split; [assumption|constructor; [assumption|constructor]].
  - rewrite orb_false_r. destruct (pexists fs ((dl ++ ds) ++ [f])) eqn:Ex.
    + destruct (splitext f) as [stem ext] eqn:Es. destruct (pexists_listdir _ _ _ Ex) as (names & ->).
      eexists _, _. split; [reflexivity|]. pose proof (number_name_regular f stem ext (next_index (indices stem ext names)) Hn Es) as R.
      split; [exists ds; auto|]. split; [apply R|intros _; exact R].
    + exists (dl ++ ds), f. split; [reflexivity|]. split; [exists ds; auto | split; assumption].
Qed.

Lemma chain_good : forall fs remote dl ch seen p f, benign (split_remote_path remote) -> good dl seen p f ->
  exists p' f', chain_from fs remote ch p f = Some (p', f') /\
    good dl (orb seen (existsb (fun st => match st with Default => true | _ => false end) ch)) p' f'.
Proof.
  induction ch; intros seen p f Hb Hg; cbn [chain_from existsb].
  - exists p, f. rewrite orb_false_r. split; [reflexivity|assumption].
  - destruct (apply_good fs remote dl a seen p f Hb Hg) as (p1 & f1 & E1 & G1). rewrite E1.
    destruct (IHch _ p1 f1 Hb G1) as (p2 & f2 & E2 & G2). exists p2, f2. split; [assumption|].
    rewrite orb_assoc. exact G2.
Qed.

Lemma inside_partial : forall ch fs remote dl, dl_ok dl -> In Default ch -> benign (split_remote_path remote) ->
  exists p f, chain fs remote ch dl = Some (p, f) /\ inside dl (p ++ [f]) /\ regular_name f.
Proof.
  intros ch fs remote dl Hdl Hin Hb. unfold chain.
  assert (G0 : good dl false dl []).
  { split; [exists []; split; [symmetry; apply app_nil_r|constructor]|]. split; [intros c []|discriminate]. }
  destruct (chain_good fs remote dl ch false dl [] Hb G0) as (p & f & E & ((ds & -> & Hds) & Hn & Hr)).
  exists (dl ++ ds), f. split; [assumption|].
  assert (Hs : existsb (fun st => match st with Default => true | _ => false end) ch = true).
  { apply existsb_exists. exists Default. split; [assumption|reflexivity]. }
  rewrite Hs in Hr. cbn in Hr. specialize (Hr eq_refl). split; [apply inside_regular; assumption|assumption].
Qed.

(* ---------------------------------------------------------------- fresh *)
Lemma path_eqb_eq : forall a b, path_eqb a b = true <-> a = b.
Proof.
  induction a; destruct b; cbn; split; intros H; try discriminate; try reflexivity.
  - apply andb_prop in H. destruct H as (H1 & H2). apply str_eqb_eq in H1. apply IHa in H2. congruence.
  - inv H. apply andb_true_intro. split; [apply str_eqb_eq; reflexivity|apply IHa; reflexivity].
Qed.

Lemma lookup_children : forall fs q n k, lookup fs (q ++ [n]) = Some k -> In n (children fs q).
Proof.
  induction fs as [|[p0 k0] r IH]; intros q n k H.
  - destruct q; cbn in H; discriminate.
  - assert (Hl : lookup ((p0, k0) :: r) (q ++ [n]) = if path_eqb p0 (q ++ [n]) then Some k0 else lookup r (q ++ [n])).
    { destruct q; reflexivity. }
    rewrite Hl in H. cbn [children].
    destruct (path_eqb p0 (q ++ [n])) eqn:E.
    + apply path_eqb_eq in E. subst p0. rewrite rev_app_distr. cbn [rev app]. rewrite rev_involutive.
      assert (Hq : path_eqb q q = true) by (apply path_eqb_eq; reflexivity). rewrite Hq. left. reflexivity.
    + specialize (IH _ _ _ H). destruct (rev p0) as [|n0 rq]; [assumption|]. destruct (path_eqb (rev rq) q); [right|]; assumption.
Qed.

Lemma strip_prefix_app : forall a b, strip_prefix a (a ++ b) = Some b.
Proof. induction a; intros b; cbn; [destruct b; reflexivity|]. rewrite N.eqb_refl. apply IHa. Qed.

Lemma digits_are_digits : forall u c, In c (digits_of_uint u) -> is_digit c = true.
Proof. induction u; cbn; intros c H; try tauto; destruct H as [<-|H]; try reflexivity; apply IHu; assumption. Qed.

Lemma take_digits_app : forall d t, (forall c, In c d -> is_digit c = true) ->
  match t with [] => True | c :: _ => is_digit c = false end -> take_digits (d ++ t) = (d, t).
Proof.
  induction d; intros t Hd Ht; cbn [app].
  - destruct t; cbn; [reflexivity|]. rewrite Ht. reflexivity.
  - cbn [take_digits]. rewrite (Hd a) by (left; reflexivity). rewrite IHd; [reflexivity| |assumption].
    intros c Hc. apply Hd. right. assumption.
Qed.

Lemma uint_roundtrip : forall u, uint_of_digits (digits_of_uint u) = u.
Proof. induction u; cbn; try reflexivity; rewrite IHu; reflexivity. Qed.

Lemma int_dec : forall k, int_of_digits (dec k) = k.
Proof. intros. unfold int_of_digits, dec. rewrite uint_roundtrip. apply DecimalN.Unsigned.of_to. Qed.

Lemma dec_nonempty : forall k, dec k <> [].
Proof.
  intros k E. pose proof (int_dec k) as H. rewrite E in H. cbn in H. subst k. vm_compute in E. discriminate.
Qed.

Lemma match_index_number_name : forall stem ext k, match_index stem ext (number_name stem ext k) = Some k.
Proof.
  intros. unfold match_index, number_name.
  replace (stem ++ [SP; LP] ++ dec k ++ [RP] ++ ext) with ((stem ++ [SP; LP]) ++ (dec k ++ RP :: ext)) by (rewrite <- app_assoc; reflexivity).
  rewrite strip_prefix_app. rewrite take_digits_app.
  - destruct (dec k) eqn:E; [exfalso; eapply dec_nonempty; eassumption|]. rewrite <- E.
    replace (RP :: ext) with ((RP :: ext) ++ []) at 2 by apply app_nil_r. rewrite strip_prefix_app. rewrite int_dec. reflexivity.
  - intros c Hc. eapply digits_are_digits. exact Hc.
  - reflexivity.
Qed.

Lemma indices_In : forall stem ext names n k, In n names -> match_index stem ext n = Some k -> In k (indices stem ext names).
Proof.
  induction names; intros n k Hin Hm; [destruct Hin|]. cbn [indices]. destruct Hin as [->|Hin].
  - rewrite Hm. left. reflexivity.
  - specialize (IHnames _ _ Hin Hm). destruct (match_index stem ext a); [right|]; assumption.
Qed.

Lemma memn_In : forall x l, memn x l = true <-> In x l.
Proof. intros. unfold memn. rewrite existsb_exists. split.
  - intros (y & Hy & E). apply N.eqb_eq in E. subst. assumption.
  - intros. exists x. split; [assumption|apply N.eqb_refl]. Qed.

Lemma filter_ge_lt : forall l k, In k l ->
  (length (filter (fun x => N.leb (k + 1) x) l) < length (filter (fun x => N.leb k x) l))%nat.
Proof.
  induction l; intros k Hin; [destruct Hin|]. cbn [filter].
  assert (Hmono : forall l', (length (filter (fun x => N.leb (k + 1) x) l') <= length (filter (fun x => N.leb k x) l'))%nat).
  { induction l'; cbn [filter]; [lia|]. destruct (N.leb_spec (k + 1) a0); destruct (N.leb_spec k a0); cbn [length]; lia. }
  destruct Hin as [->|Hin].
  - destruct (N.leb_spec (k + 1) k); [lia|]. destruct (N.leb_spec k k); [|lia]. cbn [length]. specialize (Hmono l). lia.
  - specialize (IHl k Hin). destruct (N.leb_spec (k + 1) a); destruct (N.leb_spec k a); cbn [length]; lia.
Qed.

Lemma gap_from_free : forall fuel k l, (length (filter (fun x => N.leb k x) l) < fuel)%nat -> memn (gap_from fuel k l) l = false.
Proof.
  induction fuel; intros k l H; [lia|]. cbn [gap_from]. destruct (memn k l) eqn:E; [|assumption].
  apply IHfuel. apply memn_In in E. pose proof (filter_ge_lt l k E). lia.
Qed.

Lemma filter_len_le : forall (f : N -> bool) l, (length (filter f l) <= length l)%nat.
Proof. induction l; cbn; [lia|]. destruct (f a); cbn; lia. Qed.

Lemma next_index_free : forall inds, ~ In (next_index inds) inds.
Proof.
  intros inds H. unfold next_index in H. destruct inds as [|a r] eqn:E; [destruct H|]. rewrite <- E in *.
  apply memn_In in H. rewrite gap_from_free in H; [discriminate|].
  pose proof (filter_len_le (fun x => N.leb (minl inds) x) inds). lia.
Qed.

Lemma number_name_not_special : forall stem ext k, let f := number_name stem ext k in
  str_eqb f [] = false /\ str_eqb f dot = false /\ str_eqb f dotdot = false.
Proof.
  intros. assert (Hin : In SP f). { unfold f, number_name. apply in_or_app. right. left. reflexivity. }
  repeat split; apply str_eqb_neq; intros E; rewrite E in Hin; cbn in Hin; intuition discriminate.
Qed.

Lemma chain_from_app : forall fs remote a b p f,
  chain_from fs remote (a ++ b) p f = match chain_from fs remote a p f with Some (p', f') => chain_from fs remote b p' f' | None => None end.
Proof.
  induction a; intros b p f; cbn [app chain_from]; [reflexivity|].
  destruct (apply_strat fs remote a p f) as [[p1 f1]|]; [apply IHa|reflexivity].
Qed.

Lemma numdup_fresh : forall fs remote p1 f1 p f, apply_strat fs remote NumDup p1 f1 = Some (p, f) -> pexists fs (p ++ [f]) = false.
Proof.
  intros fs remote p1 f1 p f H. unfold apply_strat in H. destruct (pexists fs (p1 ++ [f1])) eqn:Ex.
  2:{ inv H. assumption. }
  destruct (splitext f1) as [stem ext]. unfold listdir in H.
  destruct (resolve fs [] p1) as [q|] eqn:Er; [|discriminate]. destruct (lookup fs q) as [[|]|] eqn:El; try discriminate.
  inv H. set (k := next_index (indices stem ext (children fs q))).
  unfold pexists. rewrite resolve_snoc, Er. cbn [resolve]. rewrite El.
  destruct (number_name_not_special stem ext k) as (E1 & E2 & E3). cbn zeta in *. rewrite E1, E2, E3. cbn [orb].
  destruct (lookup fs (q ++ [number_name stem ext k])) eqn:L; [|reflexivity]. exfalso.
  apply lookup_children in L. apply (next_index_free (indices stem ext (children fs q))). fold k.
  eapply indices_In; [exact L|apply match_index_number_name].
Qed.

Lemma fresh : forall ch fs remote dl p f, chain fs remote (ch ++ [NumDup]) dl = Some (p, f) -> pexists fs (p ++ [f]) = false.
Proof.
  intros ch fs remote dl p f H. unfold chain in H. rewrite chain_from_app in H.
  destruct (chain_from fs remote ch dl []) as [[p1 f1]|]; [|discriminate]. cbn [chain_from] in H.
  destruct (apply_strat fs remote NumDup p1 f1) as [[p2 f2]|] eqn:E; [|discriminate]. inv H. eapply numdup_fresh. eassumption.
Qed.

(* chains that do not end with NumDup cannot promise freshness *)
Lemma fresh_needs_numdup : exists fs remote dl p f, chain fs remote [Default] dl = Some (p, f) /\ pexists fs (p ++ [f]) = true.
Proof. exists (FS0 ++ [(DL0 ++ [[97]], KFile)]), [97], DL0, DL0, [97]. split; vm_compute; reflexivity. Qed.

(* a path chosen by a chain ending in NumberDuplicate differs from every path whose file already exists *)
Lemma distinct_from_created : forall ch fs remote dl p f p' f',
  chain fs remote (ch ++ [NumDup]) dl = Some (p, f) -> pexists fs (p' ++ [f']) = true -> p ++ [f] <> p' ++ [f'].
Proof. intros ch fs remote dl p f p' f' H Hex E. apply fresh in H. rewrite E in H. congruence. Qed.
