(* C09 proofs. *)
From Slsk Require Import Base.Tac.
From Coq Require DecimalN DecimalFacts.
From SlskGen Require Import NamingGen.
From Slsk Require Import C09.Model.
Open Scope N_scope.

(* ---------------------------------------------------------------- fixtures for examples *)
Definition DL0 : path := [[98]; [100; 108]].                   (* b/dl *)
Definition FS0 : fsys := [([[98]], KDir); ([[98]; [100; 108]], KDir)].
Definition r_a_dotdot : str := [97; 92; 46; 46].               (* a\.. *)
Definition r_dotdot_x : str := [46; 46; 92; 120].              (* ..\x *)
Definition r_seps : str := [92; 92].                           (* \\ *)

Lemma DL0_ok : dl_ok DL0.
Proof. unfold dl_ok, DL0. repeat constructor; try discriminate; intros c Hc; cbn in Hc;
  repeat (destruct Hc as [<-|Hc]; [reflexivity|]); destruct Hc. Qed.

(* full statement: for every chain containing Default, every remote path and every directory
   content the result exists, is strictly inside dl and is a regular name *)
Definition inside_statement : Prop :=
  forall ch fs remote dl, dl_ok dl -> In Default ch ->
    exists p f, chain fs remote ch dl = Some (p, f) /\ inside dl (p ++ [f]) /\ regular_name f.

(* two downloads of equally named files: both choose before either creates *)
Definition rem2 (k : nat) : str := match k with O => [117; 92; 97] | _ => [118; 92; 97] end.     (* u\a , v\a *)
Lemma distinct_active_overlap_example :
  distinct_paths (d_paths (drun default_chain DL0 rem2 (mkD FS0 []) [Prepare 0; Prepare 1; Create 0; Create 1])) = true /\
  length (d_paths (drun default_chain DL0 rem2 (mkD FS0 []) [Prepare 0; Prepare 1; Create 0; Create 1])) = 2%nat.
Proof. vm_compute. split; reflexivity. Qed.
Lemma distinct_active_serial_example :
  distinct_paths (d_paths (drun default_chain DL0 rem2 (mkD FS0 []) [Prepare 0; Create 0; Prepare 1; Create 1])) = true.
Proof. vm_compute. reflexivity. Qed.

(* ---------------------------------------------------------------- inside (partial) *)
Lemma str_eqb_eq : forall a b, str_eqb a b = true <-> a = b.
Proof.
  induction a; destruct b; cbn; split; intros H; try discriminate; try reflexivity.
  - apply andb_prop in H. destruct H as (H1 & H2). apply N.eqb_eq in H1. apply IHa in H2. congruence.
  - inv H. rewrite N.eqb_refl. cbn. apply IHa. reflexivity.
Qed.
Lemma str_eqb_neq : forall a b, a <> b -> str_eqb a b = false.
Proof. intros. destruct (str_eqb a b) eqn:E; [apply str_eqb_eq in E; congruence|reflexivity]. Qed.

(* ---- split_remote_path: parts are non-empty and contain no separator *)
Lemma split_at_seps_nosep : forall s cur, nosep cur -> forall c, In c (split_at_seps cur s) -> nosep c.
Proof.
  induction s; intros cur Hc c Hin; cbn [split_at_seps] in Hin.
  - destruct Hin as [<-|[]]. intros x Hx. apply in_rev in Hx. apply Hc. assumption.
  - destruct (is_sep a) eqn:E.
    + destruct Hin as [<-|Hin].
      * intros x Hx. apply in_rev in Hx. apply Hc. assumption.
      * eapply IHs; [|eassumption]. intros x [].
    + eapply IHs; [|eassumption]. intros x [<-|Hx]; [assumption|apply Hc; assumption].
Qed.

Lemma split_parts : forall s c, In c (split_remote_path s) -> regular_name c.
Proof.
  intros s c H. unfold split_remote_path in H. apply filter_In in H. destruct H as (H1 & H2).
  unfold keep_part, SPLIT_DROPS in H2. cbn [existsb] in H2. apply andb_prop in H2. destruct H2 as (K1 & K2).
  repeat split.
  - destruct c; discriminate.
  - intros E. subst c. discriminate.
  - intros E. subst c. discriminate.
  - eapply split_at_seps_nosep; [|eassumption]. intros x [].
Qed.

Lemma unnamed_regular : regular_name UNNAMED.
Proof. repeat split; try discriminate. intros c Hc. cbn in Hc. repeat (destruct Hc as [<-|Hc]; [reflexivity|]). destruct Hc. Qed.

(* ---- normalisation of plain names *)
Lemma regular_tests : forall c, regular_name c -> str_eqb c [] = false /\ str_eqb c dot = false /\ str_eqb c dotdot = false.
Proof. intros c (H1 & H2 & H3 & _). repeat split; apply str_eqb_neq; assumption. Qed.

Lemma norm_from_regular : forall l acc, Forall regular_name l -> norm_from acc l = acc ++ l.
Proof.
  induction l; intros acc H; cbn.
  - rewrite app_nil_r. reflexivity.
  - inv H. destruct (regular_tests a H2) as (E1 & E2 & E3). rewrite E1, E2, E3. cbn. rewrite IHl by assumption.
    rewrite <- app_assoc. reflexivity.
Qed.

Lemma inside_regular : forall dl ds f, dl_ok dl -> Forall regular_name ds -> regular_name f -> inside dl ((dl ++ ds) ++ [f]).
Proof.
  intros dl ds f H1 H2 H3. exists (ds ++ [f]). split; [destruct ds; discriminate|].
  unfold norm. rewrite norm_from_regular; [cbn; rewrite <- app_assoc; reflexivity|].
  apply Forall_app. split; [apply Forall_app; split; assumption|]. constructor; [assumption|constructor].
Qed.

(* ---- splitext partitions the name *)
Lemma split_last_dot_app : forall s a b, split_last_dot s = Some (a, b) -> a ++ b = s.
Proof.
  induction s; intros a0 b H; cbn in H; [discriminate|].
  destruct (split_last_dot s) as [[x y]|] eqn:E.
  - inv H. cbn. f_equal. apply IHs. reflexivity.
  - destruct (N.eqb a DOT); [|discriminate]. inv H. reflexivity.
Qed.
Lemma splitext_app : forall f stem ext, splitext f = (stem, ext) -> stem ++ ext = f.
Proof.
  intros f stem ext H. unfold splitext in H. destruct (split_last_dot f) as [[a b]|] eqn:E.
  - destruct (all_dots a); inv H; [apply app_nil_r|eapply split_last_dot_app; eassumption].
  - inv H. apply app_nil_r.
Qed.

Lemma digits_nosep : forall u c, In c (digits_of_uint u) -> is_sep c = false.
Proof. induction u; cbn; intros c H; try tauto; destruct H as [<-|H]; try reflexivity; apply IHu; assumption. Qed.

Lemma number_name_regular : forall f stem ext k, nosep f -> splitext f = (stem, ext) -> regular_name (number_name stem ext k).
Proof.
  intros f stem ext k Hn Hs. apply splitext_app in Hs. unfold number_name.
  assert (Hin : In SP (stem ++ [SP; LP] ++ dec k ++ [RP] ++ ext)).
  { apply in_or_app. right. left. reflexivity. }
  repeat split.
  - intros E. rewrite E in Hin. destruct Hin.
  - intros E. rewrite E in Hin. cbn in Hin. destruct Hin as [H|[]]. discriminate.
  - intros E. rewrite E in Hin. cbn in Hin. destruct Hin as [H|[H|[]]]; discriminate.
  - intros c Hc. apply in_app_or in Hc. destruct Hc as [Hc|Hc].
    + apply Hn. rewrite <- Hs. apply in_or_app. left. assumption.
    + cbn in Hc. destruct Hc as [<-|[<-|Hc]]; try reflexivity. apply in_app_or in Hc. destruct Hc as [Hc|Hc].
      * unfold dec in Hc. eapply digits_nosep. eassumption.
      * cbn in Hc. destruct Hc as [<-|Hc]; [reflexivity|]. apply Hn. rewrite <- Hs. apply in_or_app. right. assumption.
Qed.

(* ---- resolution of a path with one more component *)
Lemma resolve_snoc : forall fs p cur c,
  resolve fs cur (p ++ [c]) = match resolve fs cur p with Some q => resolve fs q [c] | None => None end.
Proof.
  induction p; intros cur c; cbn [app resolve].
  - reflexivity.
  - destruct (lookup fs cur) as [[|]|]; try reflexivity.
    destruct (str_eqb a [] || str_eqb a dot); [apply IHp|]. destruct (str_eqb a dotdot); apply IHp.
Qed.

Lemma pexists_listdir : forall fs p f, pexists fs (p ++ [f]) = true -> exists names, listdir fs p = Some names.
Proof.
  intros fs p f H. unfold pexists in H. rewrite resolve_snoc in H. unfold listdir.
  destruct (resolve fs [] p) as [q|]; [|discriminate]. cbn [resolve] in H.
  destruct (lookup fs q) as [[|]|]; try discriminate. eexists. reflexivity.
Qed.

(* ---- the chain keeps the result below dl *)
Definition good (dl : path) (seen : bool) (p : path) (f : str) : Prop :=
  (exists ds, p = dl ++ ds /\ Forall regular_name ds) /\ nosep f /\ (seen = true -> regular_name f).

Lemma rev_parts_regular : forall remote l r, rev (split_remote_path remote) = l :: r ->
  regular_name l /\ match r with c :: _ => regular_name c | [] => True end.
Proof.
  intros remote l r E. split.
  - apply (split_parts remote). apply in_rev. rewrite E. left. reflexivity.
  - destruct r as [|c r']; [exact I|]. apply (split_parts remote). apply in_rev. rewrite E. right. left. reflexivity.
Qed.

Lemma apply_good : forall fs remote dl st seen p f, good dl seen p f ->
  exists p' f', apply_strat fs remote st p f = Some (p', f') /\
    good dl (orb seen (match st with Default => true | _ => false end)) p' f'.
Proof.
  intros fs remote dl st seen p f ((ds & -> & Hds) & Hn & Hr).
  destruct st; unfold apply_strat.
  - rewrite orb_true_r. unfold default_has_fallback. destruct (rev (split_remote_path remote)) as [|l r] eqn:E.
    + exists (dl ++ ds), UNNAMED. split; [reflexivity|]. split; [exists ds; auto|]. split; [apply unnamed_regular|intros _; exact unnamed_regular].
    + destruct (rev_parts_regular _ _ _ E) as (Rl & _). exists (dl ++ ds), l. split; [reflexivity|].
      split; [exists ds; auto|]. split; [apply Rl|intros _; exact Rl].
  - rewrite orb_false_r. unfold keepdir_guard_le. destruct (rev (split_remote_path remote)) as [|l r] eqn:E.
    + exists (dl ++ ds), f. split; [reflexivity|]. split; [exists ds; auto | split; assumption].
    + destruct (rev_parts_regular _ _ _ E) as (_ & Rc). destruct r as [|c r'].
      * exists (dl ++ ds), f. split; [reflexivity|]. split; [exists ds; auto | split; assumption].
      * destruct (starts_atat c || is_drive c).
        -- exists (dl ++ ds), f. split; [reflexivity|]. split; [exists ds; auto | split; assumption].
        -- exists ((dl ++ ds) ++ [c]), f. split; [reflexivity|]. split; [|split; assumption].
           exists (ds ++ [c]). split; [apply app_assoc_reverse|]. apply Forall_app. split; [assumption|constructor; [assumption|constructor]].
  - rewrite orb_false_r. destruct (pexists fs ((dl ++ ds) ++ [f])) eqn:Ex.
    + destruct (splitext f) as [stem ext] eqn:Es. destruct (pexists_listdir _ _ _ Ex) as (names & ->).
      eexists _, _. split; [reflexivity|]. pose proof (number_name_regular f stem ext (next_index (indices stem ext names)) Hn Es) as R.
      split; [exists ds; auto|]. split; [apply R|intros _; exact R].
    + exists (dl ++ ds), f. split; [reflexivity|]. split; [exists ds; auto | split; assumption].
Qed.

Lemma chain_good : forall fs remote dl ch seen p f, good dl seen p f ->
  exists p' f', chain_from fs remote ch p f = Some (p', f') /\
    good dl (orb seen (existsb (fun st => match st with Default => true | _ => false end) ch)) p' f'.
Proof.
  induction ch; intros seen p f Hg; cbn [chain_from existsb].
  - exists p, f. rewrite orb_false_r. split; [reflexivity|assumption].
  - destruct (apply_good fs remote dl a seen p f Hg) as (p1 & f1 & E1 & G1). rewrite E1.
    destruct (IHch _ p1 f1 G1) as (p2 & f2 & E2 & G2). exists p2, f2. split; [assumption|].
    rewrite orb_assoc. exact G2.
Qed.

Lemma good_init : forall dl, good dl false dl [].
Proof. intros. split; [exists []; split; [symmetry; apply app_nil_r|constructor]|]. split; [intros c []|discriminate]. Qed.

Lemma inside_full : inside_statement.
Proof.
  intros ch fs remote dl Hdl Hin. unfold chain.
  destruct (chain_good fs remote dl ch false dl [] (good_init dl)) as (p & f & E & ((ds & -> & Hds) & Hn & Hr)).
  exists (dl ++ ds), f. split; [assumption|].
  assert (Hs : existsb (fun st => match st with Default => true | _ => false end) ch = true).
  { apply existsb_exists. exists Default. split; [assumption|reflexivity]. }
  rewrite Hs in Hr. cbn in Hr. specialize (Hr eq_refl). split; [apply inside_regular; assumption|assumption].
Qed.

(* every chain (with or without Default) yields a result: nothing raises; directories stay below dl *)
Lemma chain_total : forall ch fs remote dl, exists p f ds, chain fs remote ch dl = Some (p, f) /\ p = dl ++ ds /\ Forall regular_name ds /\ nosep f.
Proof.
  intros. unfold chain. destruct (chain_good fs remote dl ch false dl [] (good_init dl)) as (p & f & E & ((ds & -> & Hds) & Hn & _)).
  exists (dl ++ ds), f, ds. auto.
Qed.


(* ---------------------------------------------------------------- fresh *)
Lemma path_eqb_eq : forall a b, path_eqb a b = true <-> a = b.
Proof.
  induction a; destruct b; cbn; split; intros H; try discriminate; try reflexivity.
  - apply andb_prop in H. destruct H as (H1 & H2). apply str_eqb_eq in H1. apply IHa in H2. congruence.
  - inv H. apply andb_true_intro. split; [apply str_eqb_eq; reflexivity|apply IHa; reflexivity].
Qed.

Lemma lookup_children : forall fs q n k, lookup fs (q ++ [n]) = Some k -> In n (children fs q).
Proof.
  induction fs as [|[p0 k0] r IH]; intros q n k H.
  - destruct q; cbn in H; discriminate.
  - assert (Hl : lookup ((p0, k0) :: r) (q ++ [n]) = if path_eqb p0 (q ++ [n]) then Some k0 else lookup r (q ++ [n])).
    { destruct q; reflexivity. }
    rewrite Hl in H. cbn [children].
    destruct (path_eqb p0 (q ++ [n])) eqn:E.
    + apply path_eqb_eq in E. subst p0. rewrite rev_app_distr. cbn [rev app]. rewrite rev_involutive.
      assert (Hq : path_eqb q q = true) by (apply path_eqb_eq; reflexivity). rewrite Hq. left. reflexivity.
    + specialize (IH _ _ _ H). destruct (rev p0) as [|n0 rq]; [assumption|]. destruct (path_eqb (rev rq) q); [right|]; assumption.
Qed.

Lemma strip_prefix_app : forall a b, strip_prefix a (a ++ b) = Some b.
Proof. induction a; intros b; cbn; [destruct b; reflexivity|]. rewrite N.eqb_refl. apply IHa. Qed.

Lemma digits_are_digits : forall u c, In c (digits_of_uint u) -> is_digit c = true.
Proof. induction u; cbn [digits_of_uint In]; intros c H; try tauto; (destruct H as [<-|H]; [vm_compute; reflexivity | apply IHu; assumption]). Qed.

Lemma take_digits_app : forall d t, (forall c, In c d -> is_digit c = true) ->
  match t with [] => True | c :: _ => is_digit c = false end -> take_digits (d ++ t) = (d, t).
Proof.
  induction d; intros t Hd Ht; cbn [app].
  - destruct t; cbn; [reflexivity|]. rewrite Ht. reflexivity.
  - cbn [take_digits]. rewrite (Hd a) by (left; reflexivity). rewrite IHd; [reflexivity| |assumption].
    intros c Hc. apply Hd. right. assumption.
Qed.

Lemma dval_ascii : dval 48 = 0 /\ dval 49 = 1 /\ dval 50 = 2 /\ dval 51 = 3 /\ dval 52 = 4 /\ dval 53 = 5 /\ dval 54 = 6 /\ dval 55 = 7 /\
  dval 56 = 8 /\ dval 57 = 9.
Proof. vm_compute. repeat split; reflexivity. Qed.

Lemma uint_roundtrip : forall u, uint_of_digits (digits_of_uint u) = u.
Proof.
  destruct dval_ascii as (D0 & D1 & D2 & D3 & D4 & D5 & D6 & D7 & D8 & D9).
  induction u; cbn [digits_of_uint uint_of_digits]; try reflexivity;
    rewrite ?D0, ?D1, ?D2, ?D3, ?D4, ?D5, ?D6, ?D7, ?D8, ?D9, IHu; reflexivity.
Qed.

Lemma int_dec : forall k, int_of_digits (dec k) = k.
Proof. intros. unfold int_of_digits, dec. rewrite uint_roundtrip. apply DecimalN.Unsigned.of_to. Qed.

Lemma dec_nonempty : forall k, dec k <> [].
Proof.
  intros k E. pose proof (int_dec k) as H. rewrite E in H. cbn in H. subst k. vm_compute in E. discriminate.
Qed.

Lemma match_index_number_name : forall stem ext k, match_index stem ext (number_name stem ext k) = Some k.
Proof.
  intros. unfold match_index, number_name.
  replace (stem ++ [SP; LP] ++ dec k ++ [RP] ++ ext) with ((stem ++ [SP; LP]) ++ (dec k ++ RP :: ext)) by (rewrite <- app_assoc; reflexivity).
  rewrite strip_prefix_app. rewrite take_digits_app.
  - destruct (dec k) eqn:E; [exfalso; eapply dec_nonempty; eassumption|]. rewrite <- E.
    replace (RP :: ext) with ((RP :: ext) ++ []) at 2 by apply app_nil_r. rewrite strip_prefix_app. rewrite int_dec. reflexivity.
  - intros c Hc. eapply digits_are_digits. exact Hc.
  - vm_compute. reflexivity.
Qed.

Lemma indices_In : forall stem ext names n k, In n names -> match_index stem ext n = Some k -> In k (indices stem ext names).
Proof.
  induction names; intros n k Hin Hm; [destruct Hin|]. cbn [indices]. destruct Hin as [->|Hin].
  - rewrite Hm. left. reflexivity.
  - specialize (IHnames _ _ Hin Hm). destruct (match_index stem ext a); [right|]; assumption.
Qed.

Lemma memn_In : forall x l, memn x l = true <-> In x l.
Proof. intros. unfold memn. rewrite existsb_exists. split.
  - intros (y & Hy & E). apply N.eqb_eq in E. subst. assumption.
  - intros. exists x. split; [assumption|apply N.eqb_refl]. Qed.

Lemma filter_ge_lt : forall l k, In k l ->
  (length (filter (fun x => N.leb (k + 1) x) l) < length (filter (fun x => N.leb k x) l))%nat.
Proof.
  induction l; intros k Hin; [destruct Hin|]. cbn [filter].
  assert (Hmono : forall l', (length (filter (fun x => N.leb (k + 1) x) l') <= length (filter (fun x => N.leb k x) l'))%nat).
  { induction l'; cbn [filter]; [lia|]. destruct (N.leb_spec (k + 1) a0); destruct (N.leb_spec k a0); cbn [length]; lia. }
  destruct Hin as [->|Hin].
  - destruct (N.leb_spec (k + 1) k); [lia|]. destruct (N.leb_spec k k); [|lia]. cbn [length]. specialize (Hmono l). lia.
  - specialize (IHl k Hin). destruct (N.leb_spec (k + 1) a); destruct (N.leb_spec k a); cbn [length]; lia.
Qed.

Lemma gap_from_free : forall fuel k l, (length (filter (fun x => N.leb k x) l) < fuel)%nat -> memn (gap_from fuel k l) l = false.
Proof.
  induction fuel; intros k l H; [lia|]. cbn [gap_from]. destruct (memn k l) eqn:E; [|assumption].
  apply IHfuel. apply memn_In in E. pose proof (filter_ge_lt l k E). lia.
Qed.

Lemma filter_len_le : forall (f : N -> bool) l, (length (filter f l) <= length l)%nat.
Proof. induction l; cbn; [lia|]. destruct (f a); cbn; lia. Qed.

Lemma next_index_free : forall inds, ~ In (next_index inds) inds.
Proof.
  intros inds H. unfold next_index in H. destruct inds as [|a r] eqn:E; [destruct H|]. rewrite <- E in *.
  apply memn_In in H. rewrite gap_from_free in H; [discriminate|].
  pose proof (filter_len_le (fun x => N.leb (minl inds) x) inds). lia.
Qed.

Lemma number_name_not_special : forall stem ext k, let f := number_name stem ext k in
  str_eqb f [] = false /\ str_eqb f dot = false /\ str_eqb f dotdot = false.
Proof.
  intros. assert (Hin : In SP f). { unfold f, number_name. apply in_or_app. right. left. reflexivity. }
  repeat split; apply str_eqb_neq; intros E; rewrite E in Hin; cbn in Hin; intuition discriminate.
Qed.

Lemma chain_from_app : forall fs remote a b p f,
  chain_from fs remote (a ++ b) p f = match chain_from fs remote a p f with Some (p', f') => chain_from fs remote b p' f' | None => None end.
Proof.
  induction a; intros b p f; cbn [app chain_from]; [reflexivity|].
  destruct (apply_strat fs remote a p f) as [[p1 f1]|]; [apply IHa|reflexivity].
Qed.

Lemma numdup_fresh : forall fs remote p1 f1 p f, apply_strat fs remote NumDup p1 f1 = Some (p, f) -> pexists fs (p ++ [f]) = false.
Proof.
  intros fs remote p1 f1 p f H. unfold apply_strat in H. destruct (pexists fs (p1 ++ [f1])) eqn:Ex.
  2:{ inv H. assumption. }
  destruct (splitext f1) as [stem ext]. unfold listdir in H.
  destruct (resolve fs [] p1) as [q|] eqn:Er; [|discriminate]. destruct (lookup fs q) as [[|]|] eqn:El; try discriminate.
  inv H. set (k := next_index (indices stem ext (children fs q))).
  unfold pexists. rewrite resolve_snoc, Er. cbn [resolve]. rewrite El.
  destruct (number_name_not_special stem ext k) as (E1 & E2 & E3). cbn zeta in *. rewrite E1, E2, E3. cbn [orb].
  destruct (lookup fs (q ++ [number_name stem ext k])) eqn:L; [|reflexivity]. exfalso.
  apply lookup_children in L. apply (next_index_free (indices stem ext (children fs q))). fold k.
  eapply indices_In; [exact L|apply match_index_number_name].
Qed.

Lemma fresh : forall ch fs remote dl p f, chain fs remote (ch ++ [NumDup]) dl = Some (p, f) -> pexists fs (p ++ [f]) = false.
Proof.
  intros ch fs remote dl p f H. unfold chain in H. rewrite chain_from_app in H.
  destruct (chain_from fs remote ch dl []) as [[p1 f1]|]; [|discriminate]. cbn [chain_from] in H.
  destruct (apply_strat fs remote NumDup p1 f1) as [[p2 f2]|] eqn:E; [|discriminate]. inv H. eapply numdup_fresh. eassumption.
Qed.

(* chains that do not end with NumDup cannot promise freshness *)
Lemma fresh_needs_numdup : exists fs remote dl p f, chain fs remote [Default] dl = Some (p, f) /\ pexists fs (p ++ [f]) = true.
Proof. exists (FS0 ++ [(DL0 ++ [[97]], KFile)]), [97], DL0, DL0, [97]. split; vm_compute; reflexivity. Qed.

(* a path chosen by a chain ending in NumberDuplicate differs from every path whose file already exists *)
Lemma distinct_from_created : forall ch fs remote dl p f p' f',
  chain fs remote (ch ++ [NumDup]) dl = Some (p, f) -> pexists fs (p' ++ [f']) = true -> p ++ [f] <> p' ++ [f'].
Proof. intros ch fs remote dl p f p' f' H Hex E. apply fresh in H. rewrite E in H. congruence. Qed.

(* ---------------------------------------------------------------- distinct paths over whole schedules *)
Lemma lookup_nil : forall fs, lookup fs [] = Some KDir.
Proof. destruct fs; reflexivity. Qed.

Lemma lookup_app : forall fs e p k, lookup fs p = Some k -> lookup (fs ++ e) p = Some k.
Proof.
  intros fs e p k H. destruct p as [|c p']; [rewrite lookup_nil in *; exact H|].
  induction fs as [|[q k0] r IH]; [discriminate|].
  cbn [app lookup] in *. destruct (path_eqb q (c :: p')); [exact H|]. apply IH. exact H.
Qed.

Lemma resolve_app_fs : forall fs e comps cur q, resolve fs cur comps = Some q -> resolve (fs ++ e) cur comps = Some q.
Proof.
  induction comps; intros cur q H; cbn [resolve] in *; [exact H|].
  destruct (lookup fs cur) as [[|]|] eqn:L; try discriminate. rewrite (lookup_app _ e _ _ L).
  destruct (str_eqb a [] || str_eqb a dot); [apply IHcomps; exact H|]. destruct (str_eqb a dotdot); apply IHcomps; exact H.
Qed.

Lemma pexists_app : forall fs e p, pexists fs p = true -> pexists (fs ++ e) p = true.
Proof.
  intros fs e p H. unfold pexists in *. destruct (resolve fs [] p) as [q|] eqn:R; [|discriminate].
  rewrite (resolve_app_fs _ e _ _ _ R). destruct (lookup fs q) eqn:L; [|discriminate]. rewrite (lookup_app _ e _ _ L). reflexivity.
Qed.

Lemma mkdirs_ext : forall comps fs cur, exists e, mkdirs fs cur comps = fs ++ e.
Proof.
  induction comps; intros fs cur; cbn [mkdirs]; [exists []; symmetry; apply app_nil_r|].
  destruct (lookup fs (cur ++ [a])); [apply IHcomps|].
  destruct (IHcomps (fs ++ [(cur ++ [a], KDir)]) (cur ++ [a])) as (e & ->). eexists. rewrite <- app_assoc. reflexivity.
Qed.

Lemma create_file_ext : forall fs p f, exists e, create_file fs p f = fs ++ e.
Proof.
  intros. unfold create_file. destruct (resolve fs [] (p ++ [f])) as [q|]; [|exists []; symmetry; apply app_nil_r].
  destruct (lookup fs q); [exists []; symmetry; apply app_nil_r|eexists; reflexivity].
Qed.

Definition dinv (s : dstate) : Prop :=
  (forall x, In x (d_paths s) -> pexists (d_fs s) (joined x) = true) /\ NoDup (map joined (d_paths s)).

Lemma dstep_dinv : forall ch dl remotes s e, dinv s -> dinv (dstep (ch ++ [NumDup]) dl remotes s e).
Proof.
  intros ch dl remotes s e (H1 & H2). destruct e as [k|k]; cbn [dstep]; unfold prepare_reserves.
  - destruct (find_path (d_paths s) k); [split; assumption|].
    destruct (chain (d_fs s) (remotes k) (ch ++ [NumDup]) dl) as [[p f]|] eqn:E; [|split; assumption].
    destruct (mkdirs_ext (norm p) (d_fs s) []) as (e1 & E1). rewrite E1.
    destruct (create_file_ext (d_fs s ++ e1) p f) as (e2 & E2). rewrite E2. rewrite <- app_assoc.
    destruct (pexists (d_fs s ++ e1 ++ e2) (p ++ [f])) eqn:Ex; cbn [d_fs d_paths].
    + split.
      * intros x [<-|Hx]; [exact Ex|]. apply pexists_app. auto.
      * cbn [map]. constructor; [|assumption]. intros Hin. apply in_map_iff in Hin. destruct Hin as (x & Ex' & Hx).
        apply fresh in E. specialize (H1 x Hx). unfold joined in *. cbn [fst snd] in *. rewrite Ex' in H1. congruence.
    + split; [intros x Hx; apply pexists_app; auto|assumption].
  - destruct (find_path (d_paths s) k) as [[p f]|]; [|split; assumption]. cbn [d_fs d_paths].
    destruct (create_file_ext (d_fs s) p f) as (e2 & ->). split; [intros x Hx; apply pexists_app; auto|assumption].
Qed.

Lemma distinct_active : forall ch dl remotes evs s, dinv s -> dinv (drun (ch ++ [NumDup]) dl remotes s evs).
Proof. induction evs; intros s H; [exact H|]. cbn [drun fold_left]. apply IHevs. apply dstep_dinv. exact H. Qed.

Lemma dinv_empty : forall fs, dinv (mkD fs []).
Proof. intros. split; [intros x []|constructor]. Qed.

(* ---------------------------------------------------------------- the index search walks the taken indices only *)
Lemma gap_from_bounds : forall fuel k l, k <= gap_from fuel k l <= k + N.of_nat fuel.
Proof.
  induction fuel; intros k l; cbn [gap_from]; [lia|]. destruct (memn k l); [|lia].
  specialize (IHfuel (k + 1) l). lia.
Qed.

Lemma next_index_bounds : forall inds, inds <> [] ->
  minl inds <= next_index inds <= minl inds + N.of_nat (length inds) + 1.
Proof.
  intros inds H. unfold next_index. destruct inds as [|a r] eqn:E; [congruence|]. rewrite <- E.
  pose proof (gap_from_bounds (S (length inds)) (minl inds) inds). lia.
Qed.
