(* C09 proofs. *)
From Slsk Require Import Base.Tac.
From Slsk Require Import C09.Model.
Open Scope N_scope.

(* ---------------------------------------------------------------- refutations (finding F08, F09) *)
Definition DL0 : path := [[98]; [100; 108]].                   (* b/dl *)
Definition FS0 : fsys := [([[98]], KDir); ([[98]; [100; 108]], KDir)].
Definition r_a_dotdot : str := [97; 92; 46; 46].               (* a\.. *)
Definition r_dotdot_x : str := [46; 46; 92; 120].              (* ..\x *)
Definition r_seps : str := [92; 92].                           (* \\ *)

Lemma DL0_ok : dl_ok DL0.
Proof. unfold dl_ok, DL0. repeat constructor; try discriminate; intros c Hc; cbn in Hc;
  repeat (destruct Hc as [<-|Hc]; [reflexivity|]); destruct Hc. Qed.

(* full statement: for every chain containing Default, every remote path and every directory
   content the result exists, is strictly inside dl and is a regular name *)
Definition inside_statement : Prop :=
  forall ch fs remote dl, dl_ok dl -> In Default ch ->
    exists p f, chain fs remote ch dl = Some (p, f) /\ inside dl (p ++ [f]) /\ regular_name f.

Lemma inside_refuted_name : exists ch fs remote dl p f, dl_ok dl /\ In Default ch /\
  chain fs remote ch dl = Some (p, f) /\ ~ regular_name f /\ ~ inside dl (p ++ [f]).
Proof.
  exists [Default], FS0, r_a_dotdot, DL0, DL0, [46; 46].
  split; [apply DL0_ok|]. split; [left; reflexivity|]. split; [vm_compute; reflexivity|]. split.
  - intros (_ & _ & H & _). apply H. reflexivity.
  - intros (rest & Hne & H). vm_compute in H. destruct rest; [congruence|discriminate].
Qed.

Lemma inside_refuted_dir : exists ch fs remote dl p f, dl_ok dl /\ In Default ch /\
  chain fs remote ch dl = Some (p, f) /\ regular_name f /\ ~ inside dl (p ++ [f]).
Proof.
  exists [Default; KeepDir; NumDup], FS0, r_dotdot_x, DL0, (DL0 ++ [[46; 46]]), [120].
  split; [apply DL0_ok|]. split; [left; reflexivity|]. split; [vm_compute; reflexivity|]. split.
  - repeat split; try discriminate. intros c [<-|[]]. reflexivity.
  - intros (rest & Hne & H). vm_compute in H. destruct rest; [discriminate|]. destruct rest; discriminate.
Qed.

Lemma inside_refuted_crash : exists ch fs remote dl, dl_ok dl /\ In Default ch /\ chain fs remote ch dl = None.
Proof.
  exists default_chain, FS0, r_seps, DL0. split; [apply DL0_ok|]. split; [left; reflexivity|]. vm_compute. reflexivity.
Qed.

Lemma inside_refuted : ~ inside_statement.
Proof.
  intros H. destruct inside_refuted_crash as (ch & fs & r & dl & H1 & H2 & H3).
  destruct (H ch fs r dl H1 H2) as (p & f & E & _). congruence.
Qed.

(* two downloads of equally named files: both choose before either creates *)
Definition rem2 (k : nat) : str := match k with O => [117; 92; 97] | _ => [118; 92; 97] end.     (* u\a , v\a *)
Lemma distinct_active_refuted : exists evs,
  distinct_paths (d_paths (drun default_chain DL0 rem2 (mkD FS0 []) evs)) = false.
Proof. exists [Prepare 0; Prepare 1; Create 0; Create 1]. vm_compute. reflexivity. Qed.
Lemma distinct_active_serial_example :
  distinct_paths (d_paths (drun default_chain DL0 rem2 (mkD FS0 []) [Prepare 0; Create 0; Prepare 1; Create 1])) = true.
Proof. vm_compute. reflexivity. Qed.
